#!/bin/sh
# usage: tools/try_seed_par.sh <prop> <dir> <tag>   -- like try_seed.sh in SEED_SCRATCH mode, but every scratch path carries <tag>, so that
# several seeds can be tried at the same time; /repo is never touched.  Result: /var/tmp/seedres/<tag>.txt
P="$1"; D="$2"; T="$3"
mkdir -p /var/tmp/seedres; R=/var/tmp/seedres/$T.txt; : > "$R"
W=$(mktemp -d /var/tmp/seedwt.XXXXXX); rmdir "$W"
git -C /repo worktree add -f "$W" HEAD -q || exit 3
cp "$D/demo.py" "$W/_demo.py"
( cd "$W" && PYTHONPATH="$W" timeout 600 /venv/bin/python _demo.py >/dev/null 2>&1; echo "demo without change: exit=$?" ) >> "$R"
( cd "$W" && git apply "$D/patch.diff" && PYTHONPATH="$W" timeout 600 /venv/bin/python _demo.py >/dev/null 2>&1; echo "demo with change: exit=$?" ) >> "$R"
rm -f "$W/_demo.py"
cd /verif
PYVC_REPO="$W" PYVC_NO_KILLS=1 PYVC_EVIDENCE_DIR=/var/tmp/seedres/ev_$T PYVC_REPLAY_DIR=/var/tmp/seedres/rp_$T ./check "$P" > /var/tmp/seedres/$T.out 2>&1; RC=$?
git -C /repo worktree remove --force "$W"
echo "check $P exit=$RC" >> "$R"
grep -c '^VIOLATION' /var/tmp/seedres/$T.out | sed 's/^/violation lines: /' >> "$R"
grep '^VIOLATION' /var/tmp/seedres/$T.out | sed 's/.*obligation=//; s/replay=.*replays\///' | cut -c1-220 | sort | uniq -c | sort -rn | head -8 >> "$R"
grep -v '^VIOLATION\|^KNOWN' /var/tmp/seedres/$T.out | tail -3 | cut -c1-300 >> "$R"
rm -rf /var/tmp/seedres/ev_$T /var/tmp/seedres/rp_$T
