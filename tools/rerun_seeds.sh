#!/bin/sh
# usage: tools/rerun_seeds.sh [name-substring]  -- regression over the kept seeded changes: each must still make its check exit 1
cd /verif
for d in seeded/*$1*/; do
  n=$(basename $d); P=$(python3-vt -c "import json;print(json.load(open('$d/meta.json'))['breaks_property'])")
  W=$(mktemp -d /var/tmp/seedwt.XXXXXX); rmdir "$W"
  git -C /repo worktree add -f "$W" HEAD -q || exit 3
  ( cd "$W" && git apply "/verif/$d/patch.diff" ) || { echo "$n: patch does not apply"; git -C /repo worktree remove --force "$W"; continue; }
  PYVC_REPO="$W" PYVC_NO_KILLS=1 PYVC_EVIDENCE_DIR=/var/tmp/rs_ev PYVC_REPLAY_DIR=/var/tmp/rs_rp ./check "$P" > /var/tmp/rs.out 2>&1; RC=$?
  git -C /repo worktree remove --force "$W"
  echo "$n $P exit=$RC violations=$(grep -c '^VIOLATION' /var/tmp/rs.out) $(grep '^VIOLATION' /var/tmp/rs.out | head -1 | sed 's/.*replays\///; s/.*seed_rp\///; s/.*rs_rp\///' | cut -c1-110)"
  rm -rf /var/tmp/rs_ev /var/tmp/rs_rp
done
