#!/bin/sh
# usage: tools/try_harmless.sh <prop> <patch.diff>   -- apply a behaviour-preserving change to a scratch worktree; the check must stay at exit 0
P="$1"; D="$2"
W=$(mktemp -d /var/tmp/harmwt.XXXXXX); rmdir "$W"
git -C /repo worktree add -f "$W" HEAD -q || exit 3
( cd "$W" && git apply "$D" ) || { echo "patch does not apply"; git -C /repo worktree remove --force "$W"; exit 3; }
cd /verif
PYVC_REPO="$W" PYVC_NO_KILLS=1 PYVC_EVIDENCE_DIR=/var/tmp/harm_ev PYVC_REPLAY_DIR=/var/tmp/harm_rp ./check "$P" > /var/tmp/harm_$P.out 2>&1; RC=$?
git -C /repo worktree remove --force "$W"
echo "harmless $P exit=$RC $(grep -c '^VIOLATION' /var/tmp/harm_$P.out) violation lines; $(tail -1 /var/tmp/harm_$P.out | cut -c1-150)"
grep '^VIOLATION\|^VACUITY\|^UNREACHED\|^CHECKER\|^ERROR\|^UNDECIDED' /var/tmp/harm_$P.out | cut -c1-300 | head -5
rm -rf /var/tmp/harm_ev /var/tmp/harm_rp
