"""Regenerate MANIFEST.json from contracts/index.py (run from /verif)."""
import json, os, sys
sys.path.insert(0, os.path.dirname(os.path.dirname(os.path.abspath(__file__))))
from contracts import index

ALL = ['C%02d' % i for i in range(1, 21)]
checks = []
for pid in ALL:
    e = index.PROPS.get(pid)
    if not e or not e.get('claimed', True):
        continue
    checks.append({
        'property_id': pid,
        'quick_cmd': './check %s --tier quick' % pid,
        'thorough_cmd': './check %s --tier thorough' % pid,
        'evidence_file': '/verif/evidence/%s.json' % pid,
        'replay_cmd_template': './check %s --replay {path}' % pid,
        'engine': 'pyvc',
        'level_claimed': {'category': e.get('level', 'proof'), 'text': e['level_text'], 'design_ref': 'DESIGN.md section 4, %s' % pid},
        'level_note': e['level_note'],
        'technique': e.get('technique', 'contract-based deductive verification: sidecar contracts on the real functions, VCs generated from the current AST by symbolic execution, discharged by z3/cvc5'),
    })
na = []
for pid in ALL:
    e = index.PROPS.get(pid)
    if e and e.get('claimed', True):
        continue
    na.append({'property_id': pid, 'reason': (e or {}).get('na_reason') or index.NOT_CLAIMED.get(pid, 'contracts not completed -- no verdict')})
m = {
    'version': 1,
    'setup_cmd': 'python3-vt -B -m pyvc.setup_check',
    'hooks': {
        'guard': 'FALCON_VERIF',
        'enable': 'none needed: contracts are sidecar files under /verif/contracts keyed by qualified name; /repo is read, never instrumented',
        'baseline_off_cmd': 'cd /repo && /venv/bin/python -m pytest -ra -q -p no:cacheprovider --timeout=900 --continue-on-collection-errors',
        'source_commits': [],
        'add_only': True,
    },
    'engines': [{
        'name': 'pyvc',
        'path': '/verif/pyvc',
        'serves_properties': [c['property_id'] for c in checks],
        'kind_free_text': 'home-built deductive verifier for a Python subset: re-reads the real .py source with ast on every run, symbolic execution path by path against sidecar contract harnesses (pre/post clauses, loop invariants, ghost state, callee contracts at call sites), obligations discharged by z3 in-process and a cvc5/z3 CLI portfolio; counter-models are replayed natively on the real code',
    }],
    'checks': checks,
    'not_applicable': na,
    'notes': index.NOTES,
}
json.dump(m, open(os.path.join(os.path.dirname(os.path.dirname(os.path.abspath(__file__))), 'MANIFEST.json'), 'w'), indent=1)
print('claimed:', [c['property_id'] for c in checks])
