#!/bin/sh
# Regenerate contracts/loop_headers.json ON THE UNCHANGED TREE: which loop (header text) each ordinal-keyed loop contract was written for.
cd /verif
R=/var/tmp/loops_rec.jsonl; rm -f $R
for p in $(python3-vt -c "import json; print(' '.join(c['property_id'] for c in json.load(open('MANIFEST.json'))['checks']))"); do
  PYVC_RECORD_LOOPS=$R PYVC_NO_KILLS=1 PYVC_EVIDENCE_DIR=/var/tmp/loops_ev PYVC_REPLAY_DIR=/var/tmp/loops_rp ./check $p > /dev/null 2>&1
  echo "$p rc=$?"
done
python3-vt - <<'PY'
import json
out={}
for l in open('/var/tmp/loops_rec.jsonl'):
    try: k,lab,h=json.loads(l)
    except ValueError: continue
    out.setdefault(k,{})[lab]=h
json.dump(out,open('/verif/contracts/loop_headers.json','w'),indent=1,sort_keys=True)
print(sum(len(v) for v in out.values()),'loop contracts recorded in',len(out),'functions')
PY
rm -rf /var/tmp/loops_ev /var/tmp/loops_rp /var/tmp/loops_rec.jsonl
