#!/bin/sh
# usage: tools/rerun_seed_one.sh <seed-name>  -- one kept seeded change against its check, every scratch path private to the seed (parallel-safe:
# `ls seeded | xargs -P 4 -n 1 tools/rerun_seed_one.sh`); prints one line; the check must exit 1
cd /verif; n="$1"; d="seeded/$n"
P=$(python3-vt -c "import json;print(json.load(open('$d/meta.json'))['breaks_property'])")
W=$(mktemp -d /var/tmp/seedwt.XXXXXX); rmdir "$W"
git -C /repo worktree add -f "$W" HEAD -q || exit 3
( cd "$W" && git apply "/verif/$d/patch.diff" ) || { echo "$n: patch does not apply"; git -C /repo worktree remove --force "$W"; exit 0; }
PYVC_REPO="$W" PYVC_NO_KILLS=1 PYVC_EVIDENCE_DIR=/var/tmp/rs_ev_$n PYVC_REPLAY_DIR=/var/tmp/rs_rp_$n ./check "$P" > /var/tmp/rs_$n.out 2>&1; RC=$?
git -C /repo worktree remove --force "$W"
echo "$n $P exit=$RC violations=$(grep -c '^VIOLATION' /var/tmp/rs_$n.out) $(grep '^VIOLATION' /var/tmp/rs_$n.out | head -1 | sed 's/.*rs_rp_[^/]*\///' | cut -c1-110)"
rm -rf /var/tmp/rs_ev_$n /var/tmp/rs_rp_$n /var/tmp/rs_$n.out
