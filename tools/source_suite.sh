#!/bin/sh
# Run falcon's own tests against the .py sources of <repo> (the pinned suite loads stale .so twins).
# usage: tools/source_suite.sh <repo-dir> [pytest args...]
set -e
SRC="$1"; shift
D=$(mktemp -d /var/tmp/srcsuite.XXXXXX)
trap 'rm -rf "$D"' EXIT
rsync -a --exclude .git --exclude '*.so' --exclude '*.c' --exclude docs --exclude __pycache__ "$SRC"/ "$D"/repo/
cd "$D/repo"
if [ $# -eq 0 ]; then set -- tests; fi
PYTHONPATH="$D/repo" PYTHONDONTWRITEBYTECODE=1 /venv/bin/python -m pytest -q -p no:cacheprovider -n 8 --continue-on-collection-errors "$@" 2>&1 | tail -15
