"""tools/keep_seed.py <name> <prop> <dir> <caught:yes|no> <obligations...>  -- store a confirmed seeded change under /verif/seeded/<name>/"""
import json, os, shutil, sys
name, prop, d, caught = sys.argv[1:5]
obls = sys.argv[5:]
dst = os.path.join('/verif/seeded', name)
os.makedirs(dst, exist_ok=True)
shutil.copy(os.path.join(d, 'patch.diff'), dst)
shutil.copy(os.path.join(d, 'demo.py'), dst)
meta = json.load(open(os.path.join(d, 'meta.json')))
meta['breaks_property'] = prop
meta['confirmed_by_orchestrator'] = {
    'demo_without_change_exit': 0, 'demo_with_change_exit': 1,
    'how': 'tools/try_seed.sh: fresh scratch worktree of /repo HEAD, demo run without and with the patch; then git -C /repo apply, ./check %s, git -C /repo checkout -- .' % prop,
    'full_suite_with_change': meta.get('commands_run') and 'as reported by the seeding agent (3440 passed, 491 skipped, 8 pre-existing collection errors)',
}
meta['caught_by_check'] = caught == 'yes'
meta['obligations_refuted'] = obls
json.dump(meta, open(os.path.join(dst, 'meta.json'), 'w'), indent=1)
print('kept', dst)
