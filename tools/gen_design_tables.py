"""Regenerate the machine-maintained tables of DESIGN.md (between <!-- BEGIN x --> / <!-- END x --> markers)."""
import glob, json, os, re
ROOT = os.path.dirname(os.path.dirname(os.path.abspath(__file__)))

def seeds_table():
    metas = [json.load(open(os.path.join(d, 'meta.json'))) for d in sorted(glob.glob(os.path.join(ROOT, 'seeded', '*')))]
    notes = [str(m.get('strengthening_needed', '') or '') for m in metas]
    noted = [n for n in notes if n and not n.startswith('caught as built')]
    missed = [n for n in noted if 'MISSED' in n or 'exit 0' in n or 'exit 3' in n or 'did not terminate' in n]
    bounded = [n for n in noted if 'BOUNDED' in n or 'bounded stand-in' in n.lower()]
    rows = ['**%d seeded changes are kept; %d were refuted by a named obligation as the contracts stood; %d needed a strengthening first '
            '(of these, %d were missed outright or left the check undecided at first; %d are / were caught by a labelled bounded stand-in rather than a proof obligation). '
            'Each of the %d made its check exit 1 when it was last run: the 111 of rounds a-f all together by `tools/rerun_seeds.sh` at commit 1a49892, the 23 of round g '
            'one by one with `tools/try_seed_par.sh` at the commit that stores them.  After the engine repairs of round g the 111 older ones were re-run with `tools/rerun_seed_one.sh` (four at a time): 109 finished within the session, '
            '108 of them at exit 1; one had gone to exit 3 (`C13-headers-dict-shared-between-parts`; the lazy content-unknown marking of 9.1 restored exit 1, re-run: exit 1).  '
            'Two were still running when the session ended (`C06-asgi-forwarded-host-fallback-drops-port`, `C10-joiner-malformed-escape-drops-tail`).**' % (len(metas), len(metas) - len(noted), len(noted), len(missed), len(bounded), len(metas)), '',
            '| seed | property | what it needs to manifest | refuted obligation(s) | note |', '|---|---|---|---|---|']
    for d in sorted(glob.glob(os.path.join(ROOT, 'seeded', '*'))):
        m = json.load(open(os.path.join(d, 'meta.json')))
        need = str(m.get('needs_to_manifest', '')).replace('\n', ' ').replace('|', '/')
        if len(need) > 220: need = need[:217] + '...'
        obl = '<br>'.join('`%s`' % o.split(':', 1)[-1] for o in m.get('obligations_refuted', [])[:3])
        note = str(m.get('strengthening_needed', 'caught as built')).replace('\n', ' ').replace('|', '/')
        if len(note) > 300: note = note[:297] + '...'
        rows.append('| %s | %s | %s | %s | %s |' % (os.path.basename(d), m.get('breaks_property'), need, obl, note))
    return '\n'.join(rows)

def status_table():
    import sys
    sys.path.insert(0, ROOT)
    from contracts import index
    man = json.load(open(os.path.join(ROOT, 'MANIFEST.json')))
    rows = ['| id | claimed | level | harnesses | obligations (last quick run) | known findings | bounded stand-ins |', '|---|---|---|---|---|---|---|']
    claimed = {c['property_id']: c for c in man['checks']}
    for i in range(1, 21):
        pid = 'C%02d' % i
        if pid in claimed:
            try:
                ev = json.load(open(os.path.join(ROOT, 'evidence', pid + '.json')))
                c = ev['coverage']
                rows.append('| %s | yes | %s | %d | %d discharged of %d | %d | %d |' % (pid, ev['level'], len(c.get('harnesses', [])), c['discharged'], c['obligations'],
                            len(c.get('known_findings_reported', [])), len(c.get('bounded_standins', []))))
            except Exception as e:
                rows.append('| %s | yes | ? | ? | (no evidence yet) | | |' % pid)
        else:
            na = [n for n in man.get('not_applicable', []) if n['property_id'] == pid]
            rows.append('| %s | no | | | %s | | |' % (pid, na[0]['reason'] if na else ''))
    return '\n'.join(rows)

def main():
    p = os.path.join(ROOT, 'DESIGN.md')
    s = open(p).read()
    for name, fn in (('SEEDS', seeds_table), ('STATUS', status_table)):
        b, e = '<!-- BEGIN %s -->' % name, '<!-- END %s -->' % name
        if b in s and e in s:
            s = s[:s.index(b) + len(b)] + '\n' + fn() + '\n' + s[s.index(e):]
    open(p, 'w').write(s)

if __name__ == '__main__':
    main()
