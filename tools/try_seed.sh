#!/bin/sh
# usage: tools/try_seed.sh <prop> <dir> [seed-name]
# 1. confirm the demonstration in a scratch worktree (fails with the change, passes without)
# 2. apply the change to /repo, run ./check <prop>, undo it straight afterwards
P="$1"; D="$2"; NAME="${3:-$P}"
W=$(mktemp -d /var/tmp/seedwt.XXXXXX); rmdir "$W"
git -C /repo worktree add -f "$W" HEAD -q || exit 3
cp "$D/demo.py" "$W/_demo.py"
( cd "$W" && PYTHONPATH="$W" /venv/bin/python _demo.py >/dev/null 2>&1; echo "demo without change: exit=$?" )
( cd "$W" && git apply "$D/patch.diff" && PYTHONPATH="$W" /venv/bin/python _demo.py >/dev/null 2>&1; echo "demo with change: exit=$?" )
git -C /repo worktree remove --force "$W"
cd /verif
if [ -n "$SEED_SCRATCH" ]; then
  # while other work reads /repo: apply the change to a scratch worktree and point the check at it (same overlay construction)
  W2=$(mktemp -d /var/tmp/seedwt.XXXXXX); rmdir "$W2"
  git -C /repo worktree add -f "$W2" HEAD -q || exit 3
  ( cd "$W2" && git apply "$D/patch.diff" ) || { echo "patch does not apply"; git -C /repo worktree remove --force "$W2"; exit 3; }
  PYVC_REPO="$W2" PYVC_NO_KILLS=1 PYVC_EVIDENCE_DIR=/var/tmp/seed_ev PYVC_REPLAY_DIR=/var/tmp/seed_rp ./check "$P" > /var/tmp/seed_check.out 2>&1; RC=$?
  git -C /repo worktree remove --force "$W2"
else
git -C /repo apply "$D/patch.diff" || { echo "patch does not apply to /repo"; exit 3; }
PYVC_NO_KILLS=1 PYVC_EVIDENCE_DIR=/var/tmp/seed_ev PYVC_REPLAY_DIR=/var/tmp/seed_rp ./check "$P" > /var/tmp/seed_check.out 2>&1; RC=$?
git -C /repo checkout -- .
fi
echo "check $P exit=$RC"; grep -c '^VIOLATION' /var/tmp/seed_check.out | sed 's/^/violation lines: /'; grep '^VIOLATION' /var/tmp/seed_check.out | sed 's/.*obligation=//; s/replay=.*replays\///' | cut -c1-200 | head -6
grep -v '^VIOLATION\|^KNOWN' /var/tmp/seed_check.out | tail -3
rm -rf /var/tmp/seed_ev /var/tmp/seed_rp
git -C /repo status --short | head -3
