#!/bin/sh
# run every claimed check's quick command, print exit codes and wall time
cd /verif
for p in $(python3-vt -c "import json; print(' '.join(c['property_id'] for c in json.load(open('MANIFEST.json'))['checks']))"); do
  s=$(date +%s); ./check $p > /var/tmp/runall_$p.out 2>&1; rc=$?; e=$(date +%s)
  echo "$p exit=$rc $((e-s))s $(grep -c '^KNOWN-FINDING' /var/tmp/runall_$p.out) known $(tail -1 /var/tmp/runall_$p.out | cut -c1-120)"
done
