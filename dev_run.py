"""Developer driver: python3-vt dev_run.py contracts.C16_static [name-filter]"""
import importlib, sys, time
sys.path.insert(0, '/verif')
from pyvc import overlay, harness as H
from pyvc.extract import SourceIndex
d = overlay.make_overlay(); overlay.activate(d)
import falcon  # noqa
mod = importlib.import_module(sys.argv[1])
flt = sys.argv[2] if len(sys.argv) > 2 else ''
idx = SourceIndex(d)
make_reg = getattr(mod, 'make_registry', H.Registry)
for h in H.HARNESSES:
    if flt and flt not in h.id: continue
    r = H.run_harness(h, idx, make_reg)
    if '-p' in sys.argv:
        from pyvc import solvers
        for ob in r.obligations:
            if ob.status == 'unknown' and ob.smt2:
                t0=time.time(); res = solvers.solve(ob.smt2, 20)
                print('    portfolio', ob.name, res[0], res[1], '%.1fs' % res[2])
                if res[0] == 'unsat': ob.status = 'discharged'
                elif res[0] == 'sat': ob.status = 'refuted'
    st = {}
    for ob in r.obligations: st[ob.status] = st.get(ob.status, 0) + 1
    print('%-70s paths=%d cut=%d obl=%d %s %.1fs' % (h.id, r.paths, r.cut_paths, len(r.obligations), st, r.seconds))
    if r.error: print('   ERROR', r.error)
    for cname, cnt in r.covers.items():
        if cnt == 0: print('    COVER NEVER REACHED', cname)
    if '-c' in sys.argv: print('    covers:', {k.split('#', 1)[-1]: n for k, n in r.covers.items()})
    seen=set()
    for ob in r.obligations:
        if ob.status != 'discharged' and (ob.name, ob.status) not in seen:
            seen.add((ob.name, ob.status))
            print('   ', ob.status, ob.name, ob.path, ob.model if ob.status=='refuted' else '')
            if '-v' in sys.argv: print('       ', ob.meta.get('labels'))
            if ob.status == 'refuted':
                print('       replay:', H.replay_concrete(h, ob.model, ob.meta.get('choices', [])))
