"""C18 -- WebSocket receive buffering is FIFO, bounded and lossless under every schedule.

Rely-guarantee over the atomic segments of falcon.asgi.ws:_BufferedReceiver.
asyncio is cooperative: the pump task, the receiver and stop() only interleave at
`await`.  Each coroutine is therefore a sequence of atomic segments that run from
one await to the next.  The real coroutine bodies are executed from their entry;
every await is a *cut point* implemented by the stubs below:

    check the global invariant I and this coroutine's guarantee G for the segment
    that just ended;  on the 2nd visit of the same await site end the path;
    otherwise HAVOC the shared state under the rely R (= what the other
    coroutines' guarantees allow, reflexive and transitive), assume I, and resume.

Because only I and R are assumed at a resumption, every schedule of the
coroutines is covered without enumerating interleavings.

Shared state and ghosts.  Events are opaque ids.  `pulled` = events obtained from
the server so far (ghost), `delivered` = events returned by receive() (ghost),
`hand` = the event the pump has pulled but not yet queued (ghost, 0 or 1).

Global invariant I:
  I1  pulled == delivered ++ messages ++ hand            (FIFO, lossless, exactly once)
  I2  len(messages) <= max_queue
  I3  _pop_message_waiter is not None  =>  it is pending, the receiver is suspended on it, messages is empty
        (a receive that can be satisfied is never left waiting: no lost wake-up)
  I4  _put_message_waiter is not None  =>  it is pending, the pump is suspended on it holding one event, queue full
  I5  len(hand) <= 1;  hand non-empty => the pump is suspended on a put-waiter or running
  I6  client_disconnected => the last pulled event is the disconnect; the pump never pulls after it
"""
from __future__ import annotations

import z3

from pyvc.core import And, Iff, Implies, Ite, Not, Or, mk_bool, mk_int, _b, _i, is_sym
from pyvc.harness import Ready, harness, stubclass

PROP = 'C18'
BR = 'falcon.asgi.ws:_BufferedReceiver'

SEQ = z3.SeqSort(z3.IntSort())
IS_DISC = z3.Function('is_disconnect', z3.IntSort(), z3.BoolSort())


def seq_len(s):
    return mk_int(z3.Length(s))


class Cancelled(BaseException):
    pass


@stubclass
class Event:
    """A server event, identified by an id; whether it is the disconnect is a predicate of the id."""

    def __init__(self, v, eid, code=None):
        self.v, self.eid = v, eid
        self.code = code  # the 'code' key of a disconnect event (None: the server sent none)

    def __pyvc_getitem__(self, k):
        assert k == 'type'
        from falcon.asgi_spec import EventType

        return EventType.WS_DISCONNECT if bool(mk_bool(IS_DISC(_i(self.eid)))) else EventType.WS_RECEIVE

    def get(self, k, default=None):
        if k == 'code' and self.code is not None:
            return self.code
        return default


@stubclass
class Fut:
    def __init__(self, w, kind):
        self.w, self.kind = w, kind
        self.state = 'pending'  # pending | done | cancelled  (may become symbolic bool `is_done` after a havoc)
        self.is_done = False

    def done(self):
        return self.is_done

    def set_result(self, r):
        self.w.v.check('set_result-only-on-a-pending-future', Not(self.is_done))
        self.is_done = True
        if self.kind == 'pop':
            self.w.recv_waiting = False  # the receiver is runnable again
        if self.kind == 'put':
            self.w.pump_on_put = False

    def cancel(self):
        self.is_done = True
        self.cancelled = True

    def __pyvc_await__(self, I):
        return self.w.await_put(self)


@stubclass
class Deque:
    """collections.deque of events as a sequence of ids."""

    def __init__(self, w):
        self.w = w

    def __pyvc_truth__(self):
        return seq_len(self.w.msgs) > 0

    def __pyvc_len__(self):
        return seq_len(self.w.msgs)

    def append(self, ev):
        w = self.w
        w.msgs = z3.simplify(z3.Concat(w.msgs, z3.Unit(_i(ev.eid))))
        # the pump hands its event over to the queue
        w.v.check('only-the-event-in-hand-is-queued', And(seq_len(w.hand) == 1, mk_bool(w.hand[0] == _i(ev.eid))))
        w.hand = z3.Empty(SEQ)

    def pop(self):
        w = self.w
        w.v.check('popleft-only-from-a-non-empty-queue', seq_len(w.msgs) > 0)
        n = z3.Length(w.msgs)
        last = mk_int(w.msgs[n - 1])
        w.msgs = z3.simplify(z3.SubSeq(w.msgs, 0, n - 1))
        w.delivered = z3.simplify(z3.Concat(w.delivered, z3.Unit(_i(last))))
        return Event(w.v, last)

    def popleft(self):
        w = self.w
        w.v.check('popleft-only-from-a-non-empty-queue', seq_len(w.msgs) > 0)
        head = mk_int(w.msgs[0])
        w.msgs = z3.simplify(z3.SubSeq(w.msgs, 1, z3.Length(w.msgs) - 1))
        w.delivered = z3.simplify(z3.Concat(w.delivered, z3.Unit(_i(head))))
        return Event(w.v, head)


class World:
    """Shared state + ghosts + the await-site stubs (cut points)."""

    def __init__(self, v, role, min_queue=1):
        self.v = v
        self.role = role  # which coroutine this harness executes: 'pump' | 'receive' | 'stop'
        c = v.ctx
        self.maxq = v.int('max_queue', min_queue)
        self.expect_code = None  # ghost: the close code the disconnect event pulled in this run stands for
        self.msgs = c.fresh_const('msgs', SEQ)
        self.pulled = c.fresh_const('pulled', SEQ)
        self.delivered = c.fresh_const('delivered', SEQ)
        self.hand = c.fresh_const('hand', SEQ)
        self.disc = v.bool('client_disconnected')
        self.seen_disc = self.disc  # ghost: the server has delivered the disconnect event
        self.pump_done = v.bool('pump_done')
        self.pump_cancelled = False
        self.recv_waiting = False  # the receiver is suspended on its pop-waiter
        self.pump_on_put = False  # the pump is suspended on its put-waiter
        self.popw = None
        self.putw = None
        self.visits = {}
        self.obj = None
        self.snap = None

    # -- field access on the real object ------------------------------------------------
    def sync_in(self):
        o = self.obj
        self.popw = o._pop_message_waiter
        self.putw = o._put_message_waiter
        self.disc = o.client_disconnected

    def sync_out(self):
        o = self.obj
        o._pop_message_waiter = self.popw
        o._put_message_waiter = self.putw
        o.client_disconnected = self.disc

    # -- the invariant ------------------------------------------------------------------------
    def inv(self):
        n = seq_len(self.msgs)
        h = seq_len(self.hand)
        i1 = mk_bool(self.pulled == z3.Concat(self.delivered, self.msgs, self.hand))
        i2 = n <= self.maxq
        i3 = True if self.popw is None else And(Not(self.popw.is_done), self.recv_waiting, n == 0)
        i4 = True if self.putw is None else And(Not(self.putw.is_done), self.pump_on_put, h == 1, n >= self.maxq)
        i5 = And(h <= 1, Implies(self.pump_on_put, h == 1), Implies(self.pump_done, h == 0))
        i5b = Implies(self.recv_waiting, self.popw is not None) if self.role != 'receive' else True
        last = self.pulled[z3.Length(self.pulled) - 1]
        i6 = And(Implies(self.disc, And(seq_len(self.pulled) > 0, mk_bool(IS_DISC(last)))), Iff(self.disc, self.seen_disc))
        i7 = Implies(And(self.pump_done, Not(self.pump_cancelled)), And(self.disc, h == 0)) if self.role != 'pump' else True
        return And(i1, i2, i3, i4, i5, i5b, i6, i7)

    def check_code(self):
        """The pump publishes the client's close code together with the flag (C17 reports it to senders): the event's code, 1000 when it has none."""
        if self.expect_code is not None:
            got = self.obj.client_disconnected_code
            self.v.check('disconnect-code-recorded-together-with-the-flag', And(self.disc, got == self.expect_code) if got is not None else False)

    def snapshot(self):
        self.snap = dict(msgs=self.msgs, pulled=self.pulled, delivered=self.delivered, hand=self.hand, disc=self.disc, popw=self.popw, putw=self.putw,
                         popw_done=(self.popw.is_done if self.popw is not None else None), putw_done=(self.putw.is_done if self.putw is not None else None))

    # -- guarantees (what one coroutine's segment may do to the shared state) ---------------------
    def guarantee_pump(self):
        """Pump segments: never touch `delivered`; only append to messages and to pulled."""
        s = self.snap
        return And(mk_bool(self.delivered == s['delivered']), mk_bool(z3.PrefixOf(s['msgs'], self.msgs)), mk_bool(z3.PrefixOf(s['pulled'], self.pulled)))

    def guarantee_receive(self):
        """Receive segments: never touch `pulled` or `hand`; only pop from the head of messages into delivered."""
        s = self.snap
        return And(mk_bool(self.pulled == s['pulled']), mk_bool(self.hand == s['hand']), mk_bool(z3.SuffixOf(self.msgs, s['msgs'])),
                   mk_bool(z3.PrefixOf(s['delivered'], self.delivered)), Iff(self.disc, s['disc']))

    # -- cut points --------------------------------------------------------------------------------
    def cut(self, site, guarantee):
        v = self.v
        self.sync_in()
        v.check('invariant-at-await:%s' % site, self.inv())
        v.check('guarantee-of-%s-segment-ending-at:%s' % (self.role, site), guarantee())
        if self.role == 'pump':
            self.check_code()
        n = self.visits.get(site, 0) + 1
        self.visits[site] = n
        if n >= 2:
            v.ctx.done()

    # pump: await self._asgi_receive()
    def await_pull(self):
        v, c = self.v, self.v.ctx
        v.check('pump-never-pulls-after-the-disconnect', Not(self.seen_disc))
        # the statement's literal bound: the framework holds at most max_queue messages, i.e. it pulls only when there is room
        v.check('pump-pulls-only-when-there-is-room', seq_len(self.msgs) + 1 <= self.maxq, no_assume=True)  # (recorded finding: do not let it mask later clauses)
        self.cut('pull', self.guarantee_pump)
        # -- environment (receiver / stop) runs: rely = guarantee_receive*, then the server delivers one event
        s_msgs, s_deliv = self.msgs, self.delivered
        self.msgs = c.fresh_const('msgs_r', SEQ)
        self.delivered = c.fresh_const('deliv_r', SEQ)
        v.assume(mk_bool(z3.SuffixOf(self.msgs, s_msgs)))
        v.assume(mk_bool(z3.Concat(self.delivered, self.msgs) == z3.Concat(s_deliv, s_msgs)))
        self.havoc_receiver_side()
        v.assume(self.inv())
        if v.choose(2, 'pump-cancelled-while-pulling?') == 1:
            self.pump_cancelled = True
            v.ctx.raise_py(Cancelled)
        eid = v.int('event')
        self.pulled = z3.simplify(z3.Concat(self.pulled, z3.Unit(_i(eid))))
        self.hand = z3.simplify(z3.Unit(_i(eid)))
        self.seen_disc = Or(self.seen_disc, mk_bool(IS_DISC(_i(eid))))
        code = None
        if bool(mk_bool(IS_DISC(_i(eid)))):
            # websocket.disconnect with or without a 'code' key
            if v.choose(2, 'disconnect-code-present?'):
                code = v.int('disconnect_code')
            self.expect_code = 1000 if code is None else code
        self.sync_out()
        self.snapshot()
        return Event(v, eid, code)

    def havoc_receiver_side(self):
        """What the receiver may have done to its own waiter while the pump was suspended."""
        v = self.v
        k = v.choose(2, 'receiver-waiting-now?')
        if k == 1:
            f = Fut(self, 'pop')
            self.popw = f
            self.recv_waiting = True
        else:
            self.popw = None
            self.recv_waiting = False
        self.sync_out()

    # pump: await self._put_message_waiter
    def await_put(self, fut):
        v, c = self.v, self.v.ctx
        self.pump_on_put = True
        self.cut('put', self.guarantee_pump)
        # -- environment: the receiver resolves the put-waiter right after popping (its guarantee), or stop() cancels the pump
        if v.choose(2, 'pump-cancelled-while-blocked?') == 1:
            self.pump_cancelled = True
            self.pump_on_put = False
            v.ctx.raise_py(Cancelled)
        s_msgs, s_deliv = self.msgs, self.delivered
        self.msgs = c.fresh_const('msgs_r', SEQ)
        self.delivered = c.fresh_const('deliv_r', SEQ)
        v.assume(mk_bool(z3.SuffixOf(self.msgs, s_msgs)))
        v.assume(mk_bool(z3.Concat(self.delivered, self.msgs) == z3.Concat(s_deliv, s_msgs)))
        v.assume(seq_len(self.msgs) < seq_len(s_msgs))  # resolved only after at least one popleft
        fut.is_done = True
        self.putw = None
        self.obj._put_message_waiter = None  # the receiver clears the field when it resolves the waiter
        self.pump_on_put = False
        self.havoc_receiver_side()
        self.sync_in()
        v.assume(self.inv())
        self.snapshot()
        v.cover('pump-resumed-after-put-waiter')
        return None

    # receive: await asyncio.wait([pop_waiter, pump_task], FIRST_COMPLETED)
    def await_wait(self, popw):
        v, c = self.v, self.v.ctx
        self.recv_waiting = True
        self.cut('wait', self.guarantee_receive)
        if v.choose(2, 'receive-cancelled-while-waiting?') == 1:
            v.ctx.raise_py(Cancelled)
        # -- environment: pump segments (guarantee_pump*) and possibly stop(): returns when the waiter or the pump task is done
        s = dict(msgs=self.msgs, pulled=self.pulled)
        self.msgs = c.fresh_const('msgs_p', SEQ)
        self.pulled = c.fresh_const('pulled_p', SEQ)
        self.hand = c.fresh_const('hand_p', SEQ)
        self.disc = Or(self.disc, v.bool('disc_p'))
        self.seen_disc = self.disc
        self.pump_done = Or(self.pump_done, v.bool('pump_done_p'))
        self.pump_cancelled = v.bool('pump_cancelled_p')
        self.pump_on_put = v.bool('pump_on_put_p')
        woke = v.bool('pop_waiter_resolved')
        v.assume(mk_bool(z3.PrefixOf(s['msgs'], self.msgs)))
        v.assume(mk_bool(z3.PrefixOf(s['pulled'], self.pulled)))
        # pump guarantee about the waiter: resolved exactly when it queued something for this receiver, and then the field is cleared
        v.assume(Iff(woke, seq_len(self.msgs) > 0))
        v.assume(Or(woke, self.pump_done))  # FIRST_COMPLETED
        popw.is_done = woke
        if bool(woke):
            self.obj._pop_message_waiter = None
        self.recv_waiting = False
        pw = v.choose(2, 'put-waiter-now?')
        if pw == 1:
            self.obj._put_message_waiter = Fut(self, 'put')
        else:
            self.obj._put_message_waiter = None
        self.obj.client_disconnected = self.disc
        saved_popw = self.obj._pop_message_waiter
        # the invariant is assumed for the state the pump left, with this receiver's waiter still registered unless resolved
        self.sync_in()
        if self.popw is not None:
            self.recv_waiting = True
        v.assume(self.inv())
        self.recv_waiting = False
        self.snapshot()
        v.cover('receive-resumed-after-wait[%s]' % ('woken' if bool(woke) else 'pump-finished'))
        return None


@stubclass
class Loop:
    def __init__(self, w):
        self.w = w

    def create_future(self):
        return Fut(self.w, 'new')


@stubclass
class PumpTask:
    def __init__(self, w):
        self.w = w

    def done(self):
        return self.w.pump_done

    def cancel(self):
        self.w.pump_cancelled = True
        self.w.cancel_requested = True

    def __pyvc_await__(self, I):
        # stop(): awaiting the cancelled pump: it finishes (its finally blocks clear the put-waiter) and raises CancelledError here
        w = self.w
        w.v.check('stop-awaits-only-a-cancelled-pump', getattr(w, 'cancel_requested', False))
        finished_before = bool(w.pump_done)  # the pump had returned by itself (it queued the disconnect) before stop() was called
        w.pump_done = True
        w.obj._put_message_waiter = None
        w.hand_dropped = True
        if finished_before:
            w.v.cover('stop-awaits-a-finished-pump')
            return None  # cancel() on a finished task is a no-op and awaiting it returns its result
        import asyncio

        w.v.cover('stop-awaits-a-cancelled-pump')
        w.v.ctx.raise_py(asyncio.CancelledError)


@stubclass
class AsgiReceive:
    def __init__(self, w):
        self.w = w

    def __call__(self):
        w = self.w

        class Aw:
            __pyvc_symbolic__ = True

            def __pyvc_await__(self_, I):
                return w.await_pull()

        return Aw()


def mk_receiver(v, role, min_queue=1):
    w = World(v, role, min_queue)
    o = v.obj(BR, _asgi_receive=AsgiReceive(w), _max_queue=w.maxq, _loop=Loop(w), _messages=Deque(w), _pop_message_waiter=None,
              _put_message_waiter=None, _pump_task=PumpTask(w), client_disconnected=w.disc, client_disconnected_code=None)
    w.obj = o
    return w, o


def _setup(reg, ex):
    import asyncio

    def wait_model(I, aws, return_when=None, **kw):
        fut = aws[0]
        w = fut.w
        # what the model below implements: "until the pop-waiter OR the pump task is done, whichever comes first"
        w.v.check('waits-for-the-pop-waiter-or-the-pump-task-whichever-completes-first',
                  len(aws) == 2 and isinstance(aws[0], Fut) and aws[0].kind == 'new' and aws[1] is w.obj._pump_task and return_when == asyncio.FIRST_COMPLETED and not kw)

        class Aw:
            __pyvc_symbolic__ = True

            def __pyvc_await__(self_, I2):
                return fut.w.await_wait(fut)

        return Aw()

    reg.add_model(asyncio.wait, wait_model)


# --- the pump ---------------------------------------------------------------------------------


@harness(PROP, BR + '._pump', setup=_setup)
def pump_segments(v):
    if v.concrete:
        return
    w, o = mk_receiver(v, 'pump')
    # the pump starts (or is at its loop head) in an arbitrary state satisfying I, holding nothing, not blocked
    v.assume(seq_len(w.hand) == 0)
    w.pump_done = False
    w.havoc_receiver_side()
    w.sync_in()
    v.assume(w.inv())
    w.snapshot()
    out = v.call(o)
    w.sync_in()
    if out.exc is not None:
        v.check('pump-ends-only-by-cancellation', out.exc.isa(Cancelled))
        # cancelled: the finally block cleared the put-waiter; an event in hand is dropped together with the connection
        v.check('cancelled-pump-leaves-no-put-waiter', w.putw is None)
        v.cover('pump-cancelled')
        return
    w.pump_done = True
    v.check('pump-finishes-only-after-queueing-the-disconnect', And(w.disc, seq_len(w.hand) == 0))
    w.check_code()
    v.check('invariant-at-pump-exit', w.inv())
    v.check('guarantee-of-pump-segment-ending-at:exit', w.guarantee_pump())
    v.cover('pump-finished')


# C17 ("nothing is sent after the connection is lost", "a disconnect is reported to a sender") assumes that the pump
# raises the client_disconnected flag in the very segment in which it pulls the disconnect (invariant I6: flag <=> the
# server delivered the disconnect).  That assumption is this harness; it is therefore also run as part of ./check C17.
harness('C17', BR + '._pump', name='pump_segments[dependency of C17: disconnect flag raised with the pull]', setup=_setup)(pump_segments)


# --- receive ------------------------------------------------------------------------------------


@harness(PROP, BR + '.receive', setup=_setup)
def receive_segments(v):
    if v.concrete:
        return
    w, o = mk_receiver(v, 'receive')
    pw = v.choose(2, 'put-waiter-at-entry?')
    if pw:
        o._put_message_waiter = Fut(w, 'put')
        w.pump_on_put = True
    else:
        w.pump_on_put = v.bool('pump_on_put0')
    w.sync_in()
    v.assume(w.inv())
    w.snapshot()
    pulled0, delivered0, msgs0 = w.pulled, w.delivered, w.msgs
    out = v.call(o)
    w.sync_in()
    if out.exc is not None:
        v.check('receive-raises-only-on-cancellation', out.exc.isa(Cancelled))
        v.check('cancelled-receive-leaves-no-pop-waiter', w.popw is None)
        v.check('cancelled-receive-delivers-nothing', mk_bool(w.delivered == w.snap['delivered']))
        v.cover('receive-cancelled')
        return
    ev = out.value
    if isinstance(ev, dict):
        # the synthetic disconnect: only when the pump is finished and nothing is queued
        v.check('synthetic-disconnect-only-when-pump-finished-and-queue-empty', And(w.pump_done, seq_len(w.msgs) == 0))
        v.check('invariant-at-receive-exit', w.inv())
        v.cover('receive-synthetic-disconnect')
        return
    v.check('returns-the-oldest-undelivered-event', And(seq_len(w.delivered) > 0, mk_bool(w.delivered[z3.Length(w.delivered) - 1] == _i(ev.eid))))
    v.check('no-pop-waiter-left-behind', w.popw is None)
    v.check('invariant-at-receive-exit', w.inv())
    v.check('guarantee-of-receive-segment-ending-at:exit', w.guarantee_receive())
    v.cover('receive-returns-message')


# --- start / stop ---------------------------------------------------------------------------------


@harness(PROP, BR + '.stop', setup=_setup)
def stop_receiver(v):
    if v.concrete:
        return
    v.expect_covers('stop-awaits-a-finished-pump', 'stop-awaits-a-cancelled-pump')
    w, o = mk_receiver(v, 'stop')
    has_task = v.choose(2, 'pump-started?')
    if not has_task:
        o._pump_task = None
    out = v.call(o)
    v.check('stop-never-raises', out.exc is None)
    v.check('after-stop-no-pump-task-is-registered', o._pump_task is None)
    if has_task:
        v.check('pump-was-cancelled-and-awaited-to-completion', And(getattr(w, 'cancel_requested', False), w.pump_done))


@harness(PROP, BR + '.start')
def start_receiver(v):
    if v.concrete:
        return
    import asyncio

    v.expect_covers('buffered', 'unbuffered')
    w, o = mk_receiver(v, 'stop', 0)  # max_queue == 0 is the unbuffered mode: nothing is started
    already = v.choose(2, 'already-started?')
    task0 = o._pump_task
    if not already:
        o._pump_task = None
    created = []

    def create_task(I, coro):
        created.append(coro)
        return 'TASK'

    v.registry.add_model(asyncio.create_task, create_task)
    v.registry.stubs[BR + '._pump'] = lambda I, self: ('pump-coroutine', self)
    out = v.call(o)
    v.check('start-never-raises', out.exc is None)
    if already:
        v.check('start-is-idempotent', o._pump_task is task0 and not created)
    elif w.maxq > 0:
        v.check('pump-started-exactly-once-when-buffering', len(created) == 1 and o._pump_task == 'TASK')
        v.cover('buffered')
    else:
        v.check('no-pump-task-when-buffering-is-disabled', not created and o._pump_task is None)
        v.cover('unbuffered')


_WS = 'falcon/asgi/ws.py'
KILLS = [
    # LIFO instead of FIFO
    (_WS, "        message = self._messages.popleft()\n", "        message = self._messages.pop()\n", '_BufferedReceiver.receive#returns-the-oldest-undelivered-event'),
    # the pop-waiter is not cleared when the wait ends (cancellation leaves a stale waiter behind)
    (_WS, "            finally:\n                self._pop_message_waiter = None\n", "            finally:\n                pass\n", '_BufferedReceiver.receive#'),
    # stop() no longer cancels the pump before awaiting it
    (_WS, "        self._pump_task.cancel()\n        try:\n            await self._pump_task", "        try:\n            await self._pump_task", '_BufferedReceiver.stop#'),
    # the receiver is woken up without anything having been queued (lost message for this wake-up: notify before append is fine, never appending is not)
    (_WS, "            self._messages.append(received_event)\n\n            # Notify receive()\n", "            # Notify receive()\n", '_BufferedReceiver._pump#'),
    # the pump no longer waits for room: the queue grows beyond max_queue
    (_WS, "            while len(self._messages) >= self._max_queue:\n", "            while False:\n", '_BufferedReceiver._pump#invariant-at-await'),
    # the put-waiter is never resolved by receive(): not a safety violation of the queue, but the waiter discipline breaks (stale resolved future reused)
    (_WS, "            self._put_message_waiter.set_result(None)\n            self._put_message_waiter = None\n", "            self._put_message_waiter.set_result(None)\n",
     '_BufferedReceiver.receive#invariant-at-receive-exit'),
    # the disconnect flag is never set: the pump would pull again after the disconnect
    (_WS, "                self.client_disconnected = True\n", "                pass\n", '_BufferedReceiver._pump#'),
    # --- one per input freed by the fixed-input audit ---------------------------------------------------------------------
    # the client's close code is dropped: every disconnect is recorded as 1000 (invisible while the event stub had no 'code' key)
    (_WS, "                self.client_disconnected_code = received_event.get(\n                    'code', WSCloseCode.NORMAL\n                )\n",
     "                self.client_disconnected_code = WSCloseCode.NORMAL\n", '_BufferedReceiver._pump#disconnect-code-recorded-together-with-the-flag'),
    # a pump task is started in the unbuffered mode too (max_receive_queue == 0)
    (_WS, "        if self._pump_task is None and self._max_queue > 0:\n", "        if self._pump_task is None:\n", '_BufferedReceiver.start#no-pump-task-when-buffering-is-disabled'),
    # stop() forgets the task only when awaiting it raised CancelledError: a pump that had already finished by itself stays registered
    (_WS, "        except asyncio.CancelledError:\n            pass\n\n        self._pump_task = None\n", "        except asyncio.CancelledError:\n            self._pump_task = None\n",
     '_BufferedReceiver.stop#after-stop-no-pump-task-is-registered'),
    # receive() waits for the waiter AND the pump task: a queued message is not delivered until the pump ends
    (_WS, "return_when=asyncio.FIRST_COMPLETED", "return_when=asyncio.ALL_COMPLETED", '_BufferedReceiver.receive#waits-for-the-pop-waiter-or-the-pump-task-whichever-completes-first'),
]
HARMLESS = [
    # re-checking the capacity after a wake-up is defensive: the pump is the only producer, so `if` is equivalent
    (_WS, "            while len(self._messages) >= self._max_queue:\n                self._put_message_waiter = self._loop.create_future()",
     "            if len(self._messages) >= self._max_queue:\n                self._put_message_waiter = self._loop.create_future()"),
]

ASSUMPTIONS = [
    'asyncio is cooperative: coroutines interleave only at await; futures: set_result requires a pending future; awaiting returns when it is done and raises '
    'CancelledError when the awaiting task is cancelled; asyncio.wait(FIRST_COMPLETED) returns when one awaitable is done',
    'at most one receive() is in flight (the code asserts it) and receive() is only called while a pump task is registered',
    'the rely used when a coroutine resumes is the reflexive-transitive closure of the other coroutines\' guarantees; each guarantee is checked on every segment',
]
NOT_DECIDED = [
    'inputs that stay fixed: receive_after_sender_saw_disconnect is one concrete history (codes 1001, one queued text message) demonstrating a recorded finding; '
    'server events are ids with a disconnect predicate (payloads are opaque to the buffer), a disconnect event has a code or none; a pump task that ended with an '
    'exception of the server receive callable (stop() would re-raise it) is outside the rely (C17 assumption: stop() returns normally)',
    'liveness / promptness as such ("reported promptly"): only the safety cores (no lost wake-up I3, no pull after disconnect I6) are decided',
    'the surfacing of the disconnect in WebSocket._send/_receive/closed/ready belongs to C17; the unbuffered mode (max_queue == 0) is the pass-through of WebSocket.__init__ (C17)',
]
TRUSTED = ['World (ghost state, invariant, guarantees, cut-point stubs) and the asyncio stubs Fut/Loop/PumpTask in contracts/C18_ws_buffer.py']


# --- "a disconnect is reported to a receiver only after the messages that preceded it" at the WebSocket level -------

WS = 'falcon.asgi.ws:WebSocket'


@harness(PROP, WS + '.receive_text', name='receive_after_sender_saw_disconnect',
         inline=[WS + '._require_accepted', WS + '._receive'])
def receive_after_sender_saw_disconnect(v):
    """History: client sent m1, m2, then disconnected; a send_* call observed the disconnect flag and closed the socket
    (C17: _send sets _state = CLOSED when the pump has seen the disconnect).  m1 is still queued."""
    if v.concrete:
        return
    import falcon.asgi.ws as wsmod

    delivered = []

    @stubclass
    class QueuedReceive:
        """_BufferedReceiver.receive with m1 queued (contract proved above: returns the oldest undelivered event)."""

        def __call__(self_):
            delivered.append('m1')
            return Ready({'type': 'websocket.receive', 'text': v.str('m1')})

    class _BR:
        client_disconnected = True
        client_disconnected_code = 1001

    ws = v.obj(WS, _state=wsmod._WebSocketState.CLOSED, _close_code=1001, _asgi_receive=QueuedReceive(), _buffered_receiver=_BR())
    out = v.call(ws)
    v.check('queued-messages-are-delivered-before-the-disconnect-is-reported', out.exc is None and delivered == ['m1'])
