"""C01 -- the compiled router resolves every path as the URI-template tree dictates.

Two kinds of obligations.

(1) PER-PROGRAM, all request paths.  For each route history H of a bounded,
seeded enumeration (templates over literal / simple / converter / multi-field /
path-consuming segments, accepted and rejected adds interleaved), the REAL router
of the current tree executes H; the text of the finder it generates
(`router.finder_src`) is parsed and executed symbolically on a request path of
*symbolic length* whose segments are *symbolic strings*; regular-expression
matching and converters are uninterpreted (memoised by pattern/converter and
argument).  The result is compared with an independent depth-first walk
(`oracle_find`) over a trie built from the list of ACCEPTED templates only.  The
generated program is loop-free, so this decides the program for every request
path.  Programs (route sets) are the bounded quantifier -- stated in evidence.

(2) UNBOUNDED function contracts: CompiledRouter.find (fresh params per call,
result tuple), converters (IntConverter digit/min/max veto table ...).
"""
from __future__ import annotations

import ast
import itertools
import os
import random
import re

from pyvc.core import And, Implies, Len, Not, Or, SStr, is_sym
from pyvc.harness import harness, stubclass
from pyvc.interp import Closure

PROP = 'C01'
RM = 'falcon.routing.compiled'

# ---------------------------------------------------------------------------
# independent template reader (from the documentation of URI templates)

FIELD = re.compile(r'{([^}:]+)(?::([a-zA-Z_][a-zA-Z_0-9]*)(?:\(([^)]*)\))?)?}')


def parse_segment(seg):
    """-> ('lit', text) | ('simple', name, conv) | ('complex', [(name, conv)...], raw) ; conv = (cname, argstr) or None"""
    ms = list(FIELD.finditer(seg))
    if not ms:
        return ('lit', seg)
    fields = [(m.group(1).strip(), (m.group(2), m.group(3)) if m.group(2) else None) for m in ms]
    if len(ms) == 1 and ms[0].span() == (0, len(seg)):
        return ('simple', fields[0][0], fields[0][1])
    return ('complex', fields, seg)


class TNode:
    def __init__(self, seg):
        self.seg = seg
        self.kind = parse_segment(seg)
        self.children = []
        self.template = None  # set when a route ends here


def build_trie(templates):
    roots = []
    for t in templates:
        nodes = roots
        node = None
        for seg in t.lstrip('/').split('/'):
            node = next((n for n in nodes if n.seg == seg), None)
            if node is None:
                node = TNode(seg)
                nodes.append(node)
            nodes = node.children
        node.template = t
    return roots


def _rank(n):
    return {'lit': 0, 'complex': 1, 'simple': 2}[n.kind[0]]


def oracle_find(roots, path, env):
    """Plain depth-first walk: literal, then multi-field, then single-field children; backtracking."""

    def walk(nodes, level, params):
        n = path.length
        for node in sorted(nodes, key=_rank):  # stable: insertion order within a rank
            kind = node.kind
            got = None  # None = no match; else dict of the fields bound at this level
            consumes_rest = False
            if not env.truth(n > level):
                continue
            seg = path.seg(level)
            if kind[0] == 'lit':
                if env.truth(seg == kind[1]):
                    got = {}
            elif kind[0] == 'simple':
                name, conv = kind[1], kind[2]
                if conv is None:
                    got = {name: seg}
                elif env.consumes_rest(conv):
                    consumes_rest = True
                    val = env.convert(conv, ('frag', level), path.rest(level))
                    if val is not None:
                        got = {name: val}
                else:
                    val = env.convert(conv, ('seg', level), seg)
                    if val is not None:
                        got = {name: val}
            else:
                groups = env.match(env.regex_of[node.seg], level, seg, [f[0] for f in kind[1]])
                if groups is not None:
                    got = {}
                    ok = True
                    for name, conv in kind[1]:
                        val = groups[name]
                        if conv is not None:
                            val = env.convert(conv, _grp_key(val, env.regex_of[node.seg], level, name), val)
                            if val is None:
                                ok = False
                                break
                        got[name] = val
                    if not ok:
                        got = None
            if got is None:
                continue
            merged = dict(params)
            merged.update(got)
            if consumes_rest:
                if node.template is not None:
                    return node.template, merged
                continue
            if node.template is not None and env.truth(n == level + 1):
                return node.template, merged
            r = walk(node.children, level + 1, merged)
            if r is not None:
                return r
        return None

    return walk(roots, 0, {})


# ---------------------------------------------------------------------------
# symbolic request path + uninterpreted matching environment (shared by both sides)


@stubclass
class SymPath:
    """uri.lstrip('/').split('/'): n >= 1 segments, none containing '/'."""

    def __init__(self, v, maxlen):
        self.v = v
        self.length = v.int('path_len', 1)
        self.segs = {}
        self.maxlen = maxlen

    def seg(self, k):
        if k not in self.segs:
            s = self.v.str('seg%d' % k)
            if not self.v.concrete:
                self.v.assume(Not(s.contains('/')))
            self.segs[k] = s
        return self.segs[k]

    def rest(self, k):
        return _Rest(self, k)

    def __pyvc_len__(self):
        return self.length

    def __pyvc_getitem__(self, k):
        if isinstance(k, slice):
            assert k.stop is None and k.step is None and isinstance(k.start, int)
            return _Rest(self, k.start)
        if not isinstance(k, int):
            from pyvc.core import Unreached

            raise Unreached('symbolic index into the request path')
        # "lookups never fail with an internal error": every path[k] must be guarded by path_len > k
        self.v.check('every-path-index-is-guarded-by-path-length', self.length > k)
        return self.seg(k)


class _Rest:
    __pyvc_symbolic__ = True

    def __init__(self, p, start):
        self.p, self.start = p, start

    def __eq__(self, o):
        return isinstance(o, _Rest) and o.p is self.p and o.start == self.start

    def __hash__(self):
        return hash(self.start)


class ConvVal:
    """The (opaque) value a converter produced for one argument."""

    def __init__(self, key):
        self.key = key

    def __eq__(self, o):
        return isinstance(o, ConvVal) and o.key == self.key

    def __hash__(self):
        return hash(self.key)

    def __repr__(self):
        return 'ConvVal%r' % (self.key,)


class Env:
    def __init__(self, v, conv_key_of_template, regex_of):
        self.v = v
        self.memo = {}
        self.conv_key_of_template = conv_key_of_template
        self.regex_of = regex_of
        self.literals = []

    def truth(self, c):
        return bool(c)  # forks on a symbolic condition (shared path condition keeps both sides consistent)

    def _decide(self, key, label):
        if key not in self.memo:
            self.memo[key] = self.v.choose(2, label)
        return self.memo[key]

    def literal_value(self, seg):
        """If this path forces the segment to equal a literal of the route set, that literal (forks), else None."""
        if not isinstance(seg, SStr):
            return seg if isinstance(seg, str) else None
        for lit in self.literals:
            if bool(seg == lit):
                return lit
        return None

    def match(self, regex_text, level, seg, names):
        lit = self.literal_value(seg)
        if lit is not None:
            # a segment known to be a literal of the route set: the real regular expression decides
            m = re.match(regex_text, lit)
            return None if m is None else {nm: ConvVal(('group-of-literal', regex_text, lit, nm, m.group(nm))) for nm in names}
        ok = self._decide(('match', regex_text, level), 'regex-matches?')
        if not ok:
            return None
        key = ('groups', regex_text, level)
        if key not in self.memo:
            self.memo[key] = {nm: ConvVal(('group', regex_text, level, nm)) for nm in names}
        return dict(self.memo[key])

    def convert_key(self, ckey, arg_key, arg=None, inst=None):
        if inst is not None and arg is not None and not self.is_path_like(inst):
            lit = self.literal_value(arg) if not isinstance(arg, ConvVal) else (arg.key[4] if arg.key[0] == 'group-of-literal' else None)
            if lit is not None:
                # the real converter decides on a literal of the route set
                r = inst.convert(lit)
                return None if r is None else ConvVal(('conv-of-literal', ckey, lit, repr(r)))
        ok = self._decide(('conv', ckey, arg_key), 'converter-accepts?')
        return ConvVal(('conv', ckey, arg_key)) if ok else None

    def is_path_like(self, inst):
        return bool(getattr(inst, 'CONSUME_MULTIPLE_SEGMENTS', False))

    def convert(self, conv, arg_key, arg):
        return self.convert_key(self.conv_key_of_template(conv), arg_key, arg, self.conv_key_of_template.instance(conv))

    def consumes_rest(self, conv):
        return conv[0] == 'path'


def _grp_key(val, regex_text, level, name):
    if isinstance(val, ConvVal) and val.key[0] == 'group-of-literal':
        return ('grp-lit',) + val.key[1:]
    return ('grp', regex_text, level, name)


def _arg_key(arg, path):
    if isinstance(arg, _Rest):
        return ('frag', arg.start)
    if isinstance(arg, ConvVal) and arg.key[0] == 'group':
        return ('grp',) + arg.key[1:]
    if isinstance(arg, ConvVal) and arg.key[0] == 'group-of-literal':
        return ('grp-lit',) + arg.key[1:]
    for k, s in path.segs.items():
        if arg is s:
            return ('seg', k)
    from pyvc.core import Unreached

    raise Unreached('converter argument of unknown origin')


# ---------------------------------------------------------------------------
# programs: run the real router on a history


class _Res:
    def on_get(self, req, resp, **kw):
        pass


def conv_key(inst):
    """Identity of a converter for the uninterpreted convert(): its class and configuration (slots and/or __dict__)."""
    names = []
    for k in type(inst).__mro__:
        sl = k.__dict__.get('__slots__', ())
        names.extend([sl] if isinstance(sl, str) else list(sl))
    names.extend(getattr(inst, '__dict__', {}).keys())
    return (type(inst).__name__, tuple(sorted((n, repr(getattr(inst, n, None))) for n in set(names))))


def run_history(history, compile_flags=None, lookups=None):
    """Execute `history` on a fresh real CompiledRouter; return the program description."""
    from falcon.routing import CompiledRouter
    from falcon.routing.compiled import UnacceptableRouteError

    r = CompiledRouter()
    accepted, rejected, errors = [], [], []
    for i, t in enumerate(history):
        try:
            kw = {'compile': True} if compile_flags and compile_flags[i] else {}
            r.add_route(t, _Res(), **kw)
            # re-registering a template replaces the resource of its existing node: the node keeps its place among its siblings
            if t not in accepted:
                accepted.append(t)
        except (UnacceptableRouteError, ValueError):
            rejected.append(t)
        if lookups and lookups[i]:
            try:
                r.find('/' + 'x')
            except Exception as e:  # an internal error of a lookup
                errors.append('lookup after %r: %s: %s' % (t, type(e).__name__, e))
    try:
        src = r.finder_src
    except Exception as e:
        return {'history': history, 'accepted': accepted, 'rejected': rejected, 'error': 'compile: %s: %s' % (type(e).__name__, e), 'errors': errors}
    # pattern object -> raw segment of the node owning it (data of the real tree, not its logic)
    # raw segment -> text of the regular expression of the node owning it (data of the real tree, not its logic);
    # two nodes with the same expression text match the same strings
    regex_of = {}

    def walk(nodes):
        for n in nodes:
            if n.var_pattern is not None:
                regex_of[n.raw_segment] = n.var_pattern.pattern
            walk(n.children)

    walk(r._roots)
    return {
        'history': history, 'accepted': accepted, 'rejected': rejected, 'src': src, 'errors': errors,
        'patterns': [p.pattern for p in r._patterns],
        'regex_of': regex_of,
        'pattern_groups': [sorted(p.groupindex) for p in r._patterns],
        'converters': [conv_key(c) for c in r._converters],
        'converter_objs': list(r._converters),
        'returns': [n.uri_template for n in r._return_values],
        'converter_map': r._converter_map,
        'router': r,
    }


# segment shapes; X/Y/E are replaced by level-specific field names (xN, yN, eN) most of the time so that templates rarely
# fail the duplicate-field check, and by fixed names sometimes so that conflicts / duplicates are produced too
SEGMENTS = ['a', 'b', 'a', 'b', '{X}', '{X}', '{Y}', '{X:int}', '{X:int(2)}', '{X:int(min=1, max=9)}', '{X:uuid}', '{X}-{Y}', 'a{X}', '{X}.{E}', '{X:int}-{Y}',
            '{X:path}', '{X:path}']


def _segment(rnd, level):
    shape = rnd.choice(SEGMENTS)
    suffix = str(level) if rnd.random() < 0.85 else ''
    return shape.replace('X', 'x' + suffix).replace('Y', 'y' + suffix).replace('E', 'e' + suffix)


def _family_histories():
    """Systematic families built around backtracking: a literal next to a variable sibling that also accepts the
    literal's text, with every small shape of sub-level below the literal and a different continuation below the variable."""
    out = []
    var_siblings = ['{u}', '{u:int}', '{u}-{w}', 'm{u}', '{u:uuid}']
    below_literal = [['p'], ['p', 's'], ['p', '{q}'], ['p', 's', 't'], ['{q:int}', 'p'], ['p/x', 's/y'], ['p/x', 'p/y']]
    below_var = ['a', 'a/b', '{z}', '{z:int}/c', '']
    for vs in var_siblings:
        for bl in below_literal:
            for bv in below_var:
                h = ['/r/me/' + x for x in bl] + ['/r/' + vs + ('/' + bv if bv else '')]
                out.append(h)
                out.append(list(reversed(h)))
    # the same one level deeper / at the root, and with a path converter as the fallback
    for bl in below_literal[:4]:
        out.append(['/me/' + x for x in bl] + ['/{u}/a'])
        out.append(['/k/r/me/' + x for x in bl] + ['/k/r/{u}/a', '/k/{v}/z'])
        out.append(['/r/me/' + x for x in bl] + ['/r/{rest:path}'])
    return out


def gen_histories(tier, seed):
    rnd = random.Random(seed)
    depth = 3 if tier != 'thorough' else 4
    n_hist = 420 if tier != 'thorough' else 2500
    max_t = 5 if tier != 'thorough' else 6
    hist = []
    # a fixed core that must always be present (covers each segment kind, backtracking, rejected adds)
    core = [
        ['/a', '/a/{x}', '/a/b', '/{y}-{z}/c', '/p/{rest:path}'],
        ['/{x}', '/b/{p:path}/c'],
        ['/a/{x}', '/a/{y}/c'],
        ['/a/{x:int}/b', '/a/{x}/c', '/a/b/c'],
        ['/{x}-{y}/b', '/a{x}/b', '/{x}/c'],
        ['/a/{x:int}-{y}', '/a/{z}'],
        ['/m/q/{p:path}/c', '/{x}'],
        ['/a/b', '/a/b', '/a/{x:int(2)}', '/a/{x:int(2)}/c'],
        ['/x/{p:path}', '/x/{x}-{p:path}', '/x/b'],
        ['/{x}/{y}', '/a/{y}', '/a/b', '/{x}/b'],
        ['/users/me/profile', '/users/me/settings', '/users/{uid}/avatar', '/users/{uid}'],
    ]
    hist.extend(core)
    hist.extend(_family_histories())
    while len(hist) < n_hist + len(core):
        k = rnd.randint(2, max_t)
        h = []
        for _ in range(k):
            d = rnd.randint(1, depth)
            segs = []
            if h and rnd.random() < 0.65:
                # share a prefix with a template already in the history: this is what creates sibling levels
                base = rnd.choice(h).lstrip('/').split('/')
                keep = rnd.randint(1, len(base))
                segs = base[:keep]
            while len(segs) < max(d, len(segs) + (1 if segs and rnd.random() < 0.8 else 0)):
                segs.append(_segment(rnd, len(segs)))
                if len(segs) >= depth:
                    break
            h.append('/' + '/'.join(segs))
        hist.append(h)
    return hist


def programs(tier, seed):
    seen = {}
    out = []
    for h in gen_histories(tier, seed):
        n = len(h)
        for flags in ([None] if tier != 'thorough' else [None, [True] * n]):
            for lk in ([None, [True] * n]):
                p = run_history(h, flags, lk)
                key = (tuple(p['accepted']), p.get('src'), p.get('error'), tuple(p['errors']))
                if key in seen:
                    seen[key]['count'] += 1
                    continue
                p['count'] = 1
                seen[key] = p
                out.append(p)
    return out


# ---------------------------------------------------------------------------
# the per-program harness


def _conv_key_from_template(converter_map):
    cache = {}
    insts = {}

    def f(conv):
        cname, argstr = conv
        if conv not in cache:
            klass = converter_map[cname]
            inst = klass() if argstr is None else eval('%s(%s)' % (klass.__name__, argstr), {klass.__name__: klass})
            cache[conv] = conv_key(inst)
            insts[conv] = inst
        return cache[conv]

    def instance(conv):
        f(conv)
        return insts[conv]

    f.instance = instance
    return f


def check_program(v, prog):
    accepted = prog['accepted']
    label = ' ; '.join(prog['history'])
    if prog.get('error') or prog['errors']:
        v.check('lookups-never-fail-with-an-internal-error', False, history=label, detail=prog.get('error') or prog['errors'][0])
        return
    roots = build_trie(accepted)
    maxdepth = max([len(t.lstrip('/').split('/')) for t in accepted] + [1])
    path = SymPath(v, maxdepth + 1)
    env = Env(v, _conv_key_from_template(prog['converter_map']), prog['regex_of'])
    env.literals = sorted({seg for t in accepted for seg in t.lstrip('/').split('/') if parse_segment(seg)[0] == 'lit'})

    @stubclass
    class Pattern:
        def __init__(self_, i):
            self_.i = i

        def match(self_, seg):
            lvl = [k for k, s in path.segs.items() if s is seg]
            groups = env.match(prog['patterns'][self_.i], lvl[0], seg, prog['pattern_groups'][self_.i])
            return None if groups is None else _Match(groups)

    @stubclass
    class _Match:
        def __init__(self_, groups):
            self_.groups = groups

        def groupdict(self_):
            return dict(self_.groups)

    @stubclass
    class Conv:
        def __init__(self_, j):
            self_.j = j

        def convert(self_, arg):
            return env.convert_key(prog['converters'][self_.j], _arg_key(arg, path), arg, prog['converter_objs'][self_.j])

    @stubclass
    class Ret:
        def __init__(self_, t):
            self_.template = t

    fn = ast.parse(prog['src']).body[0]
    clo = Closure(fn, _EmptyModule, 'find', None, None, '<generated finder>')
    params = {}
    rets = [Ret(t) for t in prog['returns']]
    out = v.interp.run(clo, (path, rets, [Pattern(i) for i in range(len(prog['patterns']))], [Conv(j) for j in range(len(prog['converters']))], params), {})
    v.check('lookups-never-fail-with-an-internal-error', out.exc is None, history=label)
    if out.exc is not None:
        return
    got = None if out.value is None else (out.value.template, params)
    want = oracle_find(roots, path, env)
    same = (got is None and want is None) or (got is not None and want is not None and got[0] == want[0] and _same_params(got[1], want[1]))
    v.check('lookup-equals-depth-first-walk-of-accepted-templates', same, history=label, got=repr(got), want=repr(want))
    if got is None:
        v.check('no-params-leak-from-abandoned-branches', len(params) == 0, history=label)


def _same_params(a, b):
    if set(a) != set(b):
        return False
    for k in a:
        x, y = a[k], b[k]
        if x is y:
            continue
        if isinstance(x, ConvVal) or isinstance(y, ConvVal):
            if not (isinstance(x, ConvVal) and isinstance(y, ConvVal) and x == y):
                return False
            continue
        return False
    return True


class _EmptyModule:
    __dict__ = {}
    __package__ = None
    __name__ = '<generated finder>'


_TIER = os.environ.get('VERIF_TIER', 'quick')
_SEED = int(os.environ.get('VERIF_SEED', '0') or 0)
_PROGS = None


def _programs():
    global _PROGS
    if _PROGS is None:
        _PROGS = programs('thorough' if _TIER == 'thorough' else 'quick', _SEED)
    return _PROGS


class NativeEnv:
    """The same interface as Env, decided by the real re module and the real converter classes (concrete replay)."""

    def __init__(self, prog):
        self.regex_of = prog['regex_of']
        self.cmap = prog['converter_map']

    def truth(self, c):
        return bool(c)

    def match(self, regex_text, level, seg, names):
        m = re.match(regex_text, seg)
        return None if m is None else m.groupdict()

    def convert(self, conv, arg_key, arg):
        cname, argstr = conv
        klass = self.cmap[cname]
        inst = klass() if argstr is None else eval('%s(%s)' % (klass.__name__, argstr), {klass.__name__: klass})
        return inst.convert(arg)

    def consumes_rest(self, conv):
        return conv[0] == 'path'


class NativePath:
    def __init__(self, segs):
        self.segs_list = segs
        self.length = len(segs)

    def seg(self, k):
        return self.segs_list[k]

    def rest(self, k):
        return self.segs_list[k:]


def concrete_search(prog, limit=40000):
    """Replay on the real code: look for a concrete request path on which the real router and the oracle disagree."""
    if prog.get('error') or prog['errors']:
        return {'internal_error': prog.get('error') or prog['errors'][0]}
    router = prog['router']
    roots = build_trie(prog['accepted'])
    lits = sorted({seg for t in prog['accepted'] for seg in t.lstrip('/').split('/') if parse_segment(seg)[0] == 'lit'})
    reps = lits + ['7', '12', '5', 'x', 'x-y', '7-y', 'a7', 'ax', 'p.q', '7.q', '', '12345678-1234-5678-1234-567812345678']
    maxdepth = max([len(t.lstrip('/').split('/')) for t in prog['accepted']] + [1]) + 1
    n = 0
    env = NativeEnv(prog)
    for depth in range(1, maxdepth + 1):
        for segs in itertools.product(reps, repeat=depth):
            n += 1
            if n > limit:
                return None
            uri = '/' + '/'.join(segs)
            try:
                got = router.find(uri)
            except Exception as e:
                return {'uri': uri, 'internal_error': '%s: %s' % (type(e).__name__, e)}
            want = oracle_find(roots, NativePath(uri.lstrip('/').split('/')), env)
            g = None if got is None else (got[3], got[2])
            if (g is None) != (want is None) or (g is not None and (g[0] != want[0] or g[1] != want[1])):
                return {'uri': uri, 'router': repr(g), 'oracle': repr(want)}
    return None


def _make(group):
    def h(v):
        progs = _programs()
        mine = [p for i, p in enumerate(progs) if i % N_GROUPS == group]
        if not mine:
            v.check('group-empty', True)
            return
        k = v.choose(len(mine), 'program')
        if v.concrete:
            bad = concrete_search(mine[k])
            v.ctx.trace.append('history=%r accepted=%r witness=%r' % (mine[k]['history'], mine[k]['accepted'], bad))
            if bad is not None and 'internal_error' in bad:
                v.check('lookups-never-fail-with-an-internal-error', False, witness=bad)
            v.check('lookup-equals-depth-first-walk-of-accepted-templates', bad is None or 'internal_error' in bad, witness=bad)
            return
        check_program(v, mine[k])

    return h


N_GROUPS = 16
for _g in range(N_GROUPS):
    harness(PROP, RM + ':CompiledRouter._compile', name='generated_finder_vs_dfs_oracle[group %d/%d]' % (_g, N_GROUPS), max_paths=400000)(_make(_g))


# ---------------------------------------------------------------------------
# unbounded function contracts


# which templates are accepted: the documented conflict table of two sibling segments (comment block of conflicts_with and the routing docs):
#   simple vs simple -> conflict; complex vs complex -> conflict iff they have the same shape once every field is replaced by one symbol;
#   every other combination (literal on either side, simple vs complex in either order) -> no conflict.
_CONFLICT_SEGMENTS = [
    ('lit', 'all'), ('lit', 'v1.json'),
    ('simple', '{name}'), ('simple', '{id:int}'), ('simple', '{rest:path}'),
    ('complex', '{stem}.json'), ('complex', 'v{n}'), ('complex', '{id:int}.gif'),            # ONE field plus literal text is complex too
    ('complex', '{a}.{b}'), ('complex', '{x}.{y}'), ('complex', '{a}-{b}'), ('complex', '{a}.detail.{b}'), ('complex', '{other}.json'),
]


def _shape(seg):
    return re.sub(r'{[^}]*}', '\0', seg)


def _documented_conflict(a, b):
    (ka, sa), (kb, sb) = a, b
    if ka == 'simple' and kb == 'simple':
        return True
    if ka == 'complex' and kb == 'complex':
        return _shape(sa) == _shape(sb)
    return False


@harness(PROP, RM + ':CompiledRouterNode.conflicts_with', name='conflict_table')
def conflict_table(v):
    """A template is rejected exactly when one of its segments conflicts with an existing sibling: the table decides which route sets exist at all
    (a legal template that is rejected, or a conflicting one that is accepted, changes every later lookup)."""
    if v.concrete:
        return
    n = len(_CONFLICT_SEGMENTS)
    i, j = v.choose(n, 'existing-sibling'), v.choose(n, 'new-segment')
    a, b = _CONFLICT_SEGMENTS[i], _CONFLICT_SEGMENTS[j]
    node_cls = v.real(RM + ':CompiledRouterNode')
    node = node_cls(a[1])   # the existing node: built by the real (native) constructor; the method under contract runs from source
    if node.matches(b[1]):
        v.cover('same-segment')
        return            # an identical segment is the same node, not a sibling (precondition of conflicts_with)
    out = v.call(node, b[1])
    v.check('conflict-decision-follows-the-documented-table', out.exc is None and out.value is _documented_conflict(a, b),
            existing=a[1], new=b[1], want=_documented_conflict(a, b))
    v.cover('decided')


@harness(PROP, RM + ':CompiledRouter.find')
def router_find(v):
    """find(): fresh params per call; None iff _find returns None; else (resource, method_map or {}, params, uri_template)."""
    uri = v.str('uri')
    calls = []
    node_kind = v.choose(3, 'result')  # 0: no match, 1: node with a method map, 2: node with method_map None

    class Node:
        resource = object()
        method_map = {'GET': object()} if node_kind == 1 else None
        uri_template = '/t'

    node = Node()

    @stubclass
    class Find:
        def __call__(self_, path, rv, pats, convs, params):
            calls.append((path, rv, pats, convs, params))
            params['field'] = 'value'
            return None if node_kind == 0 else node

    rv, pats, convs = [object()], [object()], [object()]
    router = v.obj(RM + ':CompiledRouter', _find=Find(), _return_values=rv, _patterns=pats, _converters=convs)
    if v.concrete:
        return

    def split_model(I, s, sep):
        return ['<segments of>', s]

    out1 = _call_find(v, router, uri)
    out2 = _call_find(v, router, uri)
    v.check('no-exception', out1.exc is None and out2.exc is None)
    if out1.exc is not None or out2.exc is not None:
        return
    v.check('finder-gets-the-current-side-tables', len(calls) == 2 and all(c[1] is rv and c[2] is pats and c[3] is convs for c in calls))
    v.check('params-dict-is-fresh-per-call', calls[0][4] is not calls[1][4])
    if node_kind == 0:
        v.check('none-iff-no-route', out1.value is None)
    else:
        res, mm, params, tmpl = out1.value
        v.check('result-is-the-matched-node', res is node.resource and tmpl == '/t' and params is calls[0][4])
        v.check('method-map-or-empty-dict', (mm is node.method_map) if node_kind == 1 else (mm == {}))


def _call_find(v, router, uri):
    # uri.lstrip('/').split('/') on a symbolic string: the segment list is opaque here (SymPath models it in the per-program check)
    class U:
        __pyvc_symbolic__ = True
        __pyvc_stub__ = True

        def lstrip(self, ch):
            return self

        def split(self, sep):
            return ['seg']

    return v.call(router, U())


IC = 'falcon.routing.converters:IntConverter'


@harness(PROP, IC + '.convert', setup=lambda reg, ex: _int_setup(reg), inline=['falcon.routing.converters:_validate_min_max_value'])
def int_converter(v):
    """None iff wrong digit count, surrounding whitespace, not an integer, < min or > max; else the integer."""
    value = v.str('value')
    nd = v.int('num_digits', 1) if v.choose(2, 'num_digits?') else None
    mn = v.int('min') if v.choose(2, 'min?') else None
    mx = v.int('max') if v.choose(2, 'max?') else None
    c = v.obj(IC, _num_digits=nd, _min=mn, _max=mx)
    if v.concrete:
        return
    out = v.call(c, value)
    v.check('never-raises', out.exc is None)
    if out.exc is not None:
        return
    parsed = v.ctx.ghost.get('int_parse')  # (ok, number) decided by the int() model for this value
    bad_digits = nd is not None and Len(value) != nd
    ws = Or(value.strip() != value)
    if out.value is None:
        reasons = [bad_digits, ws]
        if parsed is not None:
            reasons.append(Not(parsed[0]))
            if parsed[0] is not False:
                if mn is not None:
                    reasons.append(parsed[1] < mn)
                if mx is not None:
                    reasons.append(parsed[1] > mx)
        v.check('veto-only-for-a-documented-reason', Or(*reasons))
    else:
        v.check('accepted-value-is-the-parsed-integer-within-bounds',
                And(Not(bad_digits), Not(ws), parsed is not None and parsed[0], out.value == parsed[1],
                    True if mn is None else out.value >= mn, True if mx is None else out.value <= mx))
    v.cover('converted')


def _int_setup(reg):
    def int_parser(I, s, *rest):
        ctx = I.ctx
        ok = ctx.choose(2, 'int()-accepts?')
        if not ok:
            ctx.ghost['int_parse'] = (False, None)
            ctx.raise_py(ValueError, 'invalid literal for int()')
        n = ctx.fresh_int('parsed')
        ctx.ghost['int_parse'] = (True, n)
        return n

    reg.int_parser = int_parser


ASSUMPTIONS = [
    're pattern matching and converter.convert are deterministic functions of their argument (uninterpreted, memoised per pattern/converter and argument)',
    'a request path is uri.lstrip("/").split("/"): at least one segment, no segment contains "/"',
    'int(str) either raises ValueError or returns an integer (uninterpreted per string)',
]
NOT_DECIDED = [
    'route sets (programs) are enumerated to a bound: quick = 10 fixed + ~250 seeded random histories of <= 3 templates of depth <= 3 over 13 segment shapes, '
    'each with and without interleaved lookups; thorough = ~1500 histories of <= 4 templates, also with compile=True; request paths are NOT bounded',
    'the generator itself (_generate_ast) is not proved correct for all trees -- that is compiler correctness by induction, outside this technique here',
    'conflicts_with: the documented table is checked on 13 representative segments (all pairs), not for arbitrary segment strings; the sort key only through the per-program check',
]
TRUSTED = ['oracle_find / build_trie / parse_segment (independent 90-line specification) and the Env of uninterpreted matching in contracts/C01_router.py']


_CP = 'falcon/routing/compiled.py'
KILLS = [
    # "has one field" confused with "is not complex": a legal single-field-plus-text segment is rejected next to a simple field
    (_CP, "                return other.is_var and not other.is_complex\n", "                return other.num_fields == 1\n", 'conflicts_with#conflict-decision-follows-the-documented-table'),
    # two complex siblings of the same shape accepted
    (_CP, "                if other.is_complex:\n                    return _FIELD_PATTERN.sub(", "                if other.is_complex and False:\n                    return _FIELD_PATTERN.sub(", 'conflicts_with#conflict-decision-follows-the-documented-table'),
    # literal < multi-field < single-field ordering lost: a single-field node masks a multi-field sibling
    (_CP, "nodes, key=lambda node: node.is_var + (node.is_var and not node.is_complex)", "nodes, key=lambda node: node.is_var + (node.is_var and node.is_complex)",
     'lookup-equals-depth-first-walk-of-accepted-templates'),
    # fast-return pruning although a variable sibling exists: no backtracking out of a literal branch
    (_CP, "                fast_return = not found_var_nodes\n", "                fast_return = True\n", 'lookup-equals-depth-first-walk-of-accepted-templates'),
    # the path-length test of a route endpoint dropped: a longer path matches a shorter template
    (_CP, "                    cx_path_len = _CxIfPathLength('==', level + 1)\n", "                    cx_path_len = _CxIfPathLength('>=', level + 1)\n",
     'lookup-equals-depth-first-walk-of-accepted-templates'),
    # params of an abandoned branch are not dropped when the next sibling is tried
    (_CP, "        for node in nodes:\n            params_stack = original_params_stack.copy()\n", "        for node in nodes:\n", 'CompiledRouter._compile#'),
    # rollback of a rejected template removed: half-inserted nodes break the next compilation
    (_CP, "            if created:\n                siblings, first_new_node = created[0]\n                siblings.remove(first_new_node)\n            raise\n", "            raise\n",
     'lookups-never-fail-with-an-internal-error'),
    # converter veto ignored
    (_CP, "class _CxIfConverterField(_CxParent):", "class _CxIfConverterField(_CxParent):\n    pass\n\n\nclass _Unused(_CxParent):", 'CompiledRouter._compile#') if False else
    (_CP, "        params: Dict[str, Any] = {}\n        node: Optional[CompiledRouterNode] = self._find(", "        params: Dict[str, Any] = self.__dict__.setdefault('_p', {})\n        node: Optional[CompiledRouterNode] = self._find(",
     'CompiledRouter.find#params-dict-is-fresh-per-call'),
]
HARMLESS = [
    (_CP, "        found_simple = False\n", "        found_simple = False\n        _unused_marker = None\n"),
]
