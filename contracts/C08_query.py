"""C08 -- query strings parse to one well-defined mapping; typed getters never misreport.

Decided here, on the current source of
    falcon/request.py       Request.get_param, get_param_as_int/_float/_bool/_uuid/_list/_datetime/_date/_json,
                            has_param, params, __init__ (params wiring), _parse_form_urlencoded (options wiring)
    falcon/asgi/request.py  Request.get_param (delegation), Request.__init__ (params wiring)
    falcon/util/uri.py      parse_query_string (pure Python): 1..3 '&'-separated symbolic fields, all four option settings
    falcon/util/misc.py     to_query_str (structure of the rendered string)

Getters.  `_params` maps the name under test to: nothing / a symbolic str / a list of 1..3 symbolic strs /
the EMPTY list (the parser produces it for `a=,` with csv on and blanks dropped).  Conversions of symbolic
strings (int, float, UUID, strptime, the JSON handler, a user transform) are opaque: each is a total case
split "accepts -> value tied to the string by an uninterpreted function / rejects -> ValueError", plus one
canonical literal per conversion on which the model is exact (so that counter-models replay on the real code).

Parser.  The query string is '&'.join(f1..fn) for n in 1..3 fields, each name | name '=' value, a value being
','.join of 1..3 elements; names / values / elements are arbitrary symbolic strings free of the separators
above them.  `str.split` / `str.partition` / `in` on exactly these joined strings are answered from the
construction (see TRUSTED), `decode` is the uninterpreted C10 function.  The real loop body then runs on the
symbolic pieces and the resulting dict is compared, as a mapping, with a reference fold written from the
statement.

bounded(): a labelled bounded stand-in (never counted as proved) -- exhaustive short query strings against an
independent reference parser, and the to_query_str round trip.
"""
from __future__ import annotations

import z3

from pyvc.core import And, ExcVal, cur, Iff, Implies, Ite, Len, Not, Or, PyRaise, SBool, SInt, SStr, Sym, Unreached, mk_bool, mk_int, mk_str, _s
from pyvc.harness import harness, stubclass

PROP = 'C08'
REQ = 'falcon.request:Request'
AREQ = 'falcon.asgi.request:Request'
URI = 'falcon.util.uri'
NAME = 'p'

# the two literal sets of the documentation of get_param_as_bool
TRUE_LITERALS = ('true', 'True', 't', 'yes', 'y', '1', 'on')
FALSE_LITERALS = ('false', 'False', 'f', 'no', 'n', '0', 'off')


# ---------------------------------------------------------------------------
# small helpers that work in both modes (symbolic exploration / concrete replay)


@stubclass
class Doc:
    """An opaque object (a caller's default, a deserialised document, ...)."""

    def __init__(self, what):
        self.what = what

    def __repr__(self):
        return '<Doc %s>' % self.what


def sym(x):
    return isinstance(x, Sym)


def str_eq(a, b):
    if isinstance(a, (str, SStr)) and isinstance(b, (str, SStr)):
        return a == b
    return False


def list_eq(a, b, eq=str_eq):
    """Two python lists (of possibly symbolic elements) are equal element by element."""
    if not isinstance(a, list) or not isinstance(b, list) or len(a) != len(b):
        return False
    return And(*[eq(x, y) for x, y in zip(a, b)])


def exc_arg(exc, i):
    if exc is None or len(exc.args) <= i:
        return None
    return exc.args[i]


def throw(v, cls, *args):
    """Raise an exception of class `cls` into the subject (both modes)."""
    v.ctx.raise_py(cls, *args)


class patched:
    """Rebind a module-level name of the (overlay) module while the subject runs: an opaque dependency."""

    def __init__(self, v, module, name, value):
        self.mod = v.real(module)
        self.name = name
        self.value = value

    def __enter__(self):
        self.saved = self.mod.__dict__[self.name]
        setattr(self.mod, self.name, self.value)
        return self.value

    def __exit__(self, *a):
        setattr(self.mod, self.name, self.saved)
        return False


# ---------------------------------------------------------------------------
# opaque conversions

_S, _B, _I, _R = z3.StringSort(), z3.BoolSort(), z3.IntSort(), z3.RealSort()
INT_OK = z3.Function('py.int.accepts', _S, _B)
INT_VAL = z3.Function('py.int.value', _S, _I)
FLOAT_OK = z3.Function('py.float.accepts', _S, _B)
FLOAT_NAN = z3.Function('py.float.isnan', _S, _B)
FLOAT_VAL = z3.Function('py.float.value', _S, _R)
CONV_OK = {k: z3.Function('py.%s.accepts' % k, _S, _B) for k in ('uuid', 'datetime', 'date')}

_DIGIT = z3.Range(z3.StringVal('0'), z3.StringVal('9'))
_DIGITS = z3.Plus(_DIGIT)


def _canon_int(t):
    """ASCII decimal literal with an optional '-' of at most 15 characters: int()/float() are exact on it (no digit limit, < 2**53)."""
    return z3.And(z3.InRe(t, z3.Concat(z3.Option(z3.Re('-')), _DIGITS)), z3.Length(t) <= 15)


def _canon_int_val(t):
    neg = z3.PrefixOf(z3.StringVal('-'), t)
    return z3.If(neg, -z3.StrToInt(z3.SubString(t, 1, z3.Length(t))), z3.StrToInt(t))


def int_accepts(s):
    if not sym(s):
        try:
            int(s)
            return True
        except ValueError:
            return False
    return mk_bool(z3.Or(_canon_int(s.t), INT_OK(s.t)))


def int_value(s):
    if not sym(s):
        return int(s)
    return mk_int(z3.If(_canon_int(s.t), _canon_int_val(s.t), INT_VAL(s.t)))


def m_int_of_str(I, x, *rest):
    """int(str): accepts -> the integer value (a function of the string), rejects -> ValueError."""
    if rest:
        raise Unreached('int(str, base) on a symbolic string')
    ctx = I.ctx
    if ctx.branch(_canon_int(x.t), 'int:canonical-decimal'):
        return mk_int(_canon_int_val(x.t))
    if ctx.branch(INT_OK(x.t), 'int:accepts'):
        return mk_int(INT_VAL(x.t))
    raise PyRaise(ExcVal(ValueError, ('invalid literal for int() with base 10',)))


class SFloat(Sym):
    """A symbolic float: NaN, or a point of the extended real line (only order and equality are used)."""

    __slots__ = ('nan',)

    def __init__(self, t, nan=None):
        self.t = t
        self.nan = z3.BoolVal(False) if nan is None else nan

    __hash__ = Sym.__hash__

    @staticmethod
    def lift(o):
        if isinstance(o, SFloat):
            return o
        if isinstance(o, SInt):
            return SFloat(z3.ToReal(o.t))
        if isinstance(o, bool):
            return SFloat(z3.RealVal(int(o)))
        if isinstance(o, int):
            return SFloat(z3.RealVal(o))
        if isinstance(o, float):
            if o != o:
                return SFloat(z3.RealVal(0), z3.BoolVal(True))
            if o in (float('inf'), float('-inf')):
                raise Unreached('infinite float constant')
            from fractions import Fraction

            fr = Fraction(o)
            return SFloat(z3.RealVal(fr.numerator) / z3.RealVal(fr.denominator))
        return None

    def _cmp(self, o, f):
        b = SFloat.lift(o)
        if b is None:
            return NotImplemented
        return mk_bool(z3.And(z3.Not(self.nan), z3.Not(b.nan), f(self.t, b.t)))

    def __lt__(self, o):
        return self._cmp(o, lambda a, b: a < b)

    def __le__(self, o):
        return self._cmp(o, lambda a, b: a <= b)

    def __gt__(self, o):
        return self._cmp(o, lambda a, b: a > b)

    def __ge__(self, o):
        return self._cmp(o, lambda a, b: a >= b)

    def __eq__(self, o):  # IEEE: NaN equals nothing
        r = self._cmp(o, lambda a, b: a == b)
        return False if r is NotImplemented else r

    def __ne__(self, o):
        return Not(self.__eq__(o))

    def __bool__(self):
        raise Unreached('truth value of a symbolic float')

    def __pyvc_isinstance__(self, cls):
        return cls in (float, object)

    def __pyvc_str__(self, I):
        return I.ctx.fresh_str('float_repr')


def _canon_float(t):
    return z3.Or(_canon_int(t), t == z3.StringVal('nan'))


def float_accepts(s):
    if not sym(s):
        try:
            float(s)
            return True
        except ValueError:
            return False
    return mk_bool(z3.Or(_canon_float(s.t), FLOAT_OK(s.t)))


def float_value(s):
    if not sym(s):
        return float(s)
    c = _canon_int(s.t)
    return SFloat(z3.If(c, z3.ToReal(_canon_int_val(s.t)), FLOAT_VAL(s.t)),
                  z3.If(c, z3.BoolVal(False), z3.If(s.t == z3.StringVal('nan'), z3.BoolVal(True), FLOAT_NAN(s.t))))


def m_float(I, x=0.0):
    """float(str): accepts -> a float (NaN and the infinities included), rejects -> ValueError."""
    if isinstance(x, SFloat):
        return x
    if isinstance(x, SInt):
        return SFloat.lift(x)
    if not isinstance(x, SStr):
        try:
            return float(x)
        except (ValueError, TypeError) as e:
            raise PyRaise(ExcVal(type(e), e.args, real=e))
    ctx = I.ctx
    if ctx.branch(_canon_int(x.t), 'float:canonical-decimal'):
        return SFloat(z3.ToReal(_canon_int_val(x.t)))
    if ctx.branch(x.t == z3.StringVal('nan'), 'float:nan-literal'):
        return SFloat(z3.RealVal(0), z3.BoolVal(True))
    if ctx.branch(FLOAT_OK(x.t), 'float:accepts'):
        return SFloat(FLOAT_VAL(x.t), FLOAT_NAN(x.t))
    raise PyRaise(ExcVal(ValueError, ('could not convert string to float',)))


def f_same(a, b):
    """Same float (NaN is the same as NaN here: 'the value the reference conversion gives')."""
    if sym(a) or sym(b):
        a, b = SFloat.lift(a), SFloat.lift(b)
        if a is None or b is None:
            return False
        return mk_bool(z3.Or(z3.And(a.nan, b.nan), z3.And(z3.Not(a.nan), z3.Not(b.nan), a.t == b.t)))
    if not isinstance(a, float) or not isinstance(b, float):
        return False
    return a == b or (a != a and b != b)


def f_isnan(a):
    if sym(a):
        return mk_bool(SFloat.lift(a).nan)
    return isinstance(a, float) and a != a


def f_le(a, b):
    """a <= b with IEEE semantics (false when either side is NaN)."""
    if sym(a) or sym(b):
        return SFloat.lift(a) <= SFloat.lift(b)
    return a <= b


def f_lt(a, b):
    if sym(a) or sym(b):
        return SFloat.lift(a) < SFloat.lift(b)
    return a < b


CANON = {
    'uuid': '12345678-1234-5678-1234-567812345678',
    'datetime': '2020-01-02T03:04:05+0000',
    'date': '2020-01-02',
}
FORMATS = {'datetime': '%Y-%m-%dT%H:%M:%S%z', 'date': '%Y-%m-%d'}


@stubclass
class Converted:
    """The object a library conversion returns for the string `src` (opaque: identified by kind + source string)."""

    def __init__(self, kind, src, fmt=None):
        self.kind = kind
        self.src = src
        self.fmt = fmt

    def date(self):  # datetime.date()
        return Converted(self.kind + '.date()', self.src, self.fmt)

    def __pyvc_truth__(self):
        return True  # uuid / datetime / date objects are always truthy

    def __repr__(self):
        return '<Converted %s of %r>' % (self.kind, self.src)


def reference_conversion(kind, s, fmt=None):
    """The reference conversion on a concrete string (replay mode)."""
    import datetime
    import uuid

    if kind == 'uuid':
        return uuid.UUID(s)
    if kind in ('datetime', 'date'):
        return datetime.datetime.strptime(s, fmt)
    if kind in ('datetime.date()', 'date.date()'):
        return datetime.datetime.strptime(s, fmt).date()
    raise KeyError(kind)


def is_conversion_of(val, kind, s, fmt=None):
    """`val` is what the reference conversion `kind` gives for the string s."""
    if isinstance(val, Converted):
        return And(val.kind == kind, val.fmt == fmt, str_eq(val.src, s))
    if sym(s) or isinstance(val, (Sym, Doc)) or val is None:
        return False
    try:
        return type(val) is type(reference_conversion(kind, s, fmt)) and val == reference_conversion(kind, s, fmt)
    except ValueError:
        return False


def conversion_accepts(kind, s, fmt=None):
    if not sym(s):
        try:
            reference_conversion(kind, s, fmt)
            return True
        except ValueError:
            return False
    return mk_bool(z3.Or(s.t == z3.StringVal(CANON[kind]), CONV_OK[kind](s.t)))


def _convert(I, kind, x, fmt=None):
    ctx = I.ctx
    if ctx.branch(x.t == z3.StringVal(CANON[kind]), kind + ':canonical-literal'):
        return Converted(kind, x, fmt)
    if ctx.branch(CONV_OK[kind](x.t), kind + ':accepts'):
        return Converted(kind, x, fmt)
    raise PyRaise(ExcVal(ValueError, ('%s: malformed value' % kind,)))


def m_uuid(I, x=None, *a, **k):
    """uuid.UUID(str): a UUID, or ValueError."""
    import uuid

    if a or k:
        raise Unreached('UUID() with more than the hex argument')
    if not isinstance(x, SStr):
        try:
            return uuid.UUID(x)
        except Exception as e:  # noqa: BLE001
            raise PyRaise(ExcVal(type(e), e.args, real=e))
    return _convert(I, 'uuid', x)


def m_strptime(I, x, fmt):
    """datetime.strptime(str, format): a datetime, or ValueError."""
    import datetime

    if not isinstance(x, SStr):
        try:
            return datetime.datetime.strptime(x, fmt)
        except Exception as e:  # noqa: BLE001
            raise PyRaise(ExcVal(type(e), e.args, real=e))
    kind = {v: k for k, v in FORMATS.items()}.get(fmt)
    if kind is None:
        raise Unreached('strptime with a format string the contract has no canonical literal for: %r' % (fmt,))
    return _convert(I, kind, x, fmt)


UTF8 = z3.Function('utf8.encode', _S, _S)


def _codec(ctx, direction, s, enc, errors):
    """str.encode('utf-8') of a surrogate-free str is total (ASSUMPTIONS); the bytes are a function of the text."""
    if direction == 'encode' and enc.lower().replace('_', '-') in ('utf-8', 'utf8') and errors == 'strict':
        return SStr(UTF8(s.t), 'bytes')
    raise Unreached('%s with codec %r has no model here' % (direction, enc))


@stubclass
class GhostBytesIO:
    def __init__(self, data=b''):
        self.data = data


def _getter_setup(reg, ex):
    import builtins
    import io
    import uuid

    reg.int_parser = m_int_of_str
    reg.add_model(builtins.float, m_float)
    reg.add_model(uuid.UUID, m_uuid)
    reg.add_model(__import__('falcon.request', fromlist=['strptime']).strptime, m_strptime)
    reg.add_model(io.BytesIO, lambda I, data=b'': GhostBytesIO(data))
    ex.codec_handler = _codec


# ---------------------------------------------------------------------------
# the request under test


class World:
    pass


@stubclass
class Store:
    """A dict-like `store` argument that records every write."""

    def __init__(self):
        self.writes = []

    def __setitem__(self, k, val):
        self.writes.append((k, val))

    def __pyvc_setitem__(self, k, val):
        self.writes.append((k, val))


def mk_world(v, with_default=True):
    """A request whose parameter NAME is absent / a str / a list of 1..3 strs / the empty list."""
    w = World()
    shape = v.choose(6, 'param-shape')
    w.shape = ['absent', 'str', 'list-1', 'list-2', 'list-3', 'empty-list'][shape]
    w.present = shape != 0
    if shape == 0:
        w.raw, w.values = None, None
    elif shape == 1:
        s = v.str('value')
        w.raw, w.values = s, [s]
    elif shape == 5:
        w.raw, w.values = [], []
    else:
        w.values = [v.str('value%d' % i) for i in range(shape - 1)]
        w.raw = list(w.values)
    w.empty = shape == 5
    w.last = w.values[-1] if w.values else None
    w.params = {'other': 'unrelated'}
    if w.present:
        w.params[NAME] = w.raw
    w.required = bool(v.choose(2, 'required'))
    w.store = Store() if v.choose(2, 'store?') else None
    w.default = Doc("caller's default") if (with_default and v.choose(2, 'default?')) else None
    return w


def common_kwargs(w):
    kw = {'required': w.required}
    if w.store is not None:
        kw['store'] = w.store
    if w.default is not None:
        kw['default'] = w.default
    return kw


def stored(w):
    return [] if w.store is None else w.store.writes


def store_untouched(w):
    return len(stored(w)) == 0


def store_holds(w, pred):
    """Exactly one write, store[NAME] = <the returned value>."""
    if w.store is None:
        return True
    ws = w.store.writes
    return len(ws) == 1 and ws[0][0] == NAME and pred(ws[0][1])


def classes(v):
    return v.real('falcon.errors:HTTPBadRequest'), v.real('falcon.errors:HTTPMissingParam'), v.real('falcon.errors:HTTPInvalidParam')


def check_escape_and_absent(v, w, out):
    """Clauses shared by every getter; returns True when the parameter is present with at least one value."""
    BadRequest, Missing, Invalid = classes(v)
    if w.empty:
        v.cover('empty-list')
    # the only exceptions that leave a getter are 400-class errors (HTTPMissingParam / HTTPInvalidParam); the parser-produced
    # EMPTY list is stated as its own clause so that a recorded finding about it cannot hide any other escape
    v.check('empty-list-escape-only-400-class' if w.empty else 'escape-only-400-class', out.exc is None or out.exc.isa(BadRequest))
    v.check('other-parameters-untouched', w.params.get('other') == 'unrelated' and len(w.params) == (2 if w.present else 1))
    if not w.present:
        if w.required:
            v.check('absent-and-required-raises-missing-param', out.exc is not None and out.exc.isa(Missing) and exc_arg(out.exc, 0) == NAME)
        else:
            v.check('absent-and-not-required-returns-default', out.exc is None and out.value is w.default)
        v.check('absent-leaves-store-untouched', store_untouched(w))
        v.cover('absent')
        return False
    if w.empty:
        return False
    return True


def invalid_param(v, out):
    _, _, Invalid = classes(v)
    return out.exc is not None and out.exc.isa(Invalid) and exc_arg(out.exc, 1) == NAME


def mk_request(v, w, **fields):
    return v.obj(REQ, _params=w.params, **fields)


# ---------------------------------------------------------------------------
# get_param / has_param / params


def _get_param(v):
    w = mk_world(v)
    req = mk_request(v, w)
    out = v.call(req, NAME, **common_kwargs(w))
    if not check_escape_and_absent(v, w, out):
        return
    v.check('returns-the-last-occurrence', out.exc is None and str_eq(out.value, w.last))
    v.check('store-holds-the-value-on-success', store_holds(w, lambda x: str_eq(x, w.last)))
    v.check('parameter-mapping-not-modified', w.params[NAME] is w.raw and (list_eq(w.raw, w.values) if isinstance(w.raw, list) else True))
    v.cover('present')


harness(PROP, REQ + '.get_param', name='get_param', setup=_getter_setup)(_get_param)


@harness(PROP, AREQ + '.get_param', name='asgi_get_param', setup=_getter_setup, inline=[REQ + '.get_param'])
def asgi_get_param(v):
    """The ASGI override only carries a docstring: same table."""
    w = mk_world(v)
    req = v.obj(AREQ, _params=w.params)
    out = v.call(req, NAME, **common_kwargs(w))
    if not check_escape_and_absent(v, w, out):
        return
    v.check('returns-the-last-occurrence', out.exc is None and str_eq(out.value, w.last))
    v.check('store-holds-the-value-on-success', store_holds(w, lambda x: str_eq(x, w.last)))
    v.cover('present')


@harness(PROP, REQ + '.has_param', name='has_param')
def has_param(v):
    w = mk_world(v, with_default=False)
    req = mk_request(v, w)
    out = v.call(req, NAME)
    v.check('no-exception', out.exc is None)
    v.check('true-iff-the-name-is-in-the-mapping', out.exc is None and out.value is w.present)
    out2 = v.call(req, 'nowhere')
    v.check('false-for-a-name-that-is-not-there', out2.exc is None and out2.value is False)


@harness(PROP, REQ + '.params', name='params_property')
def params_property(v):
    w = mk_world(v, with_default=False)
    req = mk_request(v, w)
    out = v.call(req)
    v.check('params-is-the-parsed-mapping', out.exc is None and out.value is w.params)


# ---------------------------------------------------------------------------
# int / float


def _bounds(v, as_float):
    mn = v.int('min_value') if v.choose(2, 'min?') else None
    mx = v.int('max_value') if v.choose(2, 'max?') else None

    def arg(x):
        if x is None or v.concrete or not as_float:
            return x
        return SFloat.lift(x)

    return mn, mx, arg(mn), arg(mx)


def _get_param_as_int(v):
    w = mk_world(v)
    mn, mx, a_mn, a_mx = _bounds(v, False)
    req = mk_request(v, w)
    out = v.call(req, NAME, min_value=a_mn, max_value=a_mx, **common_kwargs(w))
    if not check_escape_and_absent(v, w, out):
        return
    ok = int_accepts(w.last)
    if Not(ok):
        v.check('non-integer-raises-invalid-param', invalid_param(v, out))
        v.check('failure-leaves-store-untouched', store_untouched(w))
        v.cover('rejected')
        return
    val = int_value(w.last)
    below = False if mn is None else val < mn
    above = False if mx is None else mx < val
    if below:
        v.check('below-min-raises-invalid-param', invalid_param(v, out))
        v.check('failure-leaves-store-untouched', store_untouched(w))
        v.cover('below-min')
        return
    if above:
        v.check('above-max-raises-invalid-param', invalid_param(v, out))
        v.check('failure-leaves-store-untouched', store_untouched(w))
        v.cover('above-max')
        return
    v.check('returns-the-int-of-the-last-occurrence', out.exc is None and isinstance(out.value, (int, SInt)) and out.value == val)
    if out.exc is None:
        v.check('returned-value-within-min-max', And(True if mn is None else mn <= out.value, True if mx is None else out.value <= mx))
    v.check('store-holds-the-value-on-success', store_holds(w, lambda x: x == val))
    v.cover('converted')


def _get_param_as_float(v):
    w = mk_world(v)
    mn, mx, a_mn, a_mx = _bounds(v, True)
    req = mk_request(v, w)
    out = v.call(req, NAME, min_value=a_mn, max_value=a_mx, **common_kwargs(w))
    if not check_escape_and_absent(v, w, out):
        return
    ok = float_accepts(w.last)
    if Not(ok):
        v.check('non-float-raises-invalid-param', invalid_param(v, out))
        v.check('failure-leaves-store-untouched', store_untouched(w))
        v.cover('rejected')
        return
    val = float_value(w.last)
    # the documentation: "the value must be in the interval min_value <= value <= max_value to avoid triggering an error"
    # (so NaN, which is in no interval, is rejected as soon as a bound is given)
    below = False if mn is None else Not(f_le(mn, val))
    above = False if mx is None else Not(f_le(val, mx))
    if below:
        v.check('below-min-raises-invalid-param', invalid_param(v, out))
        v.check('failure-leaves-store-untouched', store_untouched(w))
        v.cover('below-min')
        return
    if above:
        v.check('above-max-raises-invalid-param', invalid_param(v, out))
        v.check('failure-leaves-store-untouched', store_untouched(w))
        v.cover('above-max')
        return
    if out.exc is None:
        within = And(True if mn is None else f_le(mn, out.value), True if mx is None else f_le(out.value, mx))
        v.check('returned-value-within-min-max', within)
    v.check('returns-the-float-of-the-last-occurrence', out.exc is None and f_same(out.value, val))
    v.check('store-holds-the-value-on-success', store_holds(w, lambda x: f_same(x, val)))
    v.cover('converted')


for _shape in range(6):
    harness(PROP, REQ + '.get_param_as_int', name='get_param_as_int[shape=%d]' % _shape, setup=_getter_setup, fix={'param-shape': _shape})(_get_param_as_int)
    harness(PROP, REQ + '.get_param_as_float', name='get_param_as_float[shape=%d]' % _shape, setup=_getter_setup, fix={'param-shape': _shape})(_get_param_as_float)


# ---------------------------------------------------------------------------
# bool


def _get_param_as_bool(v):
    w = mk_world(v)
    bat_given = v.choose(2, 'blank_as_true-given?')
    bat = v.bool('blank_as_true') if bat_given else True
    req = mk_request(v, w)
    kw = common_kwargs(w)
    if bat_given:
        kw['blank_as_true'] = bat
    out = v.call(req, NAME, **kw)
    if not check_escape_and_absent(v, w, out):
        return
    last = w.last
    is_bool = out.exc is None and isinstance(out.value, (bool, SBool))
    if Or(*[last == t for t in TRUE_LITERALS]):
        want = True
        v.check('true-literals-yield-True', is_bool and Iff(out.value, True))
        v.cover('true-literal')
    elif Or(*[last == t for t in FALSE_LITERALS]):
        want = False
        v.check('false-literals-yield-False', is_bool and Iff(out.value, False))
        v.cover('false-literal')
    elif Len(last) == 0:
        want = bat
        v.check('blank-value-yields-blank_as_true', is_bool and Iff(out.value, bat))
        v.cover('blank')
    else:
        v.check('unrecognised-value-raises-invalid-param', invalid_param(v, out))
        v.check('failure-leaves-store-untouched', store_untouched(w))
        v.cover('rejected')
        return
    v.check('store-holds-the-value-on-success', store_holds(w, lambda x: isinstance(x, (bool, SBool)) and Iff(x, want)))


harness(PROP, REQ + '.get_param_as_bool', name='get_param_as_bool', setup=_getter_setup)(_get_param_as_bool)


# ---------------------------------------------------------------------------
# uuid / datetime / date


def _conversion_getter(v, kind, call, result_kind=None, fmt=None):
    w = mk_world(v)
    req = mk_request(v, w)
    out = call(req, w)
    if not check_escape_and_absent(v, w, out):
        return
    if Not(conversion_accepts(kind, w.last, fmt)):
        v.check('malformed-value-raises-invalid-param', invalid_param(v, out))
        v.check('failure-leaves-store-untouched', store_untouched(w))
        v.cover('rejected')
        return
    rk = result_kind or kind
    v.check('returns-the-conversion-of-the-last-occurrence', out.exc is None and is_conversion_of(out.value, rk, w.last, fmt))
    v.check('store-holds-the-value-on-success', store_holds(w, lambda x: is_conversion_of(x, rk, w.last, fmt)))
    v.cover('converted')


@harness(PROP, REQ + '.get_param_as_uuid', name='get_param_as_uuid', setup=_getter_setup)
def get_param_as_uuid(v):
    _conversion_getter(v, 'uuid', lambda req, w: v.call(req, NAME, **common_kwargs(w)))


@harness(PROP, REQ + '.get_param_as_datetime', name='get_param_as_datetime', setup=_getter_setup, inline=[REQ + '.get_param'])
def get_param_as_datetime(v):
    explicit = v.choose(2, 'format-given?')
    fmt = FORMATS['datetime']

    def call(req, w):
        if explicit:
            return v.call(req, NAME, fmt, **common_kwargs(w))
        return v.call(req, NAME, **common_kwargs(w))

    _conversion_getter(v, 'datetime', call, fmt=fmt)


@harness(PROP, REQ + '.get_param_as_date', name='get_param_as_date', setup=_getter_setup, inline=[REQ + '.get_param', REQ + '.get_param_as_datetime'])
def get_param_as_date(v):
    explicit = v.choose(2, 'format-given?')
    fmt = FORMATS['date']

    def call(req, w):
        if explicit:
            return v.call(req, NAME, fmt, **common_kwargs(w))
        return v.call(req, NAME, **common_kwargs(w))

    _conversion_getter(v, 'date', call, result_kind='date.date()', fmt=fmt)


# ---------------------------------------------------------------------------
# json


@stubclass
class JsonHandler:
    """A JSON media handler (contract of C12): a document, or a 400-class media error."""

    def __init__(self, v, which):
        self.v = v
        self.which = which
        self.calls = []
        self.result = None
        self.returned = False

    def deserialize(self, stream, content_type, content_length):
        v = self.v
        self.calls.append((stream, content_type, content_length))
        k = v.choose(3, 'json-handler-outcome')
        if k == 0:
            self.returned = True
            self.result = Doc('deserialised JSON')
            return self.result
        throw(v, v.real('falcon.errors:MediaMalformedError' if k == 1 else 'falcon.errors:MediaNotFoundError'), 'JSON')


@stubclass
class MediaHandlers:
    def __init__(self, handler):
        self.handler = handler
        self.calls = []

    def _resolve(self, media_type, default, raise_not_found=True):
        self.calls.append((media_type, default, raise_not_found))
        return (self.handler, None, None)


@stubclass
class Options:
    def __init__(self, **kw):
        self.__dict__.update(kw)


@harness(PROP, REQ + '.get_param_as_json', name='get_param_as_json', setup=_getter_setup, inline=[REQ + '.get_param'])
def get_param_as_json(v):
    w = mk_world(v)
    configured = bool(v.choose(2, 'json-handler-configured?')) and not v.concrete
    custom = JsonHandler(v, 'configured')
    fallback = JsonHandler(v, 'default')
    registry = MediaHandlers(custom if configured else None)
    req = mk_request(v, w, options=Options(media_handlers=registry))
    if v.concrete:
        out = v.call(req, NAME, **common_kwargs(w))
    else:
        with patched(v, 'falcon.request', '_DEFAULT_JSON_HANDLER', fallback):
            out = v.call(req, NAME, **common_kwargs(w))
    if not check_escape_and_absent(v, w, out):
        v.check('absent-parameter-never-reaches-a-handler', len(custom.calls) + len(fallback.calls) == 0)
        return
    if v.concrete:
        import json

        try:
            want = json.loads(w.last)
        except ValueError:
            v.check('malformed-value-raises-invalid-param', invalid_param(v, out))
            v.check('failure-leaves-store-untouched', store_untouched(w))
            return
        if w.last == '':
            return
        v.check('returns-the-document-of-the-last-occurrence', out.exc is None and out.value == want)
        return
    used, idle = (custom, fallback) if configured else (fallback, custom)
    v.check('configured-json-handler-preferred-else-the-default-one', len(used.calls) == 1 and len(idle.calls) == 0)
    if len(used.calls) != 1:
        return
    stream, ct, cl = used.calls[0]
    v.check('handler-receives-the-utf8-bytes-of-the-last-occurrence',
            isinstance(stream, GhostBytesIO) and isinstance(stream.data, SStr) and mk_bool(stream.data.t == UTF8(_s(w.last))) and ct == 'application/json')
    if used.returned:
        v.check('returns-the-document-of-the-last-occurrence', out.exc is None and out.value is used.result)
        v.check('store-holds-the-value-on-success', store_holds(w, lambda x: x is used.result))
        v.cover('converted')
    else:
        v.check('malformed-value-raises-invalid-param', invalid_param(v, out))
        v.check('failure-leaves-store-untouched', store_untouched(w))
        v.cover('rejected')


# ---------------------------------------------------------------------------
# list


@stubclass
class Transform:
    """A user transform: for each element a value, or ValueError."""

    def __init__(self, v):
        self.v = v
        self.calls = []
        self.raised = False

    def __call__(self, x):
        v = self.v
        self.calls.append(x)
        if v.choose(2, 'transform-raises-ValueError'):
            self.raised = True
            throw(v, ValueError, 'bad element')
        return Converted('transform', x)


@harness(PROP, REQ + '.get_param_as_list', name='get_param_as_list', setup=_getter_setup)
def get_param_as_list(v):
    w = mk_world(v)
    tr = Transform(v) if v.choose(2, 'transform?') else None
    req = mk_request(v, w)
    kw = common_kwargs(w)
    if tr is not None:
        kw['transform'] = tr
    out = v.call(req, NAME, **kw)
    w_empty, w.empty = w.empty, False  # the empty list is a legal value here: []
    if not check_escape_and_absent(v, w, out):
        return
    items = w.values
    if tr is None:
        v.check('returns-all-occurrences-in-order', out.exc is None and list_eq(out.value, items))
        v.check('store-holds-the-value-on-success', store_holds(w, lambda x: list_eq(x, items)))
        v.cover('plain')
        if w_empty:
            v.cover('empty-list-is-returned-as-the-empty-list')
        return
    v.check('transform-applied-to-each-element-in-order', list_eq(tr.calls, items[:len(tr.calls)]) and (tr.raised or len(tr.calls) == len(items)))
    if tr.raised:
        v.check('transform-ValueError-raises-invalid-param', invalid_param(v, out))
        v.check('failure-leaves-store-untouched', store_untouched(w))
        v.cover('transform-rejected')
        return
    conv = lambda a, b: is_conversion_of(a, 'transform', b)  # noqa: E731
    v.check('returns-the-transformed-elements-in-order', out.exc is None and list_eq(out.value, items, conv))
    v.check('store-holds-the-value-on-success', store_holds(w, lambda x: list_eq(x, items, conv)))
    v.cover('transformed')



# ---------------------------------------------------------------------------
# parse_query_string: the real loop body on 1..3 symbolic fields against a reference fold
#
# A query string is built from atoms:  qs = f1 & ... & fn,  f = name | name '=' value,
# value = e1 , ... , em  (the comma structure only matters when csv is on).  Atoms are
# arbitrary symbolic strings free of the separators above them.  str.split / str.partition /
# `in` on these joined strings are answered from the construction (TRUSTED: they are the
# inverses of joining separator-free pieces); everything else the parser does -- blank
# handling, decoding, comma handling, accumulation into the dict -- runs from its source.

DEC = z3.Function('falcon.uri.decode', _S, _S)
PQS = URI + ':parse_query_string'


def _has(t, sub):
    return z3.Contains(t, z3.StringVal(sub))


def contains(s, sub):
    if hasattr(s, '__pyvc_contains__'):
        return s.__pyvc_contains__(sub)
    return s.contains(sub) if isinstance(s, SStr) else (sub in s)


class Decoded(SStr):
    """The result of decode(src).  Asking it for commas brings in one fact about percent-decoding (lazily: the
    unchanged parser never does): a comma in the decoded text comes from a literal comma or from the escape %2C."""

    __slots__ = ('src',)

    def __init__(self, t, src):
        SStr.__init__(self, t, 'str')
        self.src = src

    __hash__ = SStr.__hash__

    def _comma_fact(self):
        cur().assume(mk_bool(z3.Implies(_has(self.t, ','), z3.Or(_has(self.src, ','), _has(self.src, '%2C'), _has(self.src, '%2c')))))

    def contains(self, sub):
        if sub == ',':
            self._comma_fact()
        return SStr.contains(self, sub)

    def split(self, sep=None, maxsplit=-1):
        if sep == ',':
            self._comma_fact()
        return SStr.split(self, sep, maxsplit)


def decode_ref(s):
    """falcon.util.uri.decode (contract of C10): a total function str -> str, the identity on strings without '+' and '%'."""
    if not sym(s):
        import importlib

        return importlib.import_module(URI).decode(s)
    return Decoded(z3.simplify(z3.If(z3.Or(_has(s.t, '+'), _has(s.t, '%')), DEC(s.t), s.t)), s.t)


def _decode_stub(I, s, unquote_plus=True):
    if unquote_plus is not True:
        raise Unreached('decode(unquote_plus=False) inside the query parser')
    return decode_ref(s)


@stubclass
class Field:
    """name, or name '=' value with an '='-free name: partition('=') is known from the construction."""

    def __init__(self, name, has_eq, value, text):
        self.name, self.has_eq, self.value, self.text = name, has_eq, value, text

    def partition(self, sep):
        if sep != '=':
            raise Unreached('Field.partition(%r)' % (sep,))
        return (self.name, '=', self.value) if self.has_eq else (self.name, '', '')

    # anything else (only reached by modified code) is answered on the text itself
    def rpartition(self, sep):
        if sep != '=' or not self.has_eq:
            return self.text.rpartition(sep)
        # the last '=' of name '=' value is the construction's own one iff the value has none
        h, m, t = self.value.rpartition('=')
        if isinstance(m, str):
            return (self.name + '=' + h, '=', t) if m else (self.name, '=', self.value)
        return (Ite(Len(m) == 0, self.name, self.name + '=' + h), '=', t)

    def split(self, *a):
        return self.text.split(*a)

    def find(self, *a):
        return self.text.find(*a)

    def __pyvc_contains__(self, sub):
        return contains(self.text, sub)

    def __pyvc_len__(self):
        return Len(self.text)

    def __pyvc_truth__(self):
        return Len(self.text) > 0

    def atoms(self):
        return [self.name] + ([self.value] if self.has_eq else [])


@stubclass
class QueryString:
    """'&'.join(fields) for '&'-free fields."""

    def __init__(self, fields):
        self.fields = fields

    def split(self, sep=None, maxsplit=-1):
        if sep != '&' or maxsplit != -1:
            raise Unreached('QueryString.split(%r, %r)' % (sep, maxsplit))
        return list(self.fields)

    def __pyvc_contains__(self, ch):
        # a character other than '&' and '=' occurs in the query string iff it occurs in some name or value
        if ch not in ('+', '%'):
            raise Unreached('membership of %r in the query string' % (ch,))
        return Or(*[contains(a, ch) for f in self.fields for a in f.atoms()])


def _split_model(ctx, s, sep, maxsplit):
    """str.split(sep): a value built as sep.join(pieces) of sep-free pieces splits into those pieces.

    Strings of unknown structure (only reached by modified code) are split into at most three pieces; more separators are not explored.
    """
    if maxsplit != -1 or not isinstance(sep, str) or len(sep) != 1:
        raise Unreached('split(%r, %r) on a symbolic string' % (sep, maxsplit))
    known = ctx.ghost.get('joined', {}).get(id(s))
    if known is not None and known[0] == sep:
        return list(known[1])
    # unknown structure: s == p0 sep p1 [sep p2] for fresh sep-free pieces (a word equation; no index arithmetic)
    sp = z3.StringVal(sep)
    n = 1
    while n < 3 and ctx.branch(z3.Contains(s.t, sp) if n == 1 else z3.Contains(tail.t, sp), 'split%s:another-piece' % sep):
        if n == 1:
            head, tail = ctx.fresh_str('piece'), ctx.fresh_str('rest')
            ctx.assume(mk_bool(z3.And(s.t == z3.Concat(head.t, sp, tail.t), z3.Not(z3.Contains(head.t, sp)))))
            pieces = [head]
        else:
            head, tail2 = ctx.fresh_str('piece'), ctx.fresh_str('rest')
            ctx.assume(mk_bool(z3.And(tail.t == z3.Concat(head.t, sp, tail2.t), z3.Not(z3.Contains(head.t, sp)))))
            pieces.append(head)
            tail = tail2
        n += 1
    if n == 1:
        return [s]
    if n == 3:
        ctx.assume(mk_bool(z3.Not(z3.Contains(tail.t, sp))))  # BOUND on the number of pieces
    return pieces + [tail]


def _parser_setup(reg, ex):
    ex.split_handler = _split_model
    # every query of these harnesses on the unchanged code is decided in milliseconds; short limits keep modified code (kill matrix) from stalling
    ex.branch_timeout_ms = 400
    ex.incremental_timeout_ms = 200
    ex.check_timeout_ms = 2000
    reg.stubs[URI + ':decode'] = _decode_stub


def mk_value(v, i, csv, max_pieces):
    """The value of field i: one atom (csv off), or 1..max_pieces comma-free atoms joined by ','."""
    if not csv:
        val = v.str('value%d' % i)
        v.assume(Not(contains(val, '&')))
        return val
    m = v.choose(max_pieces, 'elements-of-value%d' % i) + 1
    pieces = [v.str('value%d_element%d' % (i, j)) for j in range(m)]
    for e in pieces:
        v.assume(And(Not(contains(e, '&')), Not(contains(e, ','))))
    val = pieces[0]
    for e in pieces[1:]:
        val = val + ',' + e
    if not v.concrete and m > 1:
        v.ctx.ghost.setdefault('joined', {})[id(val)] = (',', pieces)
        v.ctx.ghost.setdefault('keep', []).append(val)
    return val


def mk_query_string(v, n, csv, max_pieces):
    fields, texts = [], []
    for i in range(n):
        name = v.str('name%d' % i)
        v.assume(And(Not(contains(name, '&')), Not(contains(name, '='))))
        has_eq = bool(v.choose(2, 'field%d-has-equals-sign' % i))
        value = mk_value(v, i, csv, max_pieces) if has_eq else ''
        texts.append(name + '=' + value if has_eq else name)
        fields.append(Field(name, has_eq, value, texts[-1]))
    if v.concrete:
        return '&'.join(texts), texts
    return QueryString(fields), fields


def first_eq_split(field):
    """Split at the first '=': (name, value); no '=' -> (field, '')."""
    k, _, val = field.partition('=')
    return k, val


def reference_fold(v, fields, keep_blank, csv):
    """The form-urlencoded reference reading of the statement, as an insertion-ordered association list."""
    acc = []
    for field in fields:
        name, value = first_eq_split(field)
        if Len(value) == 0:
            # blank values kept or dropped per option; a field with neither name nor value is nothing at all
            if not keep_blank:
                continue
            if Len(name) == 0:
                continue
        key = decode_ref(name)
        if csv and contains(value, ','):
            # literal commas only: the split happens before decoding
            pieces = value.split(',')
            if not keep_blank:
                pieces = [p for p in pieces if Len(p) != 0]
            new, new_is_list = [decode_ref(p) for p in pieces], True
        else:
            new, new_is_list = decode_ref(value), False
        slot = None
        for e in acc:
            if e[0] == key:
                slot = e
                break
        if slot is None:
            acc.append([key, new])
            continue
        old = slot[1] if isinstance(slot[1], list) else [slot[1]]
        slot[1] = old + (new if new_is_list else [new])
    return acc


def value_eq(a, b):
    if isinstance(a, list) or isinstance(b, list):
        return list_eq(a, b)
    return str_eq(a, b)


def mapping_eq(result, acc):
    """The dict `result` is the mapping given by the association list `acc` (keys pairwise distinct on this path)."""
    if not isinstance(result, dict) or len(result) != len(acc):
        return False
    items = list(result.items())
    return And(*[Or(*[And(str_eq(rk, k), value_eq(rv, val)) for rk, rv in items]) for k, val in acc])


def _parse_query_string(v):
    if not v.concrete and any(ob.status == 'refuted' for ob in v.ctx.ex.obligations):
        v.cut()  # this variant is already refuted: the remaining paths add nothing (keeps the kill matrix fast)
    n = v.choose(3, 'fields') + 1
    keep_blank = bool(v.choose(2, 'keep_blank'))
    csv = bool(v.choose(2, 'csv'))
    qs, fields = mk_query_string(v, n, csv, 3 if n == 1 else 2)
    if not v.concrete:
        # explore the escape-free query strings first (there decode is the identity, so counter-models replay on the real decode)
        if Not(Or(contains(qs, '+'), contains(qs, '%'))):
            pass
    if v.choose(2, 'options-by-keyword'):
        out = v.call(qs, keep_blank=keep_blank, csv=csv)
    else:
        out = v.call(qs, keep_blank, csv)
    v.check('parsing-never-raises', out.exc is None)
    if out.exc is not None:
        return
    acc = reference_fold(v, fields, keep_blank, csv)
    v.check('mapping-equals-the-reference-reading', mapping_eq(out.value, acc))
    if len(acc) == 0:
        v.cover('nothing-kept')
    if any(isinstance(val, list) and len(val) == 0 for _, val in acc):
        v.cover('empty-list-value')  # `a=,` with csv on and blanks dropped: the key is kept with []
    if any(isinstance(val, list) and len(val) >= 2 for _, val in acc):
        v.cover('list-value')
    if len(acc) == n:
        v.cover('all-names-distinct')


def _variants():
    """(name, fix, tier): the case split is only about run time per harness; together the variants cover every combination."""
    for n in (1, 2, 3):
        for k in (0, 1):
            for c in (0, 1):
                fx = {'fields': n - 1, 'keep_blank': k, 'csv': c}
                if n > 1:
                    fx['options-by-keyword'] = 1  # the calling convention is explored with one field
                base = 'fields=%d,keep_blank=%d,csv=%d' % (n, k, c)
                if n < 3 or (c == 0 and k == 0):
                    yield base, fx, 'quick'
                elif c == 0:
                    for e0 in (0, 1):
                        yield '%s,eq0=%d' % (base, e0), dict(fx, **{'field0-has-equals-sign': e0}), 'quick'
                else:
                    # three fields with comma lists: every loop-body branch is already exercised with two fields; thorough tier only,
                    # and the third value has a single element (run time)
                    shapes = [(0, 0), (1, 0), (1, 1)]  # (has '=', number of elements - 1)
                    for e0, m0 in shapes:
                        for e1, m1 in shapes:
                            for e2 in (0, 1):
                                yield ('%s,eq=%d%d%d,elements=%d%d' % (base, e0, e1, e2, m0 + 1, m1 + 1),
                                       dict(fx, **{'field0-has-equals-sign': e0, 'field1-has-equals-sign': e1, 'field2-has-equals-sign': e2,
                                                   'elements-of-value0': m0, 'elements-of-value1': m1, 'elements-of-value2': 0}), 'thorough')


for _name, _fx, _tier in _variants():
    harness(PROP, PQS, name='parse_query_string[%s]' % _name, setup=_parser_setup, fix=_fx, max_paths=200000, tier=_tier)(_parse_query_string)


# ---------------------------------------------------------------------------
# wiring: Request.__init__ (WSGI, ASGI) and the deprecated form-body merge hand the option flags to the parser


@stubclass
class ParserProbe:
    """parse_query_string as its callers see it: records the call, returns an opaque mapping."""

    def __init__(self, result=None):
        self.calls = []
        self.result = result if result is not None else Doc('parsed mapping')

    def __call__(self, *args, **kwargs):
        self.calls.append((args, kwargs))
        return self.result


def request_options(v, **extra):
    keep = v.bool('keep_blank_qs_values')
    csv = v.bool('auto_parse_qs_csv')
    opts = Options(keep_blank_qs_values=keep, auto_parse_qs_csv=csv, strip_url_path_trailing_slash=False, _auto_parse_form_urlencoded=False,
                   default_media_type='application/json', media_handlers=None, **extra)
    return opts, keep, csv


def same_flag(a, b):
    if isinstance(a, SBool) or isinstance(b, SBool):
        return a is b
    return isinstance(a, bool) and a is b


def check_parser_call(v, probe, text, keep, csv):
    ok = len(probe.calls) == 1
    v.check('parser-called-exactly-once', ok)
    if not ok:
        return
    args, kwargs = probe.calls[0]
    got = dict(zip(('query_string', 'keep_blank', 'csv'), args))
    got.update(kwargs)
    v.check('parser-receives-the-text-and-both-option-flags',
            And(sorted(got) == ['csv', 'keep_blank', 'query_string'] and len(args) + len(kwargs) == 3,
                str_eq(got.get('query_string'), text), same_flag(got.get('keep_blank'), keep), same_flag(got.get('csv'), csv)))


def _wsgi_env(v):
    from falcon import testing

    return testing.create_environ(path='/things', method='GET')


@harness(PROP, REQ + '.__init__', name='wsgi_params_wiring', inline=['falcon.*'])
def wsgi_params_wiring(v):
    env = _wsgi_env(v)
    has_qs = v.choose(2, 'QUERY_STRING-in-environ?')
    qs = v.str('query_string') if has_qs else None
    if has_qs:
        env['QUERY_STRING'] = qs
    else:
        env.pop('QUERY_STRING', None)
    opts, keep, csv = request_options(v)
    probe = ParserProbe()
    req = v.obj(REQ)
    with patched(v, 'falcon.request', 'parse_query_string', probe):
        out = v.call(req, env, opts)
    v.check('construction-never-raises-whatever-the-query-string', out.exc is None)
    if out.exc is not None:
        return
    params = v.get(req, '_params')
    if not has_qs or Len(qs) == 0:
        v.check('no-query-string-gives-the-empty-mapping-without-parsing', isinstance(params, dict) and len(params) == 0 and len(probe.calls) == 0)
        v.cover('no-query-string')
        return
    check_parser_call(v, probe, qs, keep, csv)
    v.check('params-is-what-the-parser-returned', params is probe.result)
    v.check('query_string-attribute-is-the-raw-text', str_eq(v.get(req, 'query_string'), qs))
    v.cover('parsed')


UTF8_DECODE = z3.Function('utf8.decode', _S, _S)


def _codec_utf8(ctx, direction, s, enc, errors):
    """bytes.decode('utf-8') of well-formed UTF-8 is total (ASSUMPTIONS for the ASGI query string); the text is a function of the bytes, empty iff they are."""
    if enc.lower().replace('_', '-') in ('utf-8', 'utf8') and errors == 'strict':
        if direction == 'encode':
            return SStr(UTF8(s.t), 'bytes')
        r = UTF8_DECODE(s.t)
        ctx.assume(mk_bool((z3.Length(r) == 0) == (z3.Length(s.t) == 0)))
        return SStr(r, 'str')
    raise Unreached('%s with codec %r has no model here' % (direction, enc))


def _asgi_setup(reg, ex):
    ex.codec_handler = _codec_utf8


@harness(PROP, AREQ + '.__init__', name='asgi_params_wiring', inline=['falcon.*'], setup=_asgi_setup)
def asgi_params_wiring(v):
    from falcon import testing

    scope = testing.create_scope(path='/things', method='GET')
    raw = v.bytes('query_string')
    if v.concrete:
        try:
            raw.decode()
        except UnicodeDecodeError:
            return  # outside the assumption (see ASSUMPTIONS): the ASGI server hands over percent-encoded ASCII
    scope['query_string'] = raw
    opts, keep, csv = request_options(v)
    probe = ParserProbe()
    req = v.obj(AREQ)
    with patched(v, 'falcon.asgi.request', 'parse_query_string', probe):
        out = v.call(req, scope, Doc('receive callable'), None, opts)
    v.check('construction-never-raises-whatever-the-query-string', out.exc is None)
    if out.exc is not None:
        return
    params = v.get(req, '_params')
    text = SStr(UTF8_DECODE(raw.t), 'str') if sym(raw) else raw.decode()
    if Len(raw) == 0:
        v.check('no-query-string-gives-the-empty-mapping-without-parsing', isinstance(params, dict) and len(params) == 0 and len(probe.calls) == 0)
        v.cover('no-query-string')
        return
    check_parser_call(v, probe, text, keep, csv)
    v.check('params-is-what-the-parser-returned', params is probe.result)
    v.cover('parsed')


@stubclass
class BodyStream:
    def __init__(self, body):
        self.body = body
        self.reads = []

    def read(self, size=None):
        self.reads.append(size)
        return self.body


@harness(PROP, REQ + '._parse_form_urlencoded', name='form_body_wiring', inline=[REQ + '.content_length', REQ + '.get_header*'])
def form_body_wiring(v):
    """The deprecated auto_parse_form_urlencoded merge: the body is parsed with the same two options and merged over the query parameters."""
    body = b'b=2&c=3'
    opts, keep, csv = request_options(v)
    extra = {'b': 'from-the-body', 'c': ['3']}
    probe = ParserProbe(extra)
    params = {'a': '1', 'b': 'from-the-query'}
    stream = BodyStream(body)
    req = v.obj(REQ, _params=params, options=opts, stream=stream, env={'CONTENT_LENGTH': str(len(body))})
    with patched(v, 'falcon.request', 'parse_query_string', probe):
        out = v.call(req)
    v.check('no-exception', out.exc is None)
    if out.exc is not None:
        return
    check_parser_call(v, probe, body.decode('ascii'), keep, csv)
    v.check('body-parameters-merged-over-the-query-parameters', v.get(req, '_params') is params and params == {'a': '1', 'b': 'from-the-body', 'c': ['3']})
    v.cover('merged')


# ---------------------------------------------------------------------------
# to_query_str: structure of the rendered string

MISC = 'falcon.util.misc'
ENC = z3.Function('falcon.uri.encode_value', _S, _S)


def encode_value_ref(s):
    """falcon.util.uri.encode_value (contract of C10): a total function str -> str."""
    if not sym(s):
        import importlib

        return importlib.import_module(URI).encode_value(s)
    return SStr(ENC(s.t), 'str')


def _to_query_str_setup(reg, ex):
    import builtins
    import importlib

    reg.add_model(importlib.import_module(MISC).encode_value, lambda I, s: encode_value_ref(s))
    reg.add_model(builtins.map, lambda I, f, xs: [I.call(f, [x], {}) for x in I.iterate(xs)])


def render_reference(items, comma_delimited_lists, prefix):
    """The query string the documentation of to_query_str describes, for an ordered list of (key, value)."""
    parts = []
    for k, val in items:
        ek = encode_value_ref(k)
        if val is True or val is False:
            parts.append(ek + '=' + ('true' if val else 'false'))
        elif isinstance(val, list):
            rendered = [('true' if x else 'false') if (x is True or x is False) and not comma_delimited_lists else
                        encode_value_ref(x if isinstance(x, (str, SStr)) else str(x)) for x in val]
            if comma_delimited_lists:
                joined = ''
                for i, r in enumerate(rendered):
                    joined = (joined + ',' + r) if i else r
                parts.append(ek + '=' + joined)
            else:
                parts.extend(ek + '=' + r for r in rendered)
        else:
            parts.append(ek + '=' + encode_value_ref(val if isinstance(val, (str, SStr)) else str(val)))
    out = ''
    for i, part in enumerate(parts):
        out = (out + '&' + part) if i else part
    if not parts:
        return ''  # nothing to render (no parameters, or only empty lists rendered as repeated names): no lone '?'
    return ('?' if prefix else '') + out


@harness(PROP, MISC + ':to_query_str', name='to_query_str', setup=_to_query_str_setup)
def to_query_str(v):
    n = v.choose(3, 'keys')
    items = []
    for i in range(n):
        k = v.str('key%d' % i)
        shape = v.choose(5, 'value%d-shape' % i)
        if shape == 0:
            val = v.str('value%d' % i)
        elif shape == 1:
            val = bool(v.choose(2, 'value%d-bool' % i))
        elif shape == 2:
            val = []
        elif shape == 3:
            val = [v.str('value%d_0' % i)]
        else:
            val = [v.str('value%d_0' % i), v.str('value%d_1' % i)]
        items.append((k, val))
    if n == 2:
        v.assume(Not(items[0][0] == items[1][0]))  # keys of a dict are distinct
    params = None if (n == 0 and v.choose(2, 'None-instead-of-empty')) else {k: val for k, val in items}
    cdl = bool(v.choose(2, 'comma_delimited_lists'))
    prefix = bool(v.choose(2, 'prefix'))
    out = v.call(params, comma_delimited_lists=cdl, prefix=prefix) if v.choose(2, 'explicit-options') else (
        v.call(params) if (cdl and prefix) else v.call(params, cdl, prefix))
    v.check('no-exception', out.exc is None)
    if out.exc is not None:
        return
    want = render_reference(items, cdl, prefix)
    v.check('renders-name-value-pairs-in-order', str_eq(out.value, want))
    if n == 0:
        v.check('no-parameters-give-the-empty-string', out.value == '')
    v.cover('rendered')


# ---------------------------------------------------------------------------
# bounded stand-in (never counted as proved): exhaustive short inputs against an independent reference

_BOUNDED_SCRIPT = r"""
import itertools, json, sys
tier = sys.argv[1]
import falcon
from falcon.util import uri, misc
from falcon import errors

ALPHABET = ['&', '=', ',', '+', '%', '4', '1', 'g', 'a', '\x00', '\xe9']
HEX = '0123456789abcdefABCDEF'
impl = 'pure-python' if getattr(uri, '_cy_uri', None) is None else 'cython'


def ref_decode(s):
    # percent- and plus-decoding as UTF-8, malformed escapes kept literally (written from the statement)
    raw = s.replace('+', ' ').encode('utf-8')
    out = bytearray()
    i = 0
    while i < len(raw):
        c = raw[i]
        if c == 0x25 and i + 2 < len(raw) + 0 and i + 2 <= len(raw) - 1 + 0 and chr(raw[i + 1]) in HEX and chr(raw[i + 2]) in HEX:
            out.append(int(raw[i + 1:i + 3].decode('ascii'), 16))
            i += 3
        else:
            out.append(c)
            i += 1
    return out.decode('utf-8', 'replace')


def ref_parse(qs, keep, csv):
    out = {}
    pos = 0
    fields = []
    while True:
        j = qs.find('&', pos)
        if j < 0:
            fields.append(qs[pos:])
            break
        fields.append(qs[pos:j])
        pos = j + 1
    for field in fields:
        e = field.find('=')
        name, value = (field, '') if e < 0 else (field[:e], field[e + 1:])
        if value == '' and (not keep or name == ''):
            continue
        key = ref_decode(name)
        if csv and ',' in value:
            elems = value.split(',')
            if not keep:
                elems = [x for x in elems if x != '']
            new = [ref_decode(x) for x in elems]
        else:
            new = ref_decode(value)
        if key not in out:
            out[key] = new
        else:
            old = out[key] if isinstance(out[key], list) else [out[key]]
            out[key] = old + (new if isinstance(new, list) else [new])
    return out


def strings(maxlen):
    for n in range(maxlen + 1):
        for t in itertools.product(ALPHABET, repeat=n):
            yield ''.join(t)


results = []


def report(name, bound, cases, failures):
    results.append({'name': name + ' [' + impl + ' implementation loaded]', 'bound': bound, 'cases': cases, 'failures': failures[:25], 'failures_total': len(failures)})


# 1. parser against the reference -----------------------------------------------------------------
maxlen = 5 if tier == 'thorough' else 4
cases, failures = 0, []
for qs in strings(maxlen):
    for keep in (False, True):
        for csv in (False, True):
            cases += 1
            try:
                got = uri.parse_query_string(qs, keep_blank=keep, csv=csv)
            except Exception as e:
                failures.append({'obligation': 'falcon.util.uri:parse_query_string#parsing-never-raises', 'input': repr((qs, keep, csv)), 'got': repr(e)})
                continue
            want = ref_parse(qs, keep, csv)
            if got != want or type(got) is not dict:
                failures.append({'obligation': 'falcon.util.uri:parse_query_string#mapping-equals-the-reference-reading', 'input': repr((qs, keep, csv)),
                                 'got': repr(got), 'want': repr(want)})
report('C08.bounded.parse_query_string-vs-reference', 'all strings of length <= %d over %r, all four option settings' % (maxlen, ALPHABET), cases, failures)

# 2. every getter on every parameter the parser produced: only 400-class errors escape -----------
from falcon import testing
env = testing.create_environ(path='/')
GETTERS = ['get_param', 'get_param_as_int', 'get_param_as_float', 'get_param_as_bool', 'get_param_as_uuid', 'get_param_as_list',
           'get_param_as_datetime', 'get_param_as_date', 'get_param_as_json']
cases, failures, seen = 0, [], set()
glen = 4 if tier == 'thorough' else 3
for qs in strings(glen):
    for keep in (False, True):
        for csv in (False, True):
            opts = falcon.RequestOptions()
            opts.keep_blank_qs_values = keep
            opts.auto_parse_qs_csv = csv
            env['QUERY_STRING'] = qs
            req = falcon.Request(env, options=opts)
            if req.params != ref_parse(qs, keep, csv):
                failures.append({'obligation': 'falcon.request:Request.__init__#params-is-what-the-parser-returned', 'input': repr((qs, keep, csv)), 'got': repr(req.params)})
            for name in list(req.params):
                for g in GETTERS:
                    cases += 1
                    try:
                        getattr(req, g)(name)
                    except errors.HTTPBadRequest:
                        pass
                    except Exception as e:
                        key = (g, type(e).__name__)
                        if key not in seen:
                            seen.add(key)
                            clause = 'empty-list-escape-only-400-class' if req.params[name] == [] else 'escape-only-400-class'
                            failures.append({'obligation': 'falcon.request:Request.%s#%s' % (g, clause), 'input': repr((qs, keep, csv, name)), 'got': repr(e)})
report('C08.bounded.getters-on-parsed-parameters', 'every getter on every name of every query string of length <= %d, all four option settings (first witness per getter and exception type)' % glen, cases, failures)

# 3. to_query_str round trip ------------------------------------------------------------------------
short1 = list(strings(1))
short2 = list(strings(2))
few = ['', ',', '%', 'a'] if tier != 'thorough' else short1


def values(strs, elems):
    for x in strs:
        yield x
    for a in elems:
        for b in elems:
            yield [a, b]


def nameless_blank(d, cdl):
    # a rendered field '=' (empty name AND empty value) is "nothing" in the reference reading, so it cannot come back:
    # {'': ''} in both renderings, and {'': [.., '', ..]} when lists are rendered as repeated names
    val = d.get('')
    return val == '' or (isinstance(val, list) and not cdl and '' in val)


def round_trip(d, cdl, csv, failures):
    if nameless_blank(d, cdl):
        return
    text = misc.to_query_str(d, comma_delimited_lists=cdl, prefix=False)
    back = uri.parse_query_string(text, keep_blank=True, csv=csv)
    if back != d:
        failures.append({'obligation': 'falcon.util.misc:to_query_str#parses-back-to-itself', 'input': repr((d, cdl, csv)), 'rendered': repr(text), 'got': repr(back)})
    with_prefix = misc.to_query_str(d, comma_delimited_lists=cdl, prefix=True)
    if with_prefix != '?' + text:
        failures.append({'obligation': 'falcon.util.misc:to_query_str#renders-name-value-pairs-in-order', 'input': repr((d, cdl)), 'got': repr(with_prefix)})


MODES = [(True, True), (False, False), (False, True)]  # (comma_delimited_lists, csv): comma lists need csv parsing
cases, failures = 0, []
for k in short2:
    for val in values(short2, short1):
        for cdl, csv in MODES:
            cases += 1
            round_trip({k: val}, cdl, csv, failures)
for k1 in short1:
    for k2 in short1:
        if k1 >= k2:
            continue
        for v1 in values(short1, few):
            for v2 in values(short1, few):
                for cdl, csv in MODES:
                    cases += 1
                    round_trip({k1: v1, k2: v2}, cdl, csv, failures)
report('C08.bounded.to_query_str-round-trip',
       'dicts of 1 key (key, str value of length <= 2, or a two-element list of strings of length <= 1) and 2 keys (length <= 1) over the same alphabet; '
       'values are what the parser can produce (str, or list of >= 2 str); the empty name with an empty value / empty repeated element is excluded '
       '(it renders as "=", which the reference reading drops); parsed with keep_blank=True and csv matching the rendering', cases, failures)
json.dump(results, sys.stdout)
"""


def bounded(tier, seed, overlay_dir):
    """Bounded stand-in, run in a subprocess on the source-only overlay.  Never counted as proved."""
    import json
    import os
    import subprocess

    env = dict(os.environ, PYTHONPATH=overlay_dir, PYTHONDONTWRITEBYTECODE='1')
    env.pop('PYTHONHOME', None)
    py = '/venv/bin/python' if os.path.exists('/venv/bin/python') else 'python3'
    p = subprocess.run([py, '-B', '-c', _BOUNDED_SCRIPT, 'thorough' if tier == 'thorough' else 'quick'], env=env, capture_output=True, text=True,
                       timeout=3000, cwd=overlay_dir)
    if p.returncode != 0:
        return [{'name': 'C08.bounded', 'bound': '', 'cases': 0, 'failures': [], 'error': (p.stderr or p.stdout)[-2000:]}]
    return json.loads(p.stdout)


ASSUMPTIONS = [
    'falcon.util.uri.decode (contract of C10, stubbed as an uninterpreted function): total str -> str, never raises, and is the identity on strings that contain neither "+" nor "%" '
    '(that is what makes the parser\'s whole-string `is_encoded` shortcut equal to decoding every name and value); what it computes on escapes (UTF-8, malformed escapes kept) is C10 and '
    'is only compared against an independent reference in the bounded stand-in',
    'falcon.util.uri.encode_value (C10): a total function str -> str (to_query_str harness); that decode(encode_value(s)) == s is only exercised by the bounded round trip',
    'int(str) / float(str): raise nothing but ValueError; the result is a function of the string.  Exact on ASCII decimal literals of at most 15 characters (and float("nan") is NaN); '
    'every other string is accepted or rejected arbitrarily (uninterpreted), so all of Python\'s literal forms (signs, underscores, blanks, Unicode digits, inf, exponents, the 4300 digit limit) are covered',
    'floats are NaN or a point of a dense total order (only <, <=, == are used by the subject and the contract); min_value / max_value are integers in the float harness',
    'uuid.UUID(str), datetime.strptime(str, fmt): return a value that is a function of the string, or raise ValueError and nothing else (str input)',
    'a JSON media handler (C12) returns a document or raises a subclass of HTTPBadRequest (MediaMalformedError / MediaNotFoundError); Handlers._resolve(.., raise_not_found=False) '
    'returns (handler | None, .., ..)',
    'a user `transform` returns a value or raises ValueError (any other exception it raises propagates unchanged: outside the statement)',
    'parameter values contain no lone surrogates, so str.encode() in get_param_as_json cannot fail (WSGI: latin-1 tunnelled text; ASGI: decoded bytes; decode() uses errors="replace")',
    'ASGI: scope["query_string"] is well-formed UTF-8 (the ASGI spec says percent-encoded ASCII).  Outside the assumption the constructor does `scope["query_string"].decode()` '
    'with the strict handler: b"\\xff" raises UnicodeDecodeError during falcon.asgi.Request construction (observation, not part of the proof)',
    '`store` is any object with __setitem__; every write is recorded',
    'the query string handed to parse_query_string is a str (WSGI environ / ASGI decoded bytes)',
]
NOT_DECIDED = [
    'parse_query_string for MORE than three "&"-separated fields, and (quick tier) three fields together with comma lists; a comma list has at most three elements with one field and '
    'two elements with two or three fields (thorough tier: three fields, first two values up to two elements, third value one element).  Every branch of the loop body is exercised; the '
    'induction over the number of fields (loop invariant params == fold(step, fields[:i]) over a symbolic-length field list) is not done',
    'the round trip parse_query_string(to_query_str(d)) == d: needs induction over strings and the decode/encode_value inverse law; only the bounded stand-in bounded() exercises it.  '
    'Boundary found there (not counted as a defect): a mapping with the EMPTY name and an empty value (or an empty element when lists are rendered as repeated names) renders as "=" '
    'which the reference reading drops; one-element lists, [] and non-str values are outside the image of the parser and do not come back either',
    'what decode computes (percent/plus decoding as UTF-8, malformed escapes kept literally): C10; here uninterpreted, and compared with an independent reference only in bounded()',
    'falcon/cyutil/uri.pyx (Cython twin of decode / parse_query_string): Cython syntax is out of reach of the ast-based executor and it cannot be rebuilt offline; deployments that load the '
    'compiled twin run code this contract has not seen (bounded() reports which implementation it exercised: the source-only overlay loads the pure-Python one)',
    'get_param_as_datetime / get_param_as_date with a caller-supplied format_string other than the two defaults (strptime is opaque per format)',
    'get_param_as_json passes content_length=len(param_value) (characters, not bytes) to the handler: not part of the statement, not checked',
    'URLEncodedFormHandler._deserialize (same parser, options from the handler): covered by C12',
    'the empty list in `_params` for scalar getters: beyond "only 400-class errors escape" nothing is specified (the statement does not say whether `a=,` is "absent" or "blank")',
]
TRUSTED = [
    'structured query strings in contracts/C08_query.py (QueryString, Field, mk_value, _split_model): a query string is built as "&".join(fields), field = name | name "=" value, '
    'value = ",".join(elements) from separator-free symbolic atoms, and str.split / str.partition / `"+" in s` / `"%" in s` on exactly these joined strings are answered from the '
    'construction (split and partition are the inverses of joining separator-free pieces; a character other than the separators occurs in the join iff it occurs in a piece).  '
    'Cross-checked by bounded() against str.split / str.partition of CPython on every string up to length 4 (quick) / 5 (thorough)',
    'ghost stubs in contracts/C08_query.py: Store, Doc, Converted, JsonHandler, MediaHandlers, Options, Transform, ParserProbe, BodyStream, GhostBytesIO',
    'conversion models in contracts/C08_query.py: m_int_of_str, m_float (class SFloat), m_uuid, m_strptime, _codec / _codec_utf8 (utf-8 encode/decode as uninterpreted total functions)',
    'opaque dependencies are substituted by rebinding the module-level name in the overlay module while the subject runs (class `patched`): falcon.request._DEFAULT_JSON_HANDLER, '
    'falcon.request.parse_query_string, falcon.asgi.request.parse_query_string',
    'parser harnesses use short solver limits (2 s per obligation, 0.4 s per branch query: on the unchanged tree every query is decided in milliseconds; an undecided one is '
    'reported as unknown, never as proved) and stop exploring a variant after its first refuted obligation (so that modified trees in the kill matrix fail fast)',
    'pyvc/interp.py setitem: a store under a symbolic key into a concrete dict creates a new entry once the key has been compared unequal to every existing key on the path',
]
KILLS = [
    # --- parser -------------------------------------------------------------------------------------------------
    # split('=') semantics instead of partition: the value is cut at a second '='
    ('falcon/util/uri.py', "        k, _, v = field.partition('=')\n", "        k, _, v = field.partition('=')\n        v = v.partition('=')[0]\n",
     'parse_query_string#mapping-equals-the-reference-reading'),
    # keep_blank polarity
    ('falcon/util/uri.py', '        if not v and (not keep_blank or not k):\n', '        if not v and (keep_blank or not k):\n', 'parse_query_string#mapping-equals-the-reference-reading'),
    # decode before looking for commas: an escaped comma (%2C) makes the value a list
    ('falcon/util/uri.py', "        else:\n            if csv and ',' in v:\n", "        else:\n            if csv and ',' in decode(v):\n",
     'parse_query_string#mapping-equals-the-reference-reading'),
    # comma splitting although csv is off (repeated-name branch)
    ('falcon/util/uri.py', "            old_value = params[k]\n\n            if csv and ',' in v:\n", "            old_value = params[k]\n\n            if ',' in v:\n",
     'parse_query_string#mapping-equals-the-reference-reading'),
    # repeated names collected in the wrong order
    ('falcon/util/uri.py', '                    params[k] = [old_value, v]\n', '                    params[k] = [v, old_value]\n', 'parse_query_string#mapping-equals-the-reference-reading'),
    ('falcon/util/uri.py', '                    additional_values.insert(0, old_value)\n', '                    additional_values.append(old_value)\n',
     'parse_query_string#mapping-equals-the-reference-reading'),
    # names not decoded
    ('falcon/util/uri.py', '        if is_encoded:\n            k = decode(k)\n', '', 'parse_query_string#mapping-equals-the-reference-reading'),
    # '+' alone no longer triggers decoding
    ('falcon/util/uri.py', "    is_encoded = '+' in query_string or '%' in query_string\n", "    is_encoded = '%' in query_string\n", 'parse_query_string#mapping-equals-the-reference-reading'),
    # --- getters ------------------------------------------------------------------------------------------------
    # first occurrence instead of the last
    ('falcon/request.py', '                param = param[-1]\n', '                param = param[0]\n', 'Request.get_param#returns-the-last-occurrence'),
    # < vs <= on min (int)
    ('falcon/request.py', "                msg = 'The value must be an integer.'\n                raise errors.HTTPInvalidParam(msg, name)\n\n            if min_value is not None and val < min_value:\n",
     "                msg = 'The value must be an integer.'\n                raise errors.HTTPInvalidParam(msg, name)\n\n            if min_value is not None and val <= min_value:\n",
     'Request.get_param_as_int#returns-the-int-of-the-last-occurrence'),
    # max not enforced (float)
    ('falcon/request.py', "            if max_value is not None and not val <= max_value:\n", "            if max_value is not None and not val <= max_value and False:\n",
     'Request.get_param_as_float#above-max-raises-invalid-param'),
    # NaN slips through the bounds again (the repaired defect: 'val < min_value' is false for NaN)
    ('falcon/request.py', "            if min_value is not None and not val >= min_value:\n", "            if min_value is not None and val < min_value:\n",
     'Request.get_param_as_float#below-min-raises-invalid-param'),
    # store written although the value is rejected (bool)
    ('falcon/request.py', "                msg = 'The value of the parameter must be \"true\" or \"false\".'\n",
     "                if store is not None:\n                    store[name] = val_str\n                msg = 'The value of the parameter must be \"true\" or \"false\".'\n",
     'Request.get_param_as_bool#failure-leaves-store-untouched'),
    # default returned although the parameter is required
    ('falcon/request.py', '        if not required:\n            return default\n\n        raise errors.HTTPMissingParam(name)\n\n    @overload\n    def get_param_as_int(\n',
     '        return default\n\n    @overload\n    def get_param_as_int(\n', 'Request.get_param#absent-and-required-raises-missing-param'),
    # bool literal sets changed
    ('falcon/request.py', "TRUE_STRINGS = frozenset(['true', 'True', 't', 'yes', 'y', '1', 'on'])\n", "TRUE_STRINGS = frozenset(['true', 'True', 't', 'yes', 'y', '1', 'on', 'ok'])\n",
     'Request.get_param_as_bool#unrecognised-value-raises-invalid-param'),
    ('falcon/request.py', "FALSE_STRINGS = frozenset(['false', 'False', 'f', 'no', 'n', '0', 'off'])\n", "FALSE_STRINGS = frozenset(['false', 'False', 'f', 'no', '0', 'off'])\n",
     'Request.get_param_as_bool#false-literals-yield-False'),
    # a transform's ValueError is no longer turned into a 400
    ('falcon/request.py', "                except ValueError:\n                    msg = 'The value is not formatted correctly.'\n",
     "                except TypeError:\n                    msg = 'The value is not formatted correctly.'\n", 'Request.get_param_as_list#escape-only-400-class'),
    # the date getter lets the datetime getter write the store as well
    ('falcon/request.py', '        date_time = self.get_param_as_datetime(name, format_string, required)\n',
     '        date_time = self.get_param_as_datetime(name, format_string, required, store)\n', 'Request.get_param_as_date#store-holds-the-value-on-success'),
    # --- wiring / rendering ---------------------------------------------------------------------------------------
    ('falcon/request.py', '                    csv=self.options.auto_parse_qs_csv,\n', '', 'Request.__init__#parser-receives-the-text-and-both-option-flags'),
    ('falcon/util/misc.py', "        if v is True:\n            v = 'true'\n", "        if v is True:\n            v = 'True'\n", 'to_query_str#renders-name-value-pairs-in-order'),
]
HARMLESS = [
    ('falcon/util/uri.py', "    params: dict = {}\n\n    is_encoded = '+' in query_string or '%' in query_string\n",
     "    is_encoded = '+' in query_string or '%' in query_string\n\n    params: dict = {}\n"),
    ('falcon/request.py', '            param = params[name]\n            if isinstance(param, list):\n                param = param[-1]\n',
     '            param = params[name]\n            if isinstance(param, list):\n                occurrences = param\n                param = occurrences[-1]\n'),
    ('falcon/util/misc.py', "    query_str = '?' if prefix else ''\n", "    query_str = ''\n    if prefix:\n        query_str = '?'\n"),
]
