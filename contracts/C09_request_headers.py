"""C09 -- typed request-header accessors agree with the RFC reading or answer 400.

Contracts on falcon/request.py (WSGI Request) and falcon/asgi/request.py (ASGI twins),
falcon/util/uri.py parse_host, falcon/util/misc.py http_date_to_dt.
"""
from __future__ import annotations

import re as _re

import z3

from pyvc.core import And, ExcVal, Iff, Implies, Ite, Len, Not, Or, Outcome, PyRaise, SStr, Unreached, mk_bool, mk_int, mk_str, _s
from pyvc.harness import harness, stubclass

PROP = 'C09'
WM = 'falcon.request'
WREQ = WM + ':Request'
AM = 'falcon.asgi.request'
AREQ = AM + ':Request'


# ---------------------------------------------------------------------------
# helpers that work in both modes (symbolic exploration / concrete replay)


def _text(x):
    return x.decode('latin-1') if isinstance(x, (bytes, bytearray)) else x


_DIGITS = None


def _digits_re():
    global _DIGITS
    if _DIGITS is None:
        _DIGITS = z3.Plus(z3.Range(z3.StringVal('0'), z3.StringVal('9')))
    return _DIGITS


def is_digits(x):
    """x is 1*DIGIT (RFC 9110 ABNF)."""
    if isinstance(x, SStr):
        return mk_bool(z3.InRe(x.t, _digits_re()))
    return bool(_re.fullmatch('[0-9]+', _text(x)))


def digits_value(x):
    """Decimal value of 1*DIGIT."""
    if isinstance(x, SStr):
        return mk_int(z3.StrToInt(x.t))
    return int(_text(x)) if _re.fullmatch('[0-9]+', _text(x)) else -1


def contains(s, sub):
    if isinstance(s, SStr):
        return s.contains(sub)
    return sub in s


def py_int_ok(x):
    """Python's int(x) accepts x (spec-side mirror of the int model)."""
    if isinstance(x, SStr):
        return mk_bool(PY_INT_OK(x.t))
    try:
        int(x)
        return True
    except ValueError:
        return False


def field_of(v, o, name):
    """Instance field, falling back to the class-level default (ASGI Request keeps its cache fields as class attributes until set)."""
    if hasattr(o, '_fields') and hasattr(o, '_cls'):
        return o._fields[name] if name in o._fields else getattr(o._cls, name)
    return getattr(o, name)


def is_400(v, exc, cls='falcon:HTTPBadRequest'):
    return exc is not None and exc.isa(v.real(cls))


def escape_only_400(v, out, clause='escape-only-400-class'):
    """Sentence: 'for invalid input either returns a lenient reading or raises a 400-class HTTP error, never any other exception'."""
    v.check(clause, out.exc is None or out.exc.isa(v.real('falcon:HTTPBadRequest')))


def port_text(src):
    """The port part of host [":" port] (RFC 3986 3.2.3, RFC 7239 6: node-port), None when the value has none."""
    if src.startswith('['):
        if contains(src, ']:'):
            return src[src.rfind(']:') + 2:]
        return None
    name, sep, rest = src.partition(':')
    if not sep or contains(rest, ':'):
        return None
    return rest


def has_non_numeric_port(src):
    """Harness-side fork: the value carries a port that int() does not accept (empty, obfuscated "_x", letters, ...)."""
    if src is None:
        return False
    p = port_text(src)
    return p is not None and bool(Not(py_int_ok(p)))


NON_NUMERIC_PORT = 'non-numeric-port-escape-only-400-class'


def header_name_of(exc):
    """The header name an HTTPInvalidHeader / HTTPMissingHeader was raised for (second / first positional argument)."""
    if exc.cls.__name__ == 'HTTPMissingHeader':
        return exc.args[0] if exc.args else exc.kwargs.get('header_name')
    return exc.args[1] if len(exc.args) > 1 else exc.kwargs.get('header_name')


# ---------------------------------------------------------------------------
# model of int(str) (Python language reference, built-in int, base 10)

PY_INT = z3.Function('py.int', z3.StringSort(), z3.IntSort())
PY_INT_OK = z3.Function('py.int.accepts', z3.StringSort(), z3.BoolSort())


_INT_LIT = None


def _int_literal_re():
    """Decimal literals int() accepts among latin-1 texts: blanks, optional sign, digits with single underscores between them, blanks."""
    global _INT_LIT
    if _INT_LIT is None:
        ch = lambda c: z3.Re(z3.StringVal(c))
        ws = z3.Star(z3.Union(*[ch(c) for c in '\t\n\x0b\x0c\r\x1c\x1d\x1e\x1f \x85\xa0']))
        d = z3.Range(z3.StringVal('0'), z3.StringVal('9'))
        body = z3.Concat(z3.Plus(d), z3.Star(z3.Concat(ch('_'), z3.Plus(d))))
        lit = z3.Concat(ws, z3.Option(z3.Union(ch('+'), ch('-'))), body, ws)
        _INT_LIT = lit
    return _INT_LIT


def int_model(I, s, *rest):
    if rest:
        raise Unreached('int(str, base)')
    ctx = I.ctx
    t = s.t
    digits = z3.InRe(t, _digits_re())
    # an accepted text is a decimal literal (header values are latin-1 texts: PEP 3333 native strings / ASGI byte strings, see ASSUMPTIONS)
    ctx.assume(mk_bool(z3.Implies(PY_INT_OK(t), z3.InRe(t, _int_literal_re()))))
    # 1*DIGIT is accepted with its decimal value
    ctx.assume(mk_bool(z3.Implies(digits, z3.And(PY_INT_OK(t), PY_INT(t) == z3.StrToInt(t)))))
    # the empty string is rejected; a literal without '-' is never negative
    ctx.assume(mk_bool(z3.Implies(z3.Length(t) == 0, z3.Not(PY_INT_OK(t)))))
    ctx.assume(mk_bool(z3.Implies(z3.And(PY_INT_OK(t), z3.Not(z3.Contains(t, z3.StringVal('-')))), PY_INT(t) >= 0)))
    if ctx.branch(z3.Not(PY_INT_OK(t)), label='int()-raises-ValueError'):
        ctx.raise_py(ValueError, 'invalid literal for int() with base 10')
    return mk_int(PY_INT(t))


def latin1_codec(ctx, direction, s, enc, errors):
    """bytes.decode('latin1'): total, same code points; str.encode('latin1') of a latin-1 text likewise."""
    e = enc.lower().replace('_', '-')
    if e in ('latin1', 'latin-1', 'iso-8859-1') and errors == 'strict':
        if direction == 'decode':
            return SStr(s.t, 'str')
        if ctx.branch(z3.Not(z3.InRe(s.t, z3.Star(z3.Range(z3.StringVal(chr(0)), z3.StringVal(chr(255)))))), label='latin1-unencodable'):
            raise PyRaise(ExcVal(UnicodeEncodeError, ('latin-1', '', 0, 1, 'ordinal not in range(256)')))
        return SStr(s.t, 'bytes')
    raise Unreached('%s with codec %r has no model' % (direction, enc))


# ---------------------------------------------------------------------------
# str.partition / find / rfind / split as word equations (z3 decides these, unlike indexof/substr terms)


def _occurrence(ctx, s, sep, last=False):
    """(found, head, tail) with s == head ++ sep ++ tail at the first (last) occurrence of the literal sep; one decomposition per term and path."""
    cache = ctx.ghost.setdefault('$occurrence', {})
    sep_t = _s(sep)
    key = (s.t.get_id(), sep_t.get_id(), last)
    if key in cache:
        return cache[key][0]
    if ctx.branch(z3.Contains(s.t, sep_t), label='contains-%s' % (_text(sep),)):
        h, t = ctx.fresh_str('head', s.kind), ctx.fresh_str('tail', s.kind)
        ctx.assume(mk_bool(s.t == z3.Concat(h.t, sep_t, t.t)))
        if not last:  # no occurrence starts inside head
            ctx.assume(mk_bool(z3.Not(z3.Contains(z3.Concat(h.t, _s(sep[:-1])) if len(sep) > 1 else h.t, sep_t))))
        else:  # no occurrence starts after this one
            ctx.assume(mk_bool(z3.Not(z3.Contains(z3.Concat(_s(sep[1:]), t.t) if len(sep) > 1 else t.t, sep_t))))
        res = (True, h, t)
        _remember(ctx, s, h, sep, t)
    else:
        res = (False, None, None)
    cache[key] = (res, s.t, sep_t)
    return res


def _remember(ctx, s, pre, sep, post):
    """s == pre ++ sep ++ post is known on this path (used to answer slices at these positions without substr terms)."""
    ctx.ghost.setdefault('$splits', []).append((s.t, pre, sep, post))


def _literal(x):
    return isinstance(x, (str, bytes)) and len(x) > 0


def _borderless(sep):
    """No proper prefix of sep is also a suffix: occurrences of sep never overlap."""
    return all(sep[:k] != sep[-k:] for k in range(1, len(sep)))


def _hook_partition(ctx, s, sep):
    if not _literal(sep):
        return NotImplemented
    found, h, t = _occurrence(ctx, s, sep)
    empty = '' if s.kind == 'str' else b''
    return (h, sep, t) if found else (s, empty, empty)


def _hook_find(ctx, s, sub, start=0):
    if not _literal(sub) or not (isinstance(start, int) and start == 0):
        return NotImplemented
    found, h, t = _occurrence(ctx, s, sub)
    return h.length() if found else -1


def _hook_rfind(ctx, s, sub):
    """Last occurrence, derived from the first one: it is the first one unless the rest contains another."""
    if not _literal(sub):
        return NotImplemented
    if not _borderless(sub):
        found, h, t = _occurrence(ctx, s, sub, last=True)
        return h.length() if found else -1
    found, h, t = _occurrence(ctx, s, sub)
    if not found:
        return -1
    if not isinstance(t, SStr):
        return h.length() + (len(sub) + t.rfind(sub) if sub in t else 0)
    more, h2, t2 = _occurrence(ctx, t, sub, last=True)
    if not more:
        return h.length()
    pre = h + sub + h2
    _remember(ctx, s, pre, sub, t2)
    return Len(pre)


def _same_int(a, b):
    d = z3.simplify(_zi(a) - _zi(b))
    return z3.is_int_value(d) and d.as_long() == 0


def _zi(x):
    return x.t if hasattr(x, 't') else z3.IntVal(int(x))


def _hook_slice(ctx, s, lo, hi):
    """s[lo:hi] where a bound is the position of a known occurrence: answered from the decomposition."""
    for (term, pre, sep, post) in ctx.ghost.get('$splits', ()):
        if not term.eq(s.t):
            continue
        n_pre = Len(pre)
        if hi is None and lo is not None and _same_int(lo, n_pre + len(sep)):
            return post
        if hi is None and lo is not None and _same_int(lo, n_pre):
            return sep + post
        if hi is not None and _same_int(hi, n_pre) and (lo is None or isinstance(lo, int) and lo >= 0):
            if not lo:
                return pre
            if isinstance(pre, SStr):
                # pre[lo:] for a small literal lo: split off the first lo characters
                cache = ctx.ghost.setdefault('$drop', {})
                key = (pre.t.get_id(), lo)
                if key not in cache:
                    if ctx.branch(z3.Length(pre.t) >= lo, label='long-enough'):
                        a, b = ctx.fresh_str('first%d' % lo, pre.kind), ctx.fresh_str('rest', pre.kind)
                        ctx.assume(mk_bool(z3.And(pre.t == z3.Concat(a.t, b.t), z3.Length(a.t) == lo)))
                        cache[key] = (b, pre.t)
                    else:
                        cache[key] = ('' if pre.kind == 'str' else b'', pre.t)
                return cache[key][0]
            return pre[lo:]
    return NotImplemented


MAX_PIECES = 3


def _split_model(ctx, s, sep, maxsplit=-1):
    """s.split(sep) for at most MAX_PIECES pieces (harnesses assume the bound; beyond it the run stops as unreached)."""
    if not _literal(sep) or maxsplit != -1:
        raise Unreached('split with a symbolic separator or maxsplit')
    out, rest = [], s
    for _ in range(MAX_PIECES):
        if not isinstance(rest, SStr):
            return out + rest.split(sep)
        found, h, t = _occurrence(ctx, rest, sep)
        if not found:
            return out + [rest]
        out.append(h)
        rest = t
    if isinstance(rest, SStr) and ctx.branch(z3.Contains(rest.t, _s(sep)), label='more-pieces'):
        raise Unreached('split into more than %d pieces' % (MAX_PIECES + 1))
    return out + [rest]


_ASCII = None


def _case_axioms(s_t, r_t, f):
    """str.lower / str.upper keep ASCII text ASCII and of the same length (Unicode standard, Basic Latin block)."""
    global _ASCII
    if _ASCII is None:
        _ASCII = z3.Star(z3.Range(z3.StringVal(chr(0)), z3.StringVal(chr(127))))
    return [mk_bool(z3.Implies(z3.InRe(s_t, _ASCII), z3.And(z3.InRe(r_t, _ASCII), z3.Length(r_t) == z3.Length(s_t))))]


def _ascii_case_setup(reg, ex):
    _base_setup(reg, ex)
    ex.str_axioms['lower'] = _case_axioms
    ex.str_axioms['upper'] = _case_axioms


def _base_setup(reg, ex):
    reg.int_parser = int_model
    ex.codec_handler = latin1_codec
    ex.str_hooks = {'partition': _hook_partition, 'find': _hook_find, 'rfind': _hook_rfind, 'slice': _hook_slice}
    ex.split_handler = _split_model


# ---------------------------------------------------------------------------
# mappings with lazily decided optional entries


class _Thunk:
    def __init__(self, fn):
        self.fn = fn


@stubclass
class LazyMap:
    """A dict handed to the code under contract (WSGI environ, ASGI header dict, ASGI scope) whose OPTIONAL entries have a symbolic
    presence bit (and, with `later`, a value chosen on first read).  The exploration forks on an entry only when the subject -- or the
    specification -- asks for it, so every optional input varies in every harness at no cost where nothing reads it, and a change that
    starts reading one is explored with the entry present and absent.  Keys are literals (a symbolic key stops the run as unreached)."""

    def __init__(self, v):
        self.v = v
        self.pres, self.vals, self.known = {}, {}, {}

    def put(self, k, value, present=True):
        self.pres[k], self.vals[k] = present, value
        return self

    def later(self, k, fn, present=True):
        return self.put(k, _Thunk(fn), present)

    def _key(self, k):
        if isinstance(k, SStr):
            raise Unreached('lookup in an environ / header / scope mapping with a symbolic key')
        return k

    def has(self, k):
        k = self._key(k)
        if k not in self.pres:
            return False
        if k not in self.known:
            p = self.pres[k]
            self.known[k] = True if p is True else bool(p)  # forks here, once per path
        return self.known[k]

    def val(self, k):
        x = self.vals[k]
        if isinstance(x, _Thunk):
            x = self.vals[k] = x.fn()
        return x

    def extended(self, extra):
        """A second mapping with the same (shared, lazily decided) entries plus the always-present entries of `extra`."""
        m = LazyMap(self.v)
        m.pres, m.vals, m.known = dict(self.pres), dict(self.vals), self.known
        for k, val in extra.items():
            m.put(k, val)
        return m

    def clobber(self, mk):
        """Every entry gets a new value behind the request's back (presence unchanged)."""
        for k in list(self.vals):
            self.vals[k] = mk(k)

    # --- as the subject sees it
    def __pyvc_contains__(self, k):
        return self.has(k)

    def __pyvc_getitem__(self, k):
        if self.has(k):
            return self.val(k)
        throw(self.v, KeyError, k)

    def __pyvc_truth__(self):
        raise Unreached('truth value of an environ / header / scope mapping')

    def get(self, k, default=None):
        return self.val(k) if self.has(k) else default

    # --- as the specification sees it (plain python)
    __contains__ = has

    def __getitem__(self, k):
        if self.has(k):
            return self.val(k)
        raise KeyError(k)


class _SharedKnown:
    """The `known` decisions of a second view of the same mapping under translated keys (ASGI header dict <-> WSGI-style view)."""

    def __init__(self, other, back=lambda k: k[5:].replace('_', '-').lower().encode()):
        self.other, self.back = other, back

    def __contains__(self, k):
        return self.back(k) in self.other

    def __getitem__(self, k):
        return self.other[self.back(k)]

    def __setitem__(self, k, val):
        self.other[self.back(k)] = val


def wsgi_style_view(v, headers):
    """An ASGI header mapping in the vocabulary of the WSGI specifications (HTTP_* keys, latin-1 text): same entries, same presence bits."""
    if not isinstance(headers, LazyMap):
        return {env_key(k.decode()): as_text(b) for k, b in headers.items()}
    view = LazyMap(v)
    for k in headers.vals:
        view.put(env_key(k.decode()), as_text(headers.vals[k]), headers.pres[k])
    view.known = _SharedKnown(headers.known)
    return view


def lazy_map(v, fixed=(), optional=(), later=()):
    """fixed: (key, value) always present; optional: (key, presence-name, value); later: (key, presence-name or None, thunk deciding the
    value on first read from symbolic booleans -- never from v.choose, whose replay is positional).
    Symbolic mode: a LazyMap.  Concrete replay: the plain dict the counter-model describes."""
    if v.concrete:
        d = {}
        for k, val in fixed:
            d[k] = val
        for k, pname, val in optional:
            if v.bool(pname):
                d[k] = val
        for k, pname, fn in later:
            if pname is None or v.bool(pname):
                d[k] = fn()
        return d
    m = LazyMap(v)
    for k, val in fixed:
        m.put(k, val)
    for k, pname, val in optional:
        m.put(k, val, v.bool(pname))
    for k, pname, fn in later:
        m.later(k, fn, True if pname is None else v.bool(pname))
    return m


def clobber_map(v, m, mk):
    if isinstance(m, LazyMap):
        m.clobber(mk)
    else:
        for k in list(m):
            m[k] = mk(k)


# ---------------------------------------------------------------------------
# building requests

WSGI_FIELDS = dict(
    _cached_access_route=None, _cached_forwarded=None, _cached_forwarded_prefix=None, _cached_forwarded_uri=None, _cached_headers=None,
    _cached_headers_lower=None, _cached_prefix=None, _cached_relative_uri=None, _cached_uri=None, is_websocket=False, uri_template=None,
)


def wsgi_env(v, optional=(), always=()):
    """A WSGI environ: the keys in `always` are present, each key in `optional` is present or absent; values are arbitrary strings."""
    env = {}
    for k in always:
        env[k] = v.str(k)
    for k in optional:
        if v.choose(2, 'has-' + k):
            env[k] = v.str(k)
    return env


def wsgi_req(v, env, **fields):
    f = dict(WSGI_FIELDS)
    f.update(fields)
    return v.obj(WREQ, env=env, **f)


# ---------------------------------------------------------------------------
# content_length


def neg_literal(v, name):
    """A header value '-' 1*DIGIT, with the instance of the int() axiom for it: int('-' d) == -int(d)."""
    d = v.str(name)
    v.assume(is_digits(d))
    v.assume(digits_value(d) > 0)
    raw = '-' + d
    if isinstance(raw, SStr):
        v.assume(mk_bool(z3.And(PY_INT_OK(raw.t), PY_INT(raw.t) == -z3.StrToInt(d.t))))
    return raw, d


def spec_content_length(v, raw, out, neg_digits=None):
    """raw: header value or None.  Written from the statement / DESIGN.md C09 (2)."""
    Invalid = v.real('falcon:HTTPInvalidHeader')
    escape_only_400(v, out)
    if neg_digits is not None:
        v.check('negative-number-is-invalid-header-400', out.exc is not None and out.exc.isa(Invalid))
        v.cover('negative')
        return
    if raw is None or Len(raw) == 0:
        v.check('absent-or-empty-is-None', out.exc is None and out.value is None)
        v.cover('absent-or-empty')
        return
    if is_digits(raw):
        v.check('digits-yield-their-value', out.exc is None and out.value is not None and out.value == digits_value(raw))
        v.cover('digits')
        return
    if not py_int_ok(raw):
        v.check('not-a-number-is-invalid-header-400', out.exc is not None and out.exc.isa(Invalid))
        if out.exc is not None and out.exc.isa(Invalid):
            v.check('invalid-header-names-content-length', header_name_of(out.exc) == 'Content-Length')
        v.cover('not-a-number')
        return
    # lenient readings of int(): sign, surrounding blanks, underscores
    if out.exc is None:
        v.check('lenient-reading-is-never-negative', out.value is not None and out.value >= 0)
        v.cover('lenient')
    else:
        v.check('lenient-rejection-is-invalid-header-400', out.exc.isa(Invalid))


@harness(PROP, WREQ + '.content_length', setup=_base_setup)
def wsgi_content_length(v):
    if v.choose(2, 'minus-digits'):
        raw, d = neg_literal(v, 'digits')
        env = {'CONTENT_LENGTH': raw}
    else:
        d = None
        env = wsgi_env(v, optional=['CONTENT_LENGTH'])
    req = wsgi_req(v, env)
    out = v.call(req)
    spec_content_length(v, env.get('CONTENT_LENGTH'), out, d)


# ---------------------------------------------------------------------------
# range / range_unit


def range_wf(f, l):
    """The three RFC 9110 forms (also the precondition handed to C16)."""
    return Or(And(f >= 0, l >= f), And(f >= 0, l == -1), And(f < 0, l == -1))


def spec_range(v, raw, out):
    Invalid = v.real('falcon:HTTPInvalidHeader')
    escape_only_400(v, out)

    def rejected(clause):
        v.check(clause, out.exc is not None and out.exc.isa(Invalid))
        if out.exc is not None and out.exc.isa(Invalid):
            v.check('invalid-header-names-range', header_name_of(out.exc) == 'Range')

    if raw is None:
        v.check('missing-header-is-None', out.exc is None and out.value is None)
        v.cover('missing')
        return
    if out.exc is None:
        ok = out.value is not None and len(out.value) == 2
        v.check('result-is-a-pair', ok)
        if not ok:
            return
        v.check('result-is-one-of-the-three-rfc-forms', range_wf(out.value[0], out.value[1]))
    if not contains(raw, '='):
        rejected('unit-without-equals-rejected')
        v.cover('no-equals')
        return
    unit, _, spec = raw.partition('=')
    if contains(spec, ','):
        rejected('multiple-ranges-rejected')
        v.cover('comma')
        return
    if not contains(spec, '-'):
        rejected('range-without-dash-rejected')
        return
    first, _, last = spec.partition('-')
    has_f, has_l = Len(first) > 0, Len(last) > 0
    if Or(And(has_f, Not(py_int_ok(first))), And(has_l, Not(py_int_ok(last)))):
        rejected('non-numeric-offset-rejected')
        v.cover('non-numeric')
        return
    if not has_f and not has_l:
        rejected('missing-offsets-rejected')
        return
    if has_f and has_l:
        if is_digits(first) and is_digits(last):
            fv, lv = digits_value(first), digits_value(last)
            if fv <= lv:
                v.check('closed-range-value', out.exc is None and And(out.value[0] == fv, out.value[1] == lv))
                v.cover('closed')
            else:
                rejected('last-before-first-rejected')
                v.cover('inverted')
    elif has_f:
        if is_digits(first):
            v.check('open-range-value', out.exc is None and And(out.value[0] == digits_value(first), out.value[1] == -1))
            v.cover('open')
    else:
        if is_digits(last):
            lv = digits_value(last)
            if lv > 0:
                v.check('suffix-range-value', out.exc is None and And(out.value[0] == -lv, out.value[1] == -1))
                v.cover('suffix')
            else:
                rejected('zero-suffix-rejected')
                v.cover('zero-suffix')


@harness(PROP, WREQ + '.range', setup=_base_setup, inline=[WREQ + '.get_header'])
def wsgi_range(v):
    env = wsgi_env(v, optional=['HTTP_RANGE'])
    req = wsgi_req(v, env)
    out = v.call(req)
    spec_range(v, env.get('HTTP_RANGE'), out)


def spec_range_unit(v, raw, out):
    Invalid = v.real('falcon:HTTPInvalidHeader')
    escape_only_400(v, out)
    if raw is None:
        v.check('missing-header-is-None', out.exc is None and out.value is None)
        return
    if contains(raw, '='):
        v.check('unit-is-the-text-before-the-first-equals', out.exc is None and out.value is not None and out.value == raw.partition('=')[0])
        v.cover('unit')
    else:
        v.check('unit-without-equals-rejected', out.exc is not None and out.exc.isa(Invalid) and header_name_of(out.exc) == 'Range')
        v.cover('no-equals')


@harness(PROP, WREQ + '.range_unit', setup=_base_setup, inline=[WREQ + '.get_header'])
def wsgi_range_unit(v):
    env = wsgi_env(v, optional=['HTTP_RANGE'])
    req = wsgi_req(v, env)
    out = v.call(req)
    spec_range_unit(v, env.get('HTTP_RANGE'), out)


# ---------------------------------------------------------------------------
# opaque parsers: stand-ins that work in both modes (bound to the module-level name while the subject runs)


def throw(v, cls, *args):
    """Raise an exception of the interpreted program from a stub (both modes)."""
    if v.concrete:
        raise cls(*args)
    raise PyRaise(ExcVal(cls, args, real=cls(*args)))


@stubclass
class Opaque:
    """An object the contract only observes by identity (a datetime, a list of entity tags, ...)."""

    def __init__(self, what):
        self.what = what

    def __repr__(self):
        return '<%s>' % self.what


@stubclass
class Parser:
    """An opaque parser: every call is recorded; it returns one of `results` (fresh objects) or raises ValueError."""

    def __init__(self, v, label, results, may_raise=False):
        self.v, self.label, self.mk_results, self.may_raise = v, label, results, may_raise
        self.calls = []
        self.returned = []
        self.log = []
        self.raised = 0

    def __call__(self, *args, **kwargs):
        v = self.v
        self.calls.append((args, kwargs))
        n = len(self.mk_results) + (1 if self.may_raise else 0)
        k = v.choose(n, self.label + '-outcome')
        if k == len(self.mk_results):
            self.raised += 1
            self.log.append(('raised', None))
            throw(v, ValueError, '%s: malformed value' % self.label)
        r = self.mk_results[k]()
        self.returned.append(r)
        self.log.append(('returned', r))
        return r


class patched:
    """Rebind a module-level name of the (overlay) module while the subject runs: an opaque dependency."""

    def __init__(self, v, module, name, value):
        self.mod = v.real(module)
        self.name = name
        self.value = value

    def __enter__(self):
        self.saved = self.mod.__dict__[self.name]
        setattr(self.mod, self.name, self.value)
        return self.value

    def __exit__(self, *a):
        setattr(self.mod, self.name, self.saved)
        return False


def same_outcome(a, b):
    """Two outcomes are the same value (identity for objects, equality for str/int) or the same exception class."""
    if (a.exc is None) != (b.exc is None):
        return False
    if a.exc is not None:
        return a.exc.cls is b.exc.cls
    return same_value(a.value, b.value)


def same_value(x, y):
    if x is None or y is None:
        return x is None and y is None
    if isinstance(x, (SStr, str, bytes, int)) or isinstance(y, (SStr, str, bytes, int)) or hasattr(x, 't') or hasattr(y, 't'):
        return x == y
    if isinstance(x, (list, tuple)) and isinstance(y, (list, tuple)):
        return len(x) == len(y) and And(*[same_value(a, b) for a, b in zip(x, y)])
    return x is y


# ---------------------------------------------------------------------------
# get_header / get_header_as_int / get_header_as_datetime and the date properties


def norm_name(name):
    """WSGI environ spelling of a header name (PEP 3333): upper-cased, '-' -> '_'."""
    return name.upper().replace('-', '_')


@harness(PROP, WREQ + '.get_header', setup=_base_setup)
def wsgi_get_header(v):
    env = wsgi_env(v, optional=['HTTP_X_TOKEN', 'CONTENT_TYPE', 'CONTENT_LENGTH'])
    req = wsgi_req(v, env)
    name = v.str('name')
    required = bool(v.choose(2, 'required'))
    default = v.str('default') if v.choose(2, 'default-given') else None
    out = v.call(req, name, required=required, default=default)
    escape_only_400(v, out)
    norm = norm_name(name)
    key = 'HTTP_' + norm
    found = None
    for k in env:
        if k.startswith('HTTP_') and key == k:
            found = env[k]
            break
    if found is None:
        for k in ('CONTENT_TYPE', 'CONTENT_LENGTH'):
            if k in env and norm == k:
                found = env[k]
                v.cover('content-header')
                break
    if found is not None:
        v.check('present-header-returns-its-value', out.exc is None and out.value is not None and out.value == found)
        v.cover('present')
    elif required:
        v.check('missing-required-header-raises-missing-header-400', out.exc is not None and out.exc.isa(v.real('falcon:HTTPMissingHeader')))
        v.cover('missing-required')
    else:
        v.check('missing-optional-header-returns-the-default', out.exc is None and same_value(out.value, default))
        v.cover('missing-optional')


def _hook_replace_uf(ctx, s, old, new):
    """s.replace(old, new) as an uninterpreted function of s (sound abstraction: the clause below needs congruence only)."""
    if not (_literal(old) and isinstance(new, (str, bytes))):
        return NotImplemented
    f = z3.Function('str.replace[%s->%s]' % (_text(old), _text(new)), z3.StringSort(), z3.StringSort())
    return SStr(f(s.t), s.kind)


def _abstract_setup(reg, ex):
    _base_setup(reg, ex)
    ex.str_hooks = dict(ex.str_hooks, replace=_hook_replace_uf)


@harness(PROP, WREQ + '.get_header', name='wsgi_get_header_case_insensitive', setup=_abstract_setup)
def wsgi_get_header_case_insensitive(v):
    """get_header(name) depends on name only through name.upper().replace('-', '_')."""
    env = wsgi_env(v, optional=['HTTP_X_TOKEN', 'CONTENT_TYPE'])
    req = wsgi_req(v, env)
    n1, n2 = v.str('name1'), v.str('name2')
    v.assume(norm_name(n1) == norm_name(n2))
    required = bool(v.choose(2, 'required'))
    o1 = v.call(req, n1, required=required)
    o2 = v.call(req, n2, required=required)
    v.check('lookup-depends-on-the-name-only-through-its-uppercased-form', same_outcome(o1, o2))
    v.cover('two-spellings')


@harness(PROP, WREQ + '.get_header', name='wsgi_get_header_casings', setup=_base_setup)
def wsgi_get_header_casings(v):
    """Concrete spellings of one header name all find the same environ entry (replayable instance of the clause above)."""
    env = wsgi_env(v, always=['HTTP_X_TOKEN'])
    req = wsgi_req(v, env)
    name = v.one_of('spelling', 'X-Token', 'x-token', 'X-TOKEN', 'x-ToKeN', 'x_token')
    out = v.call(req, name, required=True)
    v.check('any-casing-of-the-name-finds-the-header', out.exc is None and out.value == env['HTTP_X_TOKEN'])


@harness(PROP, WREQ + '.get_header_as_int', setup=_base_setup, inline=[WREQ + '.get_header'])
def wsgi_get_header_as_int(v):
    env = wsgi_env(v, optional=['HTTP_X_COUNT'])
    req = wsgi_req(v, env)
    required = bool(v.choose(2, 'required'))
    out = v.call(req, 'X-Count', required=required)
    raw = env.get('HTTP_X_COUNT')
    escape_only_400(v, out)
    if raw is None:
        if required:
            v.check('missing-required-header-raises-missing-header-400', out.exc is not None and out.exc.isa(v.real('falcon:HTTPMissingHeader')))
        else:
            v.check('missing-optional-header-is-None', out.exc is None and out.value is None)
        return
    if is_digits(raw):
        v.check('digits-yield-their-value', out.exc is None and out.value is not None and out.value == digits_value(raw))
        v.cover('digits')
    elif not py_int_ok(raw):
        ok = out.exc is not None and out.exc.isa(v.real('falcon:HTTPInvalidHeader'))
        v.check('not-a-number-is-invalid-header-400', ok)
        if ok:
            v.check('invalid-header-names-the-header', header_name_of(out.exc) == 'X-Count')
        v.cover('not-a-number')
    else:
        v.check('lenient-reading-is-an-int', out.exc is None and out.value is not None)


def date_parser(v, may_raise=True):
    return Parser(v, 'http_date_to_dt', [lambda: Opaque('datetime')], may_raise=may_raise)


def spec_datetime(v, raw, required, parser, out, header, obs_date=False):
    escape_only_400(v, out)
    if raw is None:
        v.check('missing-header-never-reaches-the-date-parser', len(parser.calls) == 0)
        if required:
            v.check('missing-required-header-raises-missing-header-400', out.exc is not None and out.exc.isa(v.real('falcon:HTTPMissingHeader')))
        else:
            v.check('missing-optional-header-is-None', out.exc is None and out.value is None)
        v.cover('missing')
        return
    ok = len(parser.calls) == 1
    v.check('date-parser-called-exactly-once', ok)
    if not ok:
        return
    args, kwargs = parser.calls[0]
    v.check('date-parser-receives-the-header-value', len(args) == 1 and args[0] == raw and kwargs == {'obs_date': obs_date})
    if parser.raised:
        good = out.exc is not None and out.exc.isa(v.real('falcon:HTTPInvalidHeader'))
        v.check('unparseable-date-is-invalid-header-400', good)
        if good:
            v.check('invalid-header-names-the-header', header_name_of(out.exc) == header)
        v.cover('unparseable')
    else:
        v.check('parsed-date-returned', out.exc is None and out.value is parser.returned[0])
        v.cover('parsed')


@harness(PROP, WREQ + '.get_header_as_datetime', setup=_base_setup, inline=[WREQ + '.get_header'])
def wsgi_get_header_as_datetime(v):
    env = wsgi_env(v, optional=['HTTP_X_WHEN'])
    req = wsgi_req(v, env)
    required = bool(v.choose(2, 'required'))
    obs = bool(v.choose(2, 'obs_date'))
    parser = date_parser(v)
    with patched(v, 'falcon.util', 'http_date_to_dt', parser):
        out = v.call(req, 'X-When', required=required, obs_date=obs)
    spec_datetime(v, env.get('HTTP_X_WHEN'), required, parser, out, 'X-When', obs)


def _date_property(header, key):
    def h(v):
        env = wsgi_env(v, optional=[key])
        req = wsgi_req(v, env)
        parser = date_parser(v)
        with patched(v, 'falcon.util', 'http_date_to_dt', parser):
            out = v.call(req)
        spec_datetime(v, env.get(key), False, parser, out, header)

    return h


for _prop, _hdr, _key in (('date', 'Date', 'HTTP_DATE'), ('if_modified_since', 'If-Modified-Since', 'HTTP_IF_MODIFIED_SINCE'),
                          ('if_unmodified_since', 'If-Unmodified-Since', 'HTTP_IF_UNMODIFIED_SINCE')):
    harness(PROP, WREQ + '.' + _prop, name='wsgi_' + _prop, setup=_base_setup, inline=[WREQ + '.get_header', WREQ + '.get_header_as_datetime'])(_date_property(_hdr, _key))


# --- falcon.util.misc.http_date_to_dt around strptime --------------------------------------------------

MISC = 'falcon.util.misc'
IMF_FIXDATE = '%a, %d %b %Y %H:%M:%S GMT'
OBS_FORMATS = ['%a, %d %b %Y %H:%M:%S %Z', '%a, %d-%b-%Y %H:%M:%S %Z', '%A, %d-%b-%y %H:%M:%S %Z', '%a %b %d %H:%M:%S %Y']


@stubclass
class NaiveDT:
    """What strptime returns: a naive datetime; replace(tzinfo=...) makes an aware copy."""

    def __init__(self, fmt, tz=None):
        self.fmt, self.tz = fmt, tz

    def replace(self, **kw):
        assert list(kw) == ['tzinfo']
        return NaiveDT(self.fmt, kw['tzinfo'])


@stubclass
class Strptime:
    """datetime.strptime: a datetime, or ValueError when the text does not match the format (library reference)."""

    def __init__(self, v):
        self.v = v
        self.calls = []

    def __call__(self, text, fmt):
        self.calls.append((text, fmt))
        if self.v.choose(2, 'strptime-matches') == 0:
            throw(self.v, ValueError, 'time data does not match format')
        return NaiveDT(fmt)


@harness(PROP, MISC + ':http_date_to_dt', setup=_base_setup)
def http_date_to_dt(v):
    import datetime

    text = v.str('http_date')
    obs = bool(v.choose(2, 'obs_date'))
    sp = Strptime(v)
    with patched(v, MISC, '_strptime', sp):
        out = v.call(text, obs_date=obs)
    v.check('only-ValueError-escapes', out.exc is None or out.exc.isa(ValueError))
    formats = OBS_FORMATS if obs else [IMF_FIXDATE]
    n = len(sp.calls)
    v.check('formats-tried-in-order-until-the-first-match', [c[1] for c in sp.calls] == formats[:n] and all(c[0] is text or c[0] == text for c in sp.calls))
    if out.exc is None:
        v.check('result-is-the-first-match-made-utc-aware', isinstance(out.value, NaiveDT) and out.value.fmt == sp.calls[-1][1] and out.value.tz is datetime.timezone.utc)
        v.cover('parsed')
    else:
        v.check('ValueError-only-after-every-format-failed', n == len(formats))
        v.cover('no-format-matches')


# ---------------------------------------------------------------------------
# memoised parser-backed properties: if_match / if_none_match, cookies / get_cookie_values, forwarded

HELPERS = 'falcon.request_helpers'


def clobber(v, env, keys):
    """The environ changes behind the request's back: a memoised property must not notice."""
    for k in keys:
        env[k] = v.str(k + '_later')


def _etag_property(key, field):
    def h(v):
        UNSET = v.real('falcon._typing:_UNSET')
        env = wsgi_env(v, optional=[key])
        req = wsgi_req(v, env)
        raw = env.get(key)
        # _parse_etags: a list of entity tags, or None for a value holding only blanks and commas; it never raises (ASSUMPTIONS)
        parser = Parser(v, '_parse_etags', [lambda: [Opaque('etag')], lambda: None])
        with patched(v, HELPERS, '_parse_etags', parser):
            out = v.call(req)
            escape_only_400(v, out)
            if raw is None or Len(raw) == 0:
                v.check('absent-or-empty-is-None', out.exc is None and out.value is None)
                v.check('absent-or-empty-never-reaches-the-etag-parser', len(parser.calls) == 0)
                v.cover('absent-or-empty')
            else:
                ok = len(parser.calls) == 1
                v.check('etag-parser-called-exactly-once-with-the-header-value', ok and len(parser.calls[0][0]) == 1 and parser.calls[0][0][0] == raw)
                if not ok:
                    return
                v.check('parsed-entity-tags-returned', out.exc is None and out.value is parser.returned[0])
                v.cover('parsed')
            n1 = len(parser.calls)
            v.check('result-cached', field_of(v, req, field) is not UNSET and field_of(v, req, field) is out.value)
            clobber(v, env, [key])
            again = v.call(req)
            v.check('second-access-returns-the-identical-value', again.exc is None and again.value is out.value)
            v.check('second-access-does-not-parse-again', len(parser.calls) == n1)

    return h


harness(PROP, WREQ + '.if_match', name='wsgi_if_match', setup=_base_setup)(_etag_property('HTTP_IF_MATCH', '_cached_if_match'))
harness(PROP, WREQ + '.if_none_match', name='wsgi_if_none_match', setup=_base_setup)(_etag_property('HTTP_IF_NONE_MATCH', '_cached_if_none_match'))


def cookie_jar(v):
    """What _parse_cookie_header returns: name -> non-empty list of values, in header order (ASSUMPTIONS)."""
    k = v.choose(3, 'jar-shape')
    if k == 0:
        return {}
    if k == 1:
        return {'sid': [v.str('sid_1')]}
    return {'sid': [v.str('sid_1'), v.str('sid_2')], 'theme': [v.str('theme_1')]}


def cookie_parser(v):
    return Parser(v, '_parse_cookie_header', [lambda: cookie_jar(v)])


def dict_eq(got, want):
    if not isinstance(got, dict) or sorted(got) != sorted(want):
        return False
    return And(*[got[k] == want[k] for k in want])


@harness(PROP, WREQ + '.cookies', setup=_base_setup, inline=[WREQ + '.get_header', WREQ + '.get_cookie_values'])
def wsgi_cookies(v):
    env = wsgi_env(v, optional=['HTTP_COOKIE'])
    req = wsgi_req(v, env)
    raw = env.get('HTTP_COOKIE')
    parser = cookie_parser(v)
    with patched(v, HELPERS, '_parse_cookie_header', parser):
        out = v.call(req)
        escape_only_400(v, out)
        if out.exc is not None:
            return
        if raw is None or Len(raw) == 0:
            v.check('absent-or-empty-cookie-header-is-an-empty-mapping', isinstance(out.value, dict) and len(out.value) == 0 and len(parser.calls) == 0)
            jar = {}
            v.cover('no-cookies')
        else:
            ok = len(parser.calls) == 1 and len(parser.calls[0][0]) == 1
            v.check('cookie-parser-called-exactly-once-with-the-header-value', ok and parser.calls[0][0][0] == raw)
            if not ok:
                return
            jar = parser.returned[0]
            v.check('each-cookie-maps-to-its-first-value', dict_eq(out.value, {n: vals[0] for n, vals in jar.items()}))
            v.cover('cookies')
        n1 = len(parser.calls)
        clobber(v, env, ['HTTP_COOKIE'])
        again = v.call(req)
        v.check('second-access-returns-the-identical-mapping', again.exc is None and again.value is out.value)
        name = v.one_of('cookie-name', 'sid', 'theme', 'absent')
        vals = v.call(req, name, target=WREQ + '.get_cookie_values')
        v.check('all-values-of-a-cookie-in-header-order-or-None', vals.exc is None and ((vals.value is jar[name]) if name in jar else vals.value is None))
        v.check('later-accesses-do-not-parse-again', len(parser.calls) == n1)


@harness(PROP, WREQ + '.get_cookie_values', setup=_base_setup, inline=[WREQ + '.get_header', WREQ + '.cookies'])
def wsgi_get_cookie_values(v):
    """get_cookie_values first, cookies second: one parse serves both."""
    env = wsgi_env(v, optional=['HTTP_COOKIE'])
    req = wsgi_req(v, env)
    raw = env.get('HTTP_COOKIE')
    parser = cookie_parser(v)
    name = v.one_of('cookie-name', 'sid', 'absent')
    with patched(v, HELPERS, '_parse_cookie_header', parser):
        out = v.call(req, name)
        escape_only_400(v, out)
        if out.exc is not None:
            return
        if raw is None or Len(raw) == 0:
            v.check('absent-or-empty-cookie-header-has-no-values', out.value is None and len(parser.calls) == 0)
            jar = {}
        else:
            ok = len(parser.calls) == 1 and len(parser.calls[0][0]) == 1
            v.check('cookie-parser-called-exactly-once-with-the-header-value', ok and parser.calls[0][0][0] == raw)
            if not ok:
                return
            jar = parser.returned[0]
            v.check('all-values-of-a-cookie-in-header-order-or-None', (out.value is jar[name]) if name in jar else out.value is None)
            v.cover('values')
        n1 = len(parser.calls)
        clobber(v, env, ['HTTP_COOKIE'])
        again = v.call(req, name)
        v.check('second-access-returns-the-identical-value', again.exc is None and again.value is out.value)
        c = v.call(req, target=WREQ + '.cookies')
        v.check('cookies-after-get_cookie_values-uses-the-same-parse', c.exc is None and dict_eq(c.value, {n: vals[0] for n, vals in jar.items()}))
        v.check('later-accesses-do-not-parse-again', len(parser.calls) == n1)


# --- Forwarded -------------------------------------------------------------------------------------------


def hop(v, i, fields=('src', 'host', 'scheme')):
    """One forwarded-element as _parse_forwarded_header produces it: each parameter absent (None) or any string."""
    vals = {}
    for f in ('src', 'dest', 'host', 'scheme'):
        vals[f] = v.str('hop%d_%s' % (i, f)) if f in fields and v.choose(2, 'hop%d-has-%s' % (i, f)) else None
    return v.obj('falcon.forwarded:Forwarded', **vals)


def forwarded_parser(v, max_hops=2, fields=('src', 'host', 'scheme')):
    def mk():
        n = v.choose(max_hops + 1, 'hops')
        return [hop(v, i, fields) for i in range(n)]

    return Parser(v, '_parse_forwarded_header', [mk])


@harness(PROP, WREQ + '.forwarded', setup=_base_setup, inline=[WREQ + '.get_header'])
def wsgi_forwarded(v):
    env = wsgi_env(v, optional=['HTTP_FORWARDED'])
    req = wsgi_req(v, env)
    raw = env.get('HTTP_FORWARDED')
    parser = forwarded_parser(v, max_hops=1, fields=())
    with patched(v, WM, '_parse_forwarded_header', parser):
        out = v.call(req)
        escape_only_400(v, out)
        if raw is None:
            v.check('missing-header-is-None', out.exc is None and out.value is None and len(parser.calls) == 0)
            v.cover('missing')
            return
        ok = len(parser.calls) == 1 and len(parser.calls[0][0]) == 1
        v.check('forwarded-parser-called-exactly-once-with-the-header-value', ok and parser.calls[0][0][0] == raw)
        if not ok:
            return
        v.check('parsed-elements-returned', out.exc is None and out.value is parser.returned[0])
        v.check('result-cached', field_of(v, req, '_cached_forwarded') is out.value)
        clobber(v, env, ['HTTP_FORWARDED'])
        again = v.call(req)
        v.check('second-access-returns-the-identical-list', again.exc is None and again.value is out.value)
        v.check('second-access-does-not-parse-again', len(parser.calls) == 1)
        v.cover('parsed')


# ---------------------------------------------------------------------------
# host / port / netloc / subdomain / scheme

PARSE_HOST = 'falcon.util.uri:parse_host'
SERVER_KEYS = ['SERVER_NAME', 'SERVER_PORT']


def server_env(v, optional=(), host_value=NotImplemented):
    """PEP 3333: SERVER_NAME, SERVER_PORT (decimal digits) and wsgi.url_scheme ('http' or 'https') are always present."""
    env = {'wsgi.url_scheme': v.one_of('scheme', 'http', 'https')}
    env['SERVER_NAME'] = v.str('SERVER_NAME')
    env['SERVER_PORT'] = v.str('SERVER_PORT')
    v.assume(is_digits(env['SERVER_PORT']))
    if host_value is not NotImplemented:
        if host_value is not None:
            env['HTTP_HOST'] = host_value
    elif v.choose(2, 'has-HTTP_HOST'):
        env['HTTP_HOST'] = v.str('HTTP_HOST')
    for k in optional:
        if v.choose(2, 'has-' + k):
            env[k] = v.str(k)
    return env


def default_port(env):
    return Ite(env['wsgi.url_scheme'] == 'http', 80, 443)


def host_header(v):
    """The Host header: absent, or any string at all."""
    if v.choose(2, 'has-HTTP_HOST') == 0:
        return None
    return v.str('HTTP_HOST')


def spec_host_port(v, env, out, what):
    """`what` is 'host' or 'port'.  RFC 3986 authority reading (host [":" port]) of the Host header, PEP 3333 SERVER_* otherwise."""
    dflt = lambda: default_port(env)  # consulted only by the sentences that speak of a default port
    raw = env.get('HTTP_HOST')
    # the same sentence, named apart for Host values whose port is not a number (so that a finding there suppresses only itself)
    escape_only_400(v, out, NON_NUMERIC_PORT if has_non_numeric_port(raw) else 'escape-only-400-class')

    def expect(clause, host, port):
        want = host if what == 'host' else (port() if callable(port) else port)
        v.check(clause, out.exc is None and out.value is not None and out.value == want)

    if raw is None:
        expect('without-host-header-the-server-name-and-port-are-used', env['SERVER_NAME'],
               lambda: env['$SERVER_PORT_INT'] if '$SERVER_PORT_INT' in env else digits_value(env['SERVER_PORT']))
        v.cover('no-host-header')
        return
    if raw.startswith('['):
        # IP-literal: the address is the text between the leading '[' and the last ']:' (or the final character), the port follows ']:'
        if contains(raw, ']:'):
            pos = raw.rfind(']:')
            port = raw[pos + 2:]
            if is_digits(port):
                expect('bracketed-literal-with-port-splits-into-address-and-port', raw[1:pos], digits_value(port))
                v.cover('literal-port')
        else:
            expect('bracketed-literal-without-port-gets-the-scheme-default-port', raw[1:-1], dflt)
            v.cover('literal')
        return
    name, sep, rest = raw.partition(':')
    if not sep:
        expect('host-without-port-gets-the-scheme-default-port', raw, dflt)
        v.cover('bare')
    elif contains(rest, ':'):
        if out.exc is None:
            expect('several-colons-without-brackets-read-leniently-as-a-bare-address', raw, dflt)
    elif is_digits(rest):
        expect('name-colon-digits-splits-into-host-and-port', name, digits_value(rest))
        v.cover('name-port')


@harness(PROP, WREQ + '.host', setup=_base_setup, inline=[PARSE_HOST])
def wsgi_host(v):
    env = server_env(v, host_value=host_header(v))
    req = wsgi_req(v, env)
    out = v.call(req)
    spec_host_port(v, env, out, 'host')


@harness(PROP, WREQ + '.port', setup=_base_setup, inline=[PARSE_HOST])
def wsgi_port(v):
    env = server_env(v, host_value=host_header(v))
    req = wsgi_req(v, env)
    out = v.call(req)
    spec_host_port(v, env, out, 'port')


def spec_netloc(env):
    """Expected netloc: the Host header verbatim, else SERVER_NAME with ':' SERVER_PORT unless that is the scheme's default port."""
    if 'HTTP_HOST' in env:
        return env['HTTP_HOST']
    dflt = '80' if env['wsgi.url_scheme'] == 'http' else '443'
    port = env['SERVER_PORT']
    return Ite(port == dflt, env['SERVER_NAME'], env['SERVER_NAME'] + ':' + port)


@harness(PROP, WREQ + '.netloc', setup=_base_setup, inline=[WREQ + '.scheme'])
def wsgi_netloc(v):
    env = server_env(v)
    req = wsgi_req(v, env)
    out = v.call(req)
    escape_only_400(v, out)
    if out.exc is not None:
        return
    if 'HTTP_HOST' in env:
        v.check('host-header-is-the-netloc-verbatim', out.value == env['HTTP_HOST'])
        return
    dflt = '80' if env['wsgi.url_scheme'] == 'http' else '443'
    port = env['SERVER_PORT']
    v.check('port-omitted-iff-it-is-the-default-of-the-scheme', out.value == Ite(port == dflt, env['SERVER_NAME'], env['SERVER_NAME'] + ':' + port))
    v.cover('server-name')


@harness(PROP, WREQ + '.scheme', setup=_base_setup)
def wsgi_scheme(v):
    env = server_env(v)
    req = wsgi_req(v, env)
    out = v.call(req)
    v.check('scheme-is-the-wsgi-url-scheme', out.exc is None and out.value == env['wsgi.url_scheme'])


@harness(PROP, WREQ + '.subdomain', setup=_base_setup, inline=[PARSE_HOST, WREQ + '.host'])
def wsgi_subdomain(v):
    """subdomain is a function of req.host: the label before the first '.', None for a single label."""
    env = server_env(v)
    req = wsgi_req(v, env)
    h = v.call(req, target=WREQ + '.host')
    out = v.call(req)
    escape_only_400(v, out, NON_NUMERIC_PORT if has_non_numeric_port(env.get('HTTP_HOST')) else 'escape-only-400-class')
    if h.exc is not None:
        v.check('host-failure-propagates-unchanged', out.exc is not None and out.exc.cls is h.exc.cls)
        return
    if contains(h.value, '.'):
        v.check('subdomain-is-the-label-before-the-first-dot', out.exc is None and out.value is not None and out.value == h.value.partition('.')[0])
        v.cover('dotted')
    else:
        v.check('single-label-host-has-no-subdomain', out.exc is None and out.value is None)
        v.cover('single-label')


# ---------------------------------------------------------------------------
# forwarded_scheme / forwarded_host


def lower(x):
    return x.lower()


def spec_forwarded_scheme(env, hops):
    if 'HTTP_FORWARDED' in env:
        if hops and hops[0].scheme is not None and _nonempty(hops[0].scheme):
            return hops[0].scheme
        return env['wsgi.url_scheme']
    if 'HTTP_X_FORWARDED_PROTO' in env:
        return lower(env['HTTP_X_FORWARDED_PROTO'])
    return env['wsgi.url_scheme']


def _nonempty(x):
    """Harness-side fork on emptiness of a (possibly symbolic) string."""
    return bool(Len(x) > 0)


def spec_forwarded_host(env, hops):
    if 'HTTP_FORWARDED' in env:
        if hops and hops[0].host is not None and _nonempty(hops[0].host):
            return hops[0].host
        return spec_netloc(env)
    if 'HTTP_X_FORWARDED_HOST' in env:
        return env['HTTP_X_FORWARDED_HOST']
    return spec_netloc(env)


FWD_INLINE = [WREQ + '.get_header', WREQ + '.forwarded', WREQ + '.scheme', WREQ + '.netloc', WREQ + '.root_path', WREQ + '.relative_uri',
              WREQ + '.forwarded_scheme', WREQ + '.forwarded_host']


def hops_of(parser):
    return parser.returned[0] if parser.returned else []


@harness(PROP, WREQ + '.forwarded_scheme', setup=_base_setup, inline=FWD_INLINE)
def wsgi_forwarded_scheme(v):
    env = server_env(v, optional=['HTTP_FORWARDED', 'HTTP_X_FORWARDED_PROTO'], host_value=None)
    req = wsgi_req(v, env)
    parser = forwarded_parser(v, max_hops=2, fields=('scheme',))
    with patched(v, WM, '_parse_forwarded_header', parser):
        out = v.call(req)
    escape_only_400(v, out)
    v.check('first-hop-proto-then-x-forwarded-proto-then-own-scheme', out.exc is None and out.value == spec_forwarded_scheme(env, hops_of(parser)))
    v.cover('decided')


@harness(PROP, WREQ + '.forwarded_host', setup=_base_setup, inline=FWD_INLINE)
def wsgi_forwarded_host(v):
    env = server_env(v, optional=['HTTP_FORWARDED', 'HTTP_X_FORWARDED_HOST'])
    req = wsgi_req(v, env)
    parser = forwarded_parser(v, max_hops=2, fields=('host',))
    with patched(v, WM, '_parse_forwarded_header', parser):
        out = v.call(req)
    escape_only_400(v, out)
    v.check('first-hop-host-then-x-forwarded-host-then-own-netloc', out.exc is None and out.value == spec_forwarded_host(env, hops_of(parser)))
    v.cover('decided')


# ---------------------------------------------------------------------------
# URL composition with memoisation


def spec_relative(env, path, qs):
    root = env.get('SCRIPT_NAME', '')
    return Ite(Len(qs) > 0, root + path + '?' + qs, root + path)


# every subset of the three forwarding headers (scheme and host are decided independently: X-Forwarded-Proto without X-Forwarded-Host etc.)
URL_KEYS = [[k for i, k in enumerate(('HTTP_FORWARDED', 'HTTP_X_FORWARDED_PROTO', 'HTTP_X_FORWARDED_HOST')) if n >> i & 1] for n in range(8)]


def _url_property(prop, field, forwarded):
    def h(v):
        env = server_env(v, optional=['SCRIPT_NAME'])
        for k in (URL_KEYS[v.choose(8, 'forwarding-headers')] if forwarded else []):
            env[k] = v.str(k)
        path, qs = v.str('path'), v.str('query_string')
        req = wsgi_req(v, env, path=path, query_string=qs)
        parser = forwarded_parser(v, max_hops=1, fields=('host', 'scheme'))
        with patched(v, WM, '_parse_forwarded_header', parser):
            out = v.call(req)
            escape_only_400(v, out)
            if out.exc is not None:
                return
            hops = hops_of(parser)
            root = env.get('SCRIPT_NAME', '')
            scheme = spec_forwarded_scheme(env, hops) if forwarded else env['wsgi.url_scheme']
            netloc = spec_forwarded_host(env, hops) if forwarded else spec_netloc(env)
            if prop == 'relative_uri':
                want = spec_relative(env, path, qs)
            elif prop in ('uri', 'forwarded_uri'):
                want = scheme + '://' + netloc + spec_relative(env, path, qs)
            else:
                want = scheme + '://' + netloc + root
            v.check('value-is-the-concatenation-of-its-parts', out.value == want)
            v.check('result-cached', field_of(v, req, field) is not None and field_of(v, req, field) == out.value)
            n1 = len(parser.calls)
            # the request changes behind the cache's back: a memoised value must not be recomputed
            clobber(v, env, [k for k in list(env) if k != 'wsgi.url_scheme'])
            v.set(req, 'path', v.str('path_later'))
            v.set(req, 'query_string', v.str('query_string_later'))
            v.set(req, '_cached_forwarded', None)
            again = v.call(req)
            v.check('second-access-returns-the-first-value-without-recomputing', again.exc is None and again.value == out.value and len(parser.calls) == n1)
            v.cover('composed')

    return h


for _prop, _field, _fwd in (('uri', '_cached_uri', False), ('prefix', '_cached_prefix', False), ('relative_uri', '_cached_relative_uri', False),
                            ('forwarded_uri', '_cached_forwarded_uri', True), ('forwarded_prefix', '_cached_forwarded_prefix', True)):
    harness(PROP, WREQ + '.' + _prop, name='wsgi_' + _prop, setup=_base_setup, inline=FWD_INLINE)(_url_property(_prop, _field, _fwd))


@harness(PROP, WREQ + '.url', name='wsgi_url_alias')
def wsgi_url_alias(v):
    cls = v.real(WREQ)
    v.check('url-is-an-alias-of-uri', cls.__dict__['url'] is cls.__dict__['uri'])


# ---------------------------------------------------------------------------
# access_route


def bounded_split(v, s, sep, max_pieces):
    """s.split(sep), for values with at most max_pieces pieces (assumed: see ASSUMPTIONS)."""
    if not isinstance(s, SStr):
        parts = s.split(sep)
        v.assume(len(parts) <= max_pieces)
        return parts
    out, rest = [], s
    for _ in range(max_pieces - 1):
        if not contains(rest, sep):
            break
        h, _sep, rest = rest.partition(sep)
        out.append(h)
    v.assume(Not(contains(rest, sep)))
    return out + [rest]


def at_most_pieces(s, sep, max_pieces):
    """s.split(sep) has at most max_pieces pieces -- stated without forking (a regular constraint), so that it can be assumed of a header
    value whether or not anything reads the header on this path."""
    if not isinstance(s, SStr):
        return len(s.split(sep)) <= max_pieces
    c = ord(_text(sep))
    not_sep = z3.Star(z3.Union(*([z3.Range(z3.StringVal(chr(0)), z3.StringVal(chr(c - 1)))] if c > 0 else []) +
                               [z3.Range(z3.StringVal(chr(c + 1)), z3.StringVal(chr(0x2FFFF)))]))
    more = z3.Concat(z3.Re(_s(sep)), not_sep)
    return mk_bool(z3.InRe(s.t, z3.Concat(not_sep, *[z3.Option(more)] * (max_pieces - 1))))


def spec_node_host(src):
    """RFC 7239 node = nodename [":" node-port]: the nodename (brackets of an IPv6 literal removed); the port may be digits or obfuscated ("_x")."""
    if src.startswith('['):
        if contains(src, ']:'):
            return src[1:src.rfind(']:')]
        return src[1:-1]
    name, sep, rest = src.partition(':')
    if not sep or contains(rest, ':'):
        return src
    return name


ROUTE_KEYS = ['HTTP_FORWARDED', 'HTTP_X_FORWARDED_FOR', 'HTTP_X_REAL_IP', 'REMOTE_ADDR']


def spec_access_route(v, env, hops, remote, xff_pieces, drop_empty_remote=False):
    if 'HTTP_FORWARDED' in env:
        base = [spec_node_host(h.src) for h in hops if h.src is not None]
    elif 'HTTP_X_FORWARDED_FOR' in env:
        base = [p.strip() for p in xff_pieces]
    elif 'HTTP_X_REAL_IP' in env:
        base = [env['HTTP_X_REAL_IP']]
    else:
        base = []
    if not base:
        return [] if drop_empty_remote and not _nonempty(remote) else [remote]
    if base[-1] != remote:
        return base + [remote]
    return base


ROUTE_INLINE = [PARSE_HOST, WREQ + '.get_header', WREQ + '.forwarded', WREQ + '.remote_addr']


def route_env(v):
    """Which of the route headers are present (REMOTE_ADDR is optional in the environ too).  'route-source' names the header of highest
    priority that is present; each header of LOWER priority is independently present or absent (lazily: see LazyMap)."""
    src = v.choose(4, 'route-source')  # 0 Forwarded, 1 X-Forwarded-For, 2 X-Real-IP, 3 none of them
    fixed, optional = [], []
    for i, k in enumerate(ROUTE_KEYS[:3]):
        if i == src:
            fixed.append((k, v.str(k)))
        elif i > src:
            optional.append((k, 'has-' + k, v.str(k)))
    if v.choose(2, 'has-REMOTE_ADDR'):
        fixed.append(('REMOTE_ADDR', v.str('REMOTE_ADDR')))
    for k, val in fixed + [(k, val) for k, _p, val in optional]:
        if k == 'HTTP_X_FORWARDED_FOR':
            # bounded: at most MAX_PIECES comma-separated addresses in X-Forwarded-For (the comprehension treats every piece alike);
            # assumed of the value wherever the header may be present, not only where the unchanged code reads it
            v.assume(at_most_pieces(val, ',', MAX_PIECES))
    return lazy_map(v, fixed, optional)


def _bare_node(src):
    """A node name without port and without brackets (parse_host returns it unchanged)."""
    return And(Not(contains(src, ':')), Not(src.startswith('[')))


def route_hops(v):
    """Forwarded elements: none; one with any "for"; two with any "for" each.  The two-element case is partitioned by the
    label 'two-hops' so that variants (fix=) cover every combination of (absent | bare node name | node with port or brackets) x the same:
    0 = the second "for" is absent or bare, the first one is arbitrary; 1 = the second one has a port or brackets, the first one is absent
    or bare; 2 = both have a port or brackets."""
    def mk():
        n = v.choose(3, 'hops')
        hops = [hop(v, i, ('src',)) for i in range(n)]
        if n == 2:
            part = v.choose(3, 'two-hops')
            if part == 0:
                if hops[1].src is not None:
                    v.assume(_bare_node(hops[1].src))
            else:
                if hops[1].src is None or (part == 2 and hops[0].src is None):
                    v.cut()  # an absent "for" belongs to the other parts
                v.assume(Not(_bare_node(hops[1].src)))
                if part == 1:
                    if hops[0].src is not None:
                        v.assume(_bare_node(hops[0].src))
                else:
                    v.assume(Not(_bare_node(hops[0].src)))
                    v.assume(hops[0].src.startswith('[') if v.choose(2, 'first-hop-bracketed') else Not(hops[0].src.startswith('[')))
        return hops

    return Parser(v, '_parse_forwarded_header', [mk])


def _access_route(v, retry):
    env = route_env(v)
    req = wsgi_req(v, env)
    remote = env.get('REMOTE_ADDR', '127.0.0.1')
    parser = route_hops(v)
    xff = bounded_split(v, env['HTTP_X_FORWARDED_FOR'], ',', MAX_PIECES) if 'HTTP_FORWARDED' not in env and 'HTTP_X_FORWARDED_FOR' in env else None
    with patched(v, WM, '_parse_forwarded_header', parser):
        out = v.call(req)
        if retry:
            if out.exc is not None:
                again = v.call(req)
                v.check('failed-access-leaves-no-partial-route-cached', again.exc is not None and again.exc.cls is out.exc.cls)
            return
        bad = 'HTTP_FORWARDED' in env and any(has_non_numeric_port(h.src) for h in hops_of(parser))
        escape_only_400(v, out, NON_NUMERIC_PORT if bad else 'escape-only-400-class')
        n1 = len(parser.calls)
        if out.exc is not None:
            return
        want = spec_access_route(v, env, hops_of(parser), remote, xff)
        v.check('route-is-forwarded-then-x-forwarded-for-then-x-real-ip-then-remote-addr', same_value(list(out.value), want))
        v.check('route-ends-with-the-remote-address', len(out.value) >= 1 and out.value[-1] == remote)
        v.check('result-cached', field_of(v, req, '_cached_access_route') is out.value)
        clobber_map(v, env, lambda k: v.str(k + '_later'))
        v.set(req, '_cached_forwarded', None)
        again = v.call(req)
        v.check('second-access-returns-the-identical-list-without-recomputing', again.exc is None and again.value is out.value and len(parser.calls) == n1)
        v.cover('route')


for _src, _nm in ((1, 'x-forwarded-for'), (2, 'x-real-ip'), (3, 'remote-addr')):
    harness(PROP, WREQ + '.access_route', name='wsgi_access_route[%s]' % _nm, setup=_base_setup, inline=ROUTE_INLINE, fix={'route-source': _src})(
        lambda v: _access_route(v, False))
for _n in (0, 1):
    harness(PROP, WREQ + '.access_route', name='wsgi_access_route[forwarded,hops=%d]' % _n, setup=_base_setup, inline=ROUTE_INLINE,
            fix={'route-source': 0, 'hops': _n})(lambda v: _access_route(v, False))
# two elements: every combination of the shapes of the two "for" values, one variant each (lower-priority headers: lazily present);
# 'two-hops' = 2 (both with port / brackets: the expensive cross product of the parse_host cases) runs in the thorough tier only
for _part, _extra, _nm in ((0, {}, ''), (1, {'hop0-has-src': 0}, ',two-hops=1,first-absent'), (1, {'hop0-has-src': 1}, ',two-hops=1,first-bare'),
                           (2, {'first-hop-bracketed': 0}, ',two-hops=2,bracketed=0'), (2, {'first-hop-bracketed': 1}, ',two-hops=2,bracketed=1')):
    harness(PROP, WREQ + '.access_route', name='wsgi_access_route[forwarded,hops=2%s]' % _nm, setup=_base_setup, inline=ROUTE_INLINE,
            **({'tier': 'thorough'} if _part == 2 else {}), fix=dict({'route-source': 0, 'hops': 2, 'two-hops': _part}, **_extra))(
        lambda v: _access_route(v, False))
harness(PROP, WREQ + '.access_route', name='wsgi_access_route_retry', setup=_base_setup, inline=ROUTE_INLINE,
        fix={'route-source': 0, 'has-REMOTE_ADDR': 0, 'two-hops': 0})(lambda v: _access_route(v, True))


@harness(PROP, WREQ + '.remote_addr', setup=_base_setup)
def wsgi_remote_addr(v):
    env = wsgi_env(v, optional=['REMOTE_ADDR'])
    req = wsgi_req(v, env)
    out = v.call(req)
    v.check('remote-addr-is-the-server-supplied-address-or-loopback', out.exc is None and out.value == env.get('REMOTE_ADDR', '127.0.0.1'))


# ---------------------------------------------------------------------------
# accept checks

MEDIATYPES = 'falcon.util.mediatypes'


def quality_parser(v):
    """mediatypes.quality: a q-value in [0, 1], or ValueError for a malformed Accept header."""
    return Parser(v, 'quality', [lambda: 0.0, lambda: 1.0, lambda: 0.3], may_raise=True)


def spec_accepts(accept, media_type, parser, idx):
    """(expected answer, number of quality() calls consumed); from the documentation of client_accepts."""
    if accept == media_type or accept == '*/*':
        return True, 0
    if idx >= len(parser.log):
        return None, 0
    kind, q = parser.log[idx]
    return (kind == 'returned' and q != 0.0), 1


def accept_of(env):
    raw = env.get('HTTP_ACCEPT')
    if raw is None or not _nonempty(raw):
        return '*/*'
    return raw


@harness(PROP, WREQ + '.client_accepts', setup=_base_setup, inline=[WREQ + '.accept'])
def wsgi_client_accepts(v):
    env = wsgi_env(v, optional=['HTTP_ACCEPT'])
    req = wsgi_req(v, env)
    media_type = v.str('media_type')
    parser = quality_parser(v)
    with patched(v, MEDIATYPES, 'quality', parser):
        out = v.call(req, media_type)
    escape_only_400(v, out)
    accept = accept_of(env)
    want, used = spec_accepts(accept, media_type, parser, 0)
    v.check('exact-match-or-wildcard-else-nonzero-quality-else-false', out.exc is None and want is not None and out.value is want)
    v.check('quality-consulted-only-when-needed', len(parser.calls) == used)
    if used:
        a, k = parser.calls[0]
        v.check('quality-receives-media-type-and-accept-header', len(a) == 2 and a[0] == media_type and a[1] == accept)
        v.cover('parsed')


def _accepts_property(media_types):
    def h(v):
        env = wsgi_env(v, optional=['HTTP_ACCEPT'])
        req = wsgi_req(v, env)
        parser = quality_parser(v)
        with patched(v, MEDIATYPES, 'quality', parser):
            out = v.call(req)
        escape_only_400(v, out)
        accept = accept_of(env)
        idx, want = 0, False
        for mt in media_types:
            w, used = spec_accepts(accept, mt, parser, idx)
            idx += used
            if w:
                want = True
                break
        v.check('true-iff-the-client-accepts-the-media-type', out.exc is None and out.value is want)

    return h


for _prop, _mts in (('client_accepts_json', ['application/json']), ('client_accepts_xml', ['application/xml']),
                    ('client_accepts_msgpack', ['application/x-msgpack', 'application/msgpack'])):
    harness(PROP, WREQ + '.' + _prop, name='wsgi_' + _prop, setup=_base_setup, inline=[WREQ + '.accept', WREQ + '.client_accepts'])(_accepts_property(_mts))


# ---------------------------------------------------------------------------
# ASGI twins (falcon/asgi/request.py): headers are a dict bytes -> bytes with lower-cased names; values decode as latin-1

_BYTES_RE = None


def header_bytes(v, name):
    """A header value as the ASGI server delivers it: any byte string (code points 0..255)."""
    global _BYTES_RE
    b = v.bytes(name)
    if isinstance(b, SStr):
        if _BYTES_RE is None:
            _BYTES_RE = z3.Star(z3.Range(z3.StringVal(chr(0)), z3.StringVal(chr(255))))
        v.assume(mk_bool(z3.InRe(b.t, _BYTES_RE)))
    return b


def as_text(b):
    return SStr(b.t, 'str') if isinstance(b, SStr) else b.decode('latin-1')


def env_key(header):
    return 'HTTP_' + header.upper().replace('-', '_')


def asgi_headers(v, optional=(), always=()):
    """(headers, view): the ASGI header dict and the same request seen as a WSGI environ (what the shared specifications read)."""
    headers, view = {}, {}
    for h in list(always) + [h for h in optional if v.choose(2, 'has-' + h)]:
        b = header_bytes(v, h)
        headers[h.encode()] = b
        view['CONTENT_LENGTH' if h == 'content-length' else env_key(h)] = as_text(b)
    return headers, view


def asgi_headers_lazy(v, optional=(), always=()):
    """As asgi_headers, but every optional header is lazily present (LazyMap): independent of each other, forking only where read."""
    fixed = [(h.encode(), header_bytes(v, h)) for h in always]
    opt = [(h.encode(), 'has-' + h, header_bytes(v, h)) for h in optional]
    headers = lazy_map(v, fixed, opt)
    return headers, wsgi_style_view(v, headers)


def asgi_scope(v, server=True, client=True, scheme=True):
    """The connection scope as far as the accessors read it (ASGI HTTP spec: scheme, server, client, root_path are optional).
    The scheme (any of the four the ASGI spec names) and the server port (any port number) are symbolic: the exploration forks
    on them only where the code under contract reads them."""
    # every optional entry is lazily present (LazyMap): scheme, server (None or a pair), client, root_path vary in every harness that
    # takes its scope from here, and fork the exploration only where something reads them
    name, port, srv_none = v.str('server_name'), v.int('server_port', 0, 65535), v.bool('scope-server-is-None')
    optional = [('scheme', 'scope-has-scheme', scheme_value(v))] if scheme else []
    optional.append(('root_path', 'scope-has-root_path', v.str('root_path')))
    if client:
        optional.append(('client', 'scope-has-client', (v.str('client_addr'), 50000)))
    later = [('server', 'scope-has-server', lambda: None if bool(srv_none) else (name, port))] if server else []
    return lazy_map(v, [('type', 'http')], optional, later)


def scheme_value(v):
    s = v.str('scheme')
    v.assume(Or(s == 'http', s == 'https', s == 'ws', s == 'wss'))
    return s


def ws_flag(v):
    """Request.is_websocket (set by __init__ from scope['type']): read by `scheme` when the scope carries no scheme.  Symbolic, so that
    every accessor is checked for both kinds of connection without forking where the flag is not read."""
    return v.bool('is_websocket')


def asgi_req(v, headers, scope=None, **fields):
    f = dict(uri_template=None)
    f.update(fields)
    if 'is_websocket' not in f:
        f['is_websocket'] = ws_flag(v)  # never read by the header accessors; symbolic so that a change that starts reading it is explored both ways
    return v.obj(AREQ, _asgi_headers=headers, scope=scope if scope is not None else {'type': 'http'}, **f)


def a_scheme(scope, is_websocket=False):
    if 'scheme' in scope:
        return scope['scheme']
    return Ite(is_websocket, 'ws', 'http')


def a_secure(scope, is_websocket=False):
    s = a_scheme(scope, is_websocket)
    return Or(s == 'https', s == 'wss')


def a_default_port(scope, is_websocket=False):
    return Ite(a_secure(scope, is_websocket), 443, 80)


def a_server(scope, is_websocket=False):
    srv = scope.get('server')
    return tuple(srv) if srv is not None else ('localhost', a_default_port(scope, is_websocket))


def int_text(n):
    """str(n) for a non-negative int (spec side)."""
    if hasattr(n, 't'):
        return mk_str(z3.IntToStr(n.t), 'str')
    return str(n)


def a_netloc(view, scope, is_websocket=False):
    if 'HTTP_HOST' in view:
        return view['HTTP_HOST']
    name, port = a_server(scope, is_websocket)
    return Ite(port == a_default_port(scope, is_websocket), name, name + ':' + int_text(port))


def wsgi_view(view, scope, is_websocket=False):
    """The ASGI request in the vocabulary of the WSGI specifications above."""
    if isinstance(scope, LazyMap):
        # the scope is consulted only when a specification reads one of these entries (a lazily decided scope stays undecided otherwise)
        extra = {'wsgi.url_scheme': _Thunk(lambda: a_scheme(scope, is_websocket)), 'SERVER_NAME': _Thunk(lambda: a_server(scope, is_websocket)[0]),
                 'SERVER_PORT': _Thunk(lambda: int_text(a_server(scope, is_websocket)[1])), '$SERVER_PORT_INT': _Thunk(lambda: a_server(scope, is_websocket)[1])}
        base = view if isinstance(view, LazyMap) else LazyMap(view_v(scope)).extended(view)
        return base.extended(extra)
    name, port = a_server(scope, is_websocket)
    env = dict(view)
    env.update({'wsgi.url_scheme': a_scheme(scope, is_websocket), 'SERVER_NAME': name, 'SERVER_PORT': int_text(port), '$SERVER_PORT_INT': port})
    return env


def view_v(m):
    return m.v


AGET = AREQ + '.get_header'


@stubclass
class NameCache:
    """The process-wide name cache of asgi get_header in an arbitrary state satisfying its invariant cache[n] == n.lower().encode('latin1')."""

    def __init__(self, v):
        self.v = v
        self.stored = []

    def __pyvc_getitem__(self, name):
        if self.v.choose(2, 'name-cache-hit'):
            return name.lower().encode('latin1')
        throw(self.v, KeyError, 'name')

    def __pyvc_setitem__(self, name, value):
        self.v.check('name-cache-entry-is-the-lowercased-latin1-name', value == name.lower().encode('latin1'))
        self.stored.append(name)

    def __pyvc_len__(self):
        return self.v.int('name_cache_size', 0)


def name_cache(v, name):
    if not v.concrete:
        return NameCache(v)
    return {name: name.lower().encode('latin1')} if v.choose(2, 'name-cache-hit') else {}


def latin1_name(v, base):
    name = v.str(base)
    if isinstance(name, SStr):
        v.assume(mk_bool(z3.InRe(name.t, z3.Star(z3.Range(z3.StringVal(chr(0)), z3.StringVal(chr(127)))))))
    else:
        v.assume(all(ord(c) < 128 for c in name))
    return name


@harness(PROP, AGET, name='asgi_get_header', setup=_ascii_case_setup)
def asgi_get_header(v):
    headers, view = asgi_headers(v, optional=['x-token', 'content-type'])
    req = asgi_req(v, headers)
    name = latin1_name(v, 'name')  # header names are ASCII tokens (RFC 9110); the name is chosen by the application
    required = bool(v.choose(2, 'required'))
    default = v.str('default') if v.choose(2, 'default-given') else None
    out = v.call(req, name, required=required, default=default, _name_cache=name_cache(v, name))
    escape_only_400(v, out)
    key = name.lower().encode('latin1')
    found = None
    for k in headers:
        if key == k:
            found = as_text(headers[k])
            break
    if found is not None:
        v.check('present-header-returns-its-value', out.exc is None and out.value is not None and out.value == found)
        v.cover('present')
    elif required:
        v.check('missing-required-header-raises-missing-header-400', out.exc is not None and out.exc.isa(v.real('falcon:HTTPMissingHeader')))
        v.cover('missing-required')
    else:
        v.check('missing-optional-header-returns-the-default', out.exc is None and same_value(out.value, default))
        v.cover('missing-optional')


@harness(PROP, AGET, name='asgi_get_header_case_insensitive', setup=_ascii_case_setup)
def asgi_get_header_case_insensitive(v):
    headers, view = asgi_headers(v, optional=['x-token', 'content-type'])
    req = asgi_req(v, headers)
    n1, n2 = latin1_name(v, 'name1'), latin1_name(v, 'name2')
    v.assume(n1.lower() == n2.lower())
    required = bool(v.choose(2, 'required'))
    o1 = v.call(req, n1, required=required, _name_cache=name_cache(v, n1))
    o2 = v.call(req, n2, required=required, _name_cache=name_cache(v, n2))
    v.check('lookup-depends-on-the-name-only-through-its-lowercased-form', same_outcome(o1, o2))
    v.cover('two-spellings')


@harness(PROP, AGET, name='asgi_get_header_casings', setup=_base_setup)
def asgi_get_header_casings(v):
    headers, view = asgi_headers(v, always=['x-token'])
    req = asgi_req(v, headers)
    name = v.one_of('spelling', 'X-Token', 'x-token', 'X-TOKEN', 'x-ToKeN')
    out = v.call(req, name, required=True)
    v.check('any-casing-of-the-name-finds-the-header', out.exc is None and out.value == view['HTTP_X_TOKEN'])


@harness(PROP, AREQ + '.content_length', name='asgi_content_length', setup=_base_setup)
def asgi_content_length(v):
    if v.choose(2, 'minus-digits'):
        d = header_bytes(v, 'digits')
        v.assume(is_digits(d))
        v.assume(digits_value(d) > 0)
        raw = b'-' + d
        if isinstance(raw, SStr):
            v.assume(mk_bool(z3.And(PY_INT_OK(raw.t), PY_INT(raw.t) == -z3.StrToInt(d.t))))
        headers = {b'content-length': raw}
    else:
        d = None
        headers, view = asgi_headers(v, optional=['content-length'])
    req = asgi_req(v, headers)
    out = v.call(req)
    spec_content_length(v, headers.get(b'content-length'), out, d)


@harness(PROP, WREQ + '.range', name='asgi_range', setup=_base_setup, inline=[AGET])
def asgi_range(v):
    headers, view = asgi_headers(v, optional=['range'])
    out = v.call(asgi_req(v, headers))
    spec_range(v, view.get('HTTP_RANGE'), out)


@harness(PROP, WREQ + '.range_unit', name='asgi_range_unit', setup=_base_setup, inline=[AGET])
def asgi_range_unit(v):
    headers, view = asgi_headers(v, optional=['range'])
    out = v.call(asgi_req(v, headers))
    spec_range_unit(v, view.get('HTTP_RANGE'), out)


@harness(PROP, WREQ + '.get_header_as_int', name='asgi_get_header_as_int', setup=_base_setup, inline=[AGET])
def asgi_get_header_as_int(v):
    headers, view = asgi_headers(v, optional=['x-count'])
    required = bool(v.choose(2, 'required'))
    out = v.call(asgi_req(v, headers), 'X-Count', required=required)
    raw = view.get('HTTP_X_COUNT')
    escape_only_400(v, out)
    if raw is None:
        v.check('missing-header-is-None-or-missing-header-400', out.exc.isa(v.real('falcon:HTTPMissingHeader')) if required and out.exc is not None else (not required and out.exc is None and out.value is None))
    elif is_digits(raw):
        v.check('digits-yield-their-value', out.exc is None and out.value is not None and out.value == digits_value(raw))
    elif not py_int_ok(raw):
        v.check('not-a-number-is-invalid-header-400', out.exc is not None and out.exc.isa(v.real('falcon:HTTPInvalidHeader')))


@harness(PROP, WREQ + '.if_modified_since', name='asgi_if_modified_since', setup=_base_setup, inline=[AGET, WREQ + '.get_header_as_datetime'])
def asgi_if_modified_since(v):
    headers, view = asgi_headers(v, optional=['if-modified-since'])
    parser = date_parser(v)
    with patched(v, 'falcon.util', 'http_date_to_dt', parser):
        out = v.call(asgi_req(v, headers))
    spec_datetime(v, view.get('HTTP_IF_MODIFIED_SINCE'), False, parser, out, 'If-Modified-Since')


def _asgi_etag_property(header, field):
    def h(v):
        UNSET = v.real('falcon._typing:_UNSET')
        headers, view = asgi_headers(v, optional=[header])
        req = asgi_req(v, headers)
        raw = view.get(env_key(header))
        parser = Parser(v, '_parse_etags', [lambda: [Opaque('etag')], lambda: None])
        with patched(v, HELPERS, '_parse_etags', parser):
            out = v.call(req)
            escape_only_400(v, out)
            if raw is None or Len(raw) == 0:
                v.check('absent-or-empty-is-None', out.exc is None and out.value is None and len(parser.calls) == 0)
            else:
                ok = len(parser.calls) == 1
                v.check('etag-parser-called-exactly-once-with-the-decoded-header-value', ok and len(parser.calls[0][0]) == 1 and parser.calls[0][0][0] == raw)
                if not ok:
                    return
                v.check('parsed-entity-tags-returned', out.exc is None and out.value is parser.returned[0])
                v.cover('parsed')
            n1 = len(parser.calls)
            v.check('result-cached', field_of(v, req, field) is not UNSET and field_of(v, req, field) is out.value)
            headers[header.encode()] = header_bytes(v, header + '_later')
            again = v.call(req)
            v.check('second-access-returns-the-identical-value-without-parsing-again', again.exc is None and again.value is out.value and len(parser.calls) == n1)

    return h


harness(PROP, AREQ + '.if_match', name='asgi_if_match', setup=_base_setup)(_asgi_etag_property('if-match', '_cached_if_match'))
harness(PROP, AREQ + '.if_none_match', name='asgi_if_none_match', setup=_base_setup)(_asgi_etag_property('if-none-match', '_cached_if_none_match'))


@harness(PROP, WREQ + '.cookies', name='asgi_cookies', setup=_base_setup, inline=[AGET])
def asgi_cookies(v):
    headers, view = asgi_headers(v, optional=['cookie'])
    req = asgi_req(v, headers)
    raw = view.get('HTTP_COOKIE')
    parser = cookie_parser(v)
    with patched(v, HELPERS, '_parse_cookie_header', parser):
        out = v.call(req)
        escape_only_400(v, out)
        if out.exc is not None:
            return
        if raw is None or Len(raw) == 0:
            v.check('absent-or-empty-cookie-header-is-an-empty-mapping', isinstance(out.value, dict) and len(out.value) == 0 and len(parser.calls) == 0)
        else:
            ok = len(parser.calls) == 1 and len(parser.calls[0][0]) == 1
            v.check('cookie-parser-called-exactly-once-with-the-header-value', ok and parser.calls[0][0][0] == raw)
            if not ok:
                return
            v.check('each-cookie-maps-to-its-first-value', dict_eq(out.value, {n: vals[0] for n, vals in parser.returned[0].items()}))
        n1 = len(parser.calls)
        headers[b'cookie'] = header_bytes(v, 'cookie_later')
        again = v.call(req)
        v.check('second-access-returns-the-identical-mapping-without-parsing-again', again.exc is None and again.value is out.value and len(parser.calls) == n1)


A_INLINE = [AGET, PARSE_HOST, AREQ + '.scheme', AREQ + '._secure_scheme', AREQ + '._asgi_server', AREQ + '.netloc', AREQ + '.root_path', AREQ + '.host',
            WREQ + '.forwarded', WREQ + '.relative_uri', AREQ + '.forwarded_scheme', AREQ + '.forwarded_host']


@harness(PROP, AREQ + '.scheme', name='asgi_scheme', setup=_base_setup)
def asgi_scheme(v):
    scope = asgi_scope(v, server=False, client=False)
    ws = ws_flag(v)
    out = v.call(asgi_req(v, {}, scope, is_websocket=ws))
    v.check('scheme-is-the-scope-scheme-or-the-default-of-the-scope-type', out.exc is None and out.value == a_scheme(scope, ws))


def _asgi_host_port(what):
    def h(v):
        headers, view = asgi_headers(v, optional=['host'])
        # the scope (scheme, server) and the kind of connection vary independently of the Host header
        scope = asgi_scope(v, client=False)
        ws = ws_flag(v)
        out = v.call(asgi_req(v, headers, scope, is_websocket=ws))
        env = wsgi_view(view, scope, ws)
        secure = lambda: Ite(a_secure(scope, ws), 'https', 'http')  # the default port follows "secure or not"
        if isinstance(env, LazyMap):
            env.put('wsgi.url_scheme', _Thunk(secure))
        else:
            env['wsgi.url_scheme'] = secure()
        spec_host_port(v, env, out, what)

    return h


harness(PROP, AREQ + '.host', name='asgi_host', setup=_base_setup, inline=A_INLINE)(_asgi_host_port('host'))
harness(PROP, AREQ + '.port', name='asgi_port', setup=_base_setup, inline=A_INLINE)(_asgi_host_port('port'))


@harness(PROP, AREQ + '.netloc', name='asgi_netloc', setup=_base_setup, inline=A_INLINE)
def asgi_netloc(v):
    scope = asgi_scope(v, client=False)
    ws = ws_flag(v)
    headers, view = asgi_headers(v, optional=['host'])
    out = v.call(asgi_req(v, headers, scope, is_websocket=ws))
    escape_only_400(v, out)
    v.check('host-header-verbatim-else-server-with-port-omitted-iff-default', out.exc is None and out.value == a_netloc(view, scope, ws))
    v.cover('netloc')


@harness(PROP, AREQ + '.forwarded_scheme', name='asgi_forwarded_scheme', setup=_base_setup, inline=A_INLINE)
def asgi_forwarded_scheme(v):
    scope = asgi_scope(v, server=False, client=False)
    ws = ws_flag(v)
    headers, view = asgi_headers(v, optional=['forwarded', 'x-forwarded-proto'])
    parser = forwarded_parser(v, max_hops=2, fields=('scheme',))
    with patched(v, WM, '_parse_forwarded_header', parser):
        out = v.call(asgi_req(v, headers, scope, is_websocket=ws))
    escape_only_400(v, out)
    v.check('first-hop-proto-then-x-forwarded-proto-then-own-scheme', out.exc is None and out.value == spec_forwarded_scheme(wsgi_view(view, scope, ws), hops_of(parser)))


def a_forwarded_host(view, scope, hops, is_websocket=False):
    if 'HTTP_FORWARDED' in view:
        if hops and hops[0].host is not None and _nonempty(hops[0].host):
            return hops[0].host
        return a_netloc(view, scope, is_websocket)
    if 'HTTP_X_FORWARDED_HOST' in view:
        return view['HTTP_X_FORWARDED_HOST']
    return a_netloc(view, scope, is_websocket)


@harness(PROP, AREQ + '.forwarded_host', name='asgi_forwarded_host', setup=_base_setup, inline=A_INLINE)
def asgi_forwarded_host(v):
    scope = asgi_scope(v, client=False)
    ws = ws_flag(v)
    headers, view = asgi_headers(v, optional=['forwarded', 'x-forwarded-host', 'host'])
    parser = forwarded_parser(v, max_hops=2, fields=('host',))  # two elements: "first hop" and "last hop" are different elements
    with patched(v, WM, '_parse_forwarded_header', parser):
        out = v.call(asgi_req(v, headers, scope, is_websocket=ws))
    escape_only_400(v, out)
    v.check('first-hop-host-then-x-forwarded-host-then-own-netloc', out.exc is None and out.value == a_forwarded_host(view, scope, hops_of(parser), ws))


def _asgi_url_property(prop, field, forwarded):
    def h(v):
        scope = asgi_scope(v, client=False)  # scheme, server, root_path: each lazily present
        ws = ws_flag(v)
        # Host and (for the forwarded_* properties) every subset of the three forwarding headers: each header lazily present
        headers, view = asgi_headers_lazy(v, optional=['host'] + (['forwarded', 'x-forwarded-proto', 'x-forwarded-host'] if forwarded else []))
        path, qs = v.str('path'), v.str('query_string')
        req = asgi_req(v, headers, scope, path=path, query_string=qs, is_websocket=ws)
        parser = forwarded_parser(v, max_hops=1, fields=('host', 'scheme'))
        with patched(v, WM, '_parse_forwarded_header', parser):
            out = v.call(req)
            escape_only_400(v, out)
            if out.exc is not None:
                return
            hops = hops_of(parser)
            root = scope.get('root_path', '')
            scheme = spec_forwarded_scheme(wsgi_view(view, scope, ws), hops) if forwarded else a_scheme(scope, ws)
            netloc = a_forwarded_host(view, scope, hops, ws) if forwarded else a_netloc(view, scope, ws)
            rel = Ite(Len(qs) > 0, root + path + '?' + qs, root + path)
            want = rel if prop == 'relative_uri' else scheme + '://' + netloc + (rel if prop.endswith('uri') else root)
            v.check('value-is-the-concatenation-of-its-parts', out.value == want)
            v.check('result-cached', field_of(v, req, field) is not None and field_of(v, req, field) == out.value)
            n1 = len(parser.calls)
            clobber_map(v, headers, lambda k: header_bytes(v, k.decode() + '_later'))
            v.set(req, 'path', v.str('path_later'))
            v.set(req, 'query_string', v.str('query_string_later'))
            v.set(req, 'scope', {'type': 'http', 'scheme': 'https', 'server': ('elsewhere', 1), 'root_path': '/moved'})
            v.set(req, '_cached_forwarded', None)
            again = v.call(req)
            v.check('second-access-returns-the-first-value-without-recomputing', again.exc is None and again.value == out.value and len(parser.calls) == n1)
            v.cover('composed')

    return h


for _prop, _field, _fwd in (('uri', '_cached_uri', False), ('prefix', '_cached_prefix', False), ('relative_uri', '_cached_relative_uri', False),
                            ('forwarded_uri', '_cached_forwarded_uri', True), ('forwarded_prefix', '_cached_forwarded_prefix', True)):
    harness(PROP, WREQ + '.' + _prop, name='asgi_' + _prop, setup=_base_setup, inline=A_INLINE)(_asgi_url_property(_prop, _field, _fwd))


def _asgi_access_route(v, mode):
    """mode: 'route' (values, memoisation, escape), 'retry' (failed first access), 'client-none' (scope['client'] is None)."""
    src = v.choose(4, 'route-source')  # the header of highest priority that is present; those of lower priority: lazily present or absent
    fixed, optional = [], []
    for i, h in enumerate(('forwarded', 'x-forwarded-for', 'x-real-ip')):
        if i < src:
            continue
        b = header_bytes(v, h)
        if h == 'x-forwarded-for':
            v.assume(at_most_pieces(as_text(b), ',', MAX_PIECES))  # bounded, wherever the header may be present (see route_env)
        if i == src:
            fixed.append((h.encode(), b))
        else:
            optional.append((h.encode(), 'has-' + h, b))
    headers = lazy_map(v, fixed, optional)
    view = wsgi_style_view(v, headers)
    scope = {'type': 'http'}
    if mode == 'client-none':
        scope['client'] = None
    elif v.choose(2, 'scope-has-client'):
        scope['client'] = (v.str('client_addr'), 50000)
    req = asgi_req(v, headers, scope)
    client = scope['client'][0] if scope.get('client') else '127.0.0.1'
    parser = route_hops(v)
    xff = bounded_split(v, view['HTTP_X_FORWARDED_FOR'], ',', MAX_PIECES) if src == 1 else None
    with patched(v, WM, '_parse_forwarded_header', parser):
        out = v.call(req)
        if mode == 'client-none':
            # ASGI HTTP scope: "client ... Optional; if missing defaults to None"
            v.check('escape-only-400-class-when-scope-client-is-None', out.exc is None or out.exc.isa(v.real('falcon:HTTPBadRequest')))
            return
        if mode == 'retry':
            if out.exc is not None:
                again = v.call(req)
                v.check('failed-access-leaves-no-partial-route-cached', again.exc is not None and again.exc.cls is out.exc.cls)
            return
        bad = src == 0 and any(has_non_numeric_port(h.src) for h in hops_of(parser))
        escape_only_400(v, out, NON_NUMERIC_PORT if bad else 'escape-only-400-class')
        n1 = len(parser.calls)
        if out.exc is not None:
            return
        # ASGI difference (source comment): an empty client address is not put into an otherwise empty route
        want = spec_access_route(v, view, hops_of(parser), client, xff, drop_empty_remote=True)
        v.check('route-is-forwarded-then-x-forwarded-for-then-x-real-ip-then-client', same_value(list(out.value), want))
        v.check('result-cached', field_of(v, req, '_cached_access_route') is out.value)
        clobber_map(v, headers, lambda k: header_bytes(v, k.decode() + '_later'))
        v.set(req, '_cached_forwarded', None)
        again = v.call(req)
        v.check('second-access-returns-the-identical-list-without-recomputing', again.exc is None and again.value is out.value and len(parser.calls) == n1)
        v.cover('route')


A_ROUTE_INLINE = [AGET, PARSE_HOST, WREQ + '.forwarded']
for _src, _nm in ((1, 'x-forwarded-for'), (2, 'x-real-ip'), (3, 'client')):
    harness(PROP, AREQ + '.access_route', name='asgi_access_route[%s]' % _nm, setup=_base_setup, inline=A_ROUTE_INLINE, fix={'route-source': _src})(
        lambda v: _asgi_access_route(v, 'route'))
for _n in (0, 1):
    harness(PROP, AREQ + '.access_route', name='asgi_access_route[forwarded,hops=%d]' % _n, setup=_base_setup, inline=A_ROUTE_INLINE,
            fix={'route-source': 0, 'hops': _n})(lambda v: _asgi_access_route(v, 'route'))
for _part, _extra, _nm in ((0, {}, ''), (1, {'hop0-has-src': 0}, ',two-hops=1,first-absent'), (1, {'hop0-has-src': 1}, ',two-hops=1,first-bare'),
                           (2, {'first-hop-bracketed': 0}, ',two-hops=2,bracketed=0'), (2, {'first-hop-bracketed': 1}, ',two-hops=2,bracketed=1')):
    harness(PROP, AREQ + '.access_route', name='asgi_access_route[forwarded,hops=2%s]' % _nm, setup=_base_setup, inline=A_ROUTE_INLINE,
            **({'tier': 'thorough'} if _part == 2 else {}), fix=dict({'route-source': 0, 'hops': 2, 'two-hops': _part}, **_extra))(
        lambda v: _asgi_access_route(v, 'route'))
harness(PROP, AREQ + '.access_route', name='asgi_access_route_retry', setup=_base_setup, inline=A_ROUTE_INLINE,
        fix={'route-source': 0, 'scope-has-client': 0, 'two-hops': 0})(lambda v: _asgi_access_route(v, 'retry'))
harness(PROP, AREQ + '.access_route', name='asgi_access_route_client_none', setup=_base_setup, inline=A_ROUTE_INLINE,
        fix={'route-source': 3})(lambda v: _asgi_access_route(v, 'client-none'))


@harness(PROP, AREQ + '.remote_addr', name='asgi_remote_addr', setup=_base_setup, inline=A_ROUTE_INLINE + [AREQ + '.access_route'])
def asgi_remote_addr(v):
    """remote_addr is the last element of access_route (documented); with no route headers that is the client address."""
    scope = {'type': 'http'}
    if v.choose(2, 'scope-has-client'):
        scope['client'] = (v.str('client_addr'), 50000)
        v.assume(Len(scope['client'][0]) > 0)  # ASGI: a host string; an empty one yields an empty route (see NOT_DECIDED)
    out = v.call(asgi_req(v, {}, scope))
    escape_only_400(v, out)
    v.check('remote-addr-is-the-client-address-or-loopback', out.exc is None and out.value == (scope['client'][0] if 'client' in scope else '127.0.0.1'))


def _route_stub_setup(reg, ex):
    _base_setup(reg, ex)

    def access_route(I, self):
        ctx = I.ctx
        n = ctx.choose(3, 'route-length') + 1  # any non-empty route, whatever headers produced it (contract of access_route above)
        route = [ctx.fresh_str('route_%d' % i) for i in range(n)]
        ctx.ghost['route'] = route
        return route

    reg.stubs[AREQ + '.access_route'] = access_route


@harness(PROP, AREQ + '.remote_addr', name='asgi_remote_addr_is_the_last_route_element', setup=_route_stub_setup)
def asgi_remote_addr_last(v):
    """Whatever headers the request carries (every subset of Forwarded / X-Forwarded-For / X-Real-IP: the access_route contract above
    decides the route), remote_addr is the LAST element of that route -- the address nearest to the server."""
    if v.concrete:
        return  # the stubbed callee has no concrete twin; asgi_remote_addr replays the header-free instance
    out = v.call(asgi_req(v, {}, {'type': 'http'}))
    route = v.ctx.ghost.get('route')
    v.check('remote-addr-is-the-last-element-of-the-access-route', out.exc is None and route is not None and out.value == route[-1])


@harness(PROP, WREQ + '.client_accepts', name='asgi_client_accepts', setup=_base_setup, inline=[AREQ + '.accept'])
def asgi_client_accepts(v):
    headers, view = asgi_headers(v, optional=['accept'])
    media_type = v.str('media_type')
    parser = quality_parser(v)
    with patched(v, MEDIATYPES, 'quality', parser):
        out = v.call(asgi_req(v, headers), media_type)
    escape_only_400(v, out)
    want, used = spec_accepts(accept_of(view), media_type, parser, 0)
    v.check('exact-match-or-wildcard-else-nonzero-quality-else-false', out.exc is None and want is not None and out.value is want)
    v.check('quality-consulted-only-when-needed', len(parser.calls) == used)


# ---------------------------------------------------------------------------
# bounded differential against a tiny independent RFC reader (never counted as proved)

_BOUNDED_SCRIPT = r"""
import datetime, json, random, re, sys
import falcon, falcon.asgi
from falcon import testing
from falcon.util import ETag, dt_to_http, http_date_to_dt

seed, n = int(sys.argv[1]), int(sys.argv[2])
rnd = random.Random(seed)
fails, cases = {}, {}


def record(name, ok, inp):
    cases[name] = cases.get(name, 0) + 1
    if not ok and len(fails.setdefault(name, [])) < 5:
        fails[name].append(inp)


def reqs(headers):
    yield 'wsgi', falcon.Request(testing.create_environ(headers=headers))
    yield 'asgi', falcon.asgi.Request(testing.create_scope(headers=headers), None)


def attempt(f):
    try:
        return ('ok', f())
    except falcon.HTTPBadRequest as e:
        return ('400', type(e).__name__)
    except Exception as e:
        return ('other', type(e).__name__)


def mutate(sv):
    if not sv:
        return rnd.choice('=-,;"[]: x1')
    i = rnd.randrange(len(sv))
    k = rnd.randrange(4)
    c = rnd.choice('=-,;"[]:_ \tW/*ax09')
    return [sv[:i] + sv[i + 1:], sv[:i] + c + sv[i:], sv[:i] + c + sv[i + 1:], sv[:i] + sv[i:] * 2][k]


# --- Range (RFC 9110 14.1.1: ranges-specifier = range-unit "=" range-set; int-range = first-pos "-" [last-pos]; suffix-range = "-" suffix-length)
def ref_range(value):
    m = re.fullmatch(r'([!#$%&\'*+\-.^_`|~0-9A-Za-z]+)=([0-9]*)-([0-9]*)', value)
    if not m:
        return None
    unit, a, b = m.groups()
    if a and b:
        return (unit, (int(a), int(b))) if int(a) <= int(b) else None
    if a:
        return unit, (int(a), -1)
    if b:
        return (unit, (-int(b), -1)) if int(b) > 0 else None
    return None


for _ in range(n):
    a, b = rnd.choice(['', str(rnd.randrange(0, 10 ** rnd.randrange(1, 12)))]), rnd.choice(['', str(rnd.randrange(0, 10 ** rnd.randrange(1, 12)))])
    value = rnd.choice(['bytes', 'items', 'b']) + '=' + a + '-' + b
    if rnd.random() < 0.5:
        value = mutate(value)
    want = ref_range(value)
    for kind, req in reqs({'Range': value}):
        got, unit = attempt(lambda: req.range), attempt(lambda: req.range_unit)
        if want is not None:
            record('range: valid value read as the RFC 9110 reader reads it', got == ('ok', want[1]) and unit == ('ok', want[0]), [kind, value, got, unit])
        else:
            f = got[1] if got[0] == 'ok' and got[1] else None
            wf = f is not None and ((0 <= f[0] <= f[1]) or (f[0] >= 0 and f[1] == -1) or (f[0] < 0 and f[1] == -1))
            record('range: invalid value is a 400 or a well-formed lenient reading', got[0] == '400' or wf, [kind, value, got])

# --- HTTP-date (RFC 9110 5.6.7 IMF-fixdate) and write-then-read
DAYS, MONTHS = ['Mon', 'Tue', 'Wed', 'Thu', 'Fri', 'Sat', 'Sun'], ['Jan', 'Feb', 'Mar', 'Apr', 'May', 'Jun', 'Jul', 'Aug', 'Sep', 'Oct', 'Nov', 'Dec']


def ref_date(value):
    m = re.fullmatch(r'(Mon|Tue|Wed|Thu|Fri|Sat|Sun), (\d\d) (\w{3}) (\d{4}) (\d\d):(\d\d):(\d\d) GMT', value)
    if not m or m.group(3) not in MONTHS:
        return None
    try:
        dt = datetime.datetime(int(m.group(4)), MONTHS.index(m.group(3)) + 1, int(m.group(2)), int(m.group(5)), int(m.group(6)), int(m.group(7)), tzinfo=datetime.timezone.utc)
    except ValueError:
        return None
    return dt if DAYS[dt.weekday()] == m.group(1) else None


for _ in range(n):
    dt = datetime.datetime(1970, 1, 1, tzinfo=datetime.timezone.utc) + datetime.timedelta(seconds=rnd.randrange(0, 4102444800))
    value = '%s, %02d %s %04d %02d:%02d:%02d GMT' % (DAYS[dt.weekday()], dt.day, MONTHS[dt.month - 1], dt.year, dt.hour, dt.minute, dt.second)
    record('date: dt_to_http writes the IMF-fixdate', dt_to_http(dt) == value, [str(dt), dt_to_http(dt)])
    record('date: written date reads back to the same instant', http_date_to_dt(dt_to_http(dt)) == dt, [str(dt)])
    if rnd.random() < 0.5:
        value = mutate(value)
    want = ref_date(value)
    for kind, req in reqs({'Date': value, 'If-Modified-Since': value, 'If-Unmodified-Since': value}):
        for attr in ('date', 'if_modified_since', 'if_unmodified_since'):
            got = attempt(lambda: getattr(req, attr))
            if want is not None:
                record('date: valid IMF-fixdate read as the reference reads it', got == ('ok', want), [kind, attr, value, str(got)])
            else:
                record('date: invalid value is a 400 or a lenient datetime', got[0] == '400' or (got[0] == 'ok' and isinstance(got[1], datetime.datetime)), [kind, attr, value, str(got)])

# --- entity tags (RFC 9110 8.8.3: entity-tag = [ "W/" ] DQUOTE *etagc DQUOTE; If-Match = "*" / #entity-tag)
ETAGC = '!#$%&()*+-./0123456789:;<=>?@ABCXYZ[]^_`abcxyz{|}~'


def ref_etags(value):
    v = value.strip(' \t')
    if v == '*':
        return ['*']
    out, pos = [], 0
    while True:
        m = re.compile(r'[ \t]*(W/)?"([\x21\x23-\x7e\x80-\xff]*)"[ \t]*').match(v, pos)
        if not m:
            return None
        out.append((m.group(2), bool(m.group(1))))
        pos = m.end()
        if pos == len(v):
            return out
        if v[pos] != ',':
            return None
        pos += 1


for _ in range(n):
    tags = [(''.join(rnd.choice(ETAGC) for _ in range(rnd.randrange(0, 6))), rnd.random() < 0.4) for _ in range(rnd.randrange(1, 4))]
    value = rnd.choice([', ', ',', ' , ']).join(('W/' if w else '') + '"' + t + '"' for t, w in tags)
    if rnd.random() < 0.1:
        value = '*'
    for t, w in tags:
        e = ETag(t)
        e.is_weak = w
        back = ETag.loads(e.dumps())
        record('etag: dumps then loads gives the same tag', back == t and back.is_weak == w, [t, w, e.dumps()])
    if rnd.random() < 0.4:
        value = mutate(value)
    want = ref_etags(value)
    for kind, req in reqs({'If-Match': value, 'If-None-Match': value}):
        for attr in ('if_match', 'if_none_match'):
            got = attempt(lambda: getattr(req, attr))
            if want is not None:
                seen = None if got[0] != 'ok' or got[1] is None else [x if x == '*' and not isinstance(x, ETag) else (str(x), x.is_weak) for x in got[1]]
                record('etag: valid list read as the RFC 9110 reader reads it', seen == want, [kind, attr, value, str(got)])
            else:
                record('etag: invalid value is a 400 or a lenient reading', got[0] in ('ok', '400'), [kind, attr, value, str(got)])

# --- cookies (RFC 6265 4.2.1: cookie-string = cookie-pair *( ";" SP cookie-pair ))
TOKEN = "!#$%&'*+-.^_`|~0123456789ABCXYZabcxyz"
COOKIE_OCTET = "!#$%&'()*+-./0123456789:<=>?@ABC[]^_`abc{|}~"
for _ in range(n):
    pairs = [(''.join(rnd.choice(TOKEN) for _ in range(rnd.randrange(1, 4))), ''.join(rnd.choice(COOKIE_OCTET) for _ in range(rnd.randrange(0, 6)))) for _ in range(rnd.randrange(1, 5))]
    value = '; '.join(k + '=' + val for k, val in pairs)
    valid = True
    if rnd.random() < 0.4:
        value, valid = mutate(value), False
    first, allv = {}, {}
    for k, val in pairs:
        first.setdefault(k, val)
        allv.setdefault(k, []).append(val)
    for kind, req in reqs({'Cookie': value}):
        got = attempt(lambda: dict(req.cookies))
        again = attempt(lambda: req.cookies is req.cookies)
        if valid:
            record('cookies: valid cookie-string read as the RFC 6265 reader reads it', got == ('ok', first) and all(req.get_cookie_values(k) == vs for k, vs in allv.items()), [kind, value, str(got)])
        else:
            record('cookies: invalid value is a 400 or a lenient mapping', got[0] in ('ok', '400'), [kind, value, str(got)])
        record('cookies: repeated access returns the same object', again == ('ok', True) or got[0] != 'ok', [kind, value])

# --- Forwarded (RFC 7239 4) and access_route
def gen_node():
    k = rnd.randrange(6)
    name = [lambda: '.'.join(str(rnd.randrange(256)) for _ in range(4)), lambda: '[2001:db8:cafe::%x]' % rnd.randrange(65536), lambda: 'unknown', lambda: '_hidden%d' % rnd.randrange(9)][min(k, 3) if k < 4 else 0]()
    port = rnd.choice(['', '', ':%d' % rnd.randrange(1, 65536), ':_obf%d' % rnd.randrange(9)])
    return name, port


def ref_unquote(sv):
    return re.sub(r'\\(.)', r'\1', sv[1:-1]) if sv.startswith('"') else sv


for _ in range(n):
    elements, want, route, numeric = [], [], [], True
    for _e in range(rnd.randrange(1, 4)):
        el, rec = [], {'for': None, 'by': None, 'host': None, 'proto': None}
        for key in rnd.sample(['for', 'by', 'host', 'proto'], rnd.randrange(1, 5)):
            if key in ('for', 'by'):
                name, port = gen_node()
                raw = name + port
                if key == 'for':
                    route.append(name[1:-1] if name.startswith('[') else name)
                    numeric = numeric and not port.startswith(':_')
                val = '"' + raw + '"' if (':' in raw or '[' in raw or rnd.random() < 0.3) else raw
            elif key == 'host':
                raw = rnd.choice(['example.com', 'api.example.org:8443', '[2001:db8::1]'])
                val = '"' + raw + '"' if (':' in raw or rnd.random() < 0.3) else raw
            else:
                raw = rnd.choice(['http', 'https', 'HTTPS'])
                val = raw
            rec[key] = raw.lower() if key == 'proto' else raw
            el.append(rnd.choice([key, key.upper(), key.capitalize()]) + '=' + val)
        elements.append(';'.join(el))
        want.append((rec['for'], rec['by'], rec['host'], rec['proto']))
    # list separator: "," with optional whitespace after it, OWS = *( SP / HTAB ) (RFC 9110 5.6.1)
    value = elements[0] + ''.join(rnd.choice([', ', ',', ',\t', ', \t', ',  ']) + e for e in elements[1:])
    remote = '10.9.8.7'
    for kind, req in [('wsgi', falcon.Request(testing.create_environ(headers={'Forwarded': value}, remote_addr=remote))),
                      ('asgi', falcon.asgi.Request(testing.create_scope(headers={'Forwarded': value}, remote_addr=remote), None))]:
        got = attempt(lambda: [(h.src, h.dest, h.host, h.scheme) for h in req.forwarded])
        record('forwarded: valid header read as the RFC 7239 reader reads it', got == ('ok', want), [kind, value, str(got)])
        ar = attempt(lambda: list(req.access_route))
        name = 'access_route: nodenames of the "for" parameters then the remote address' + ('' if numeric else ' (obfuscated node-port: known finding)')
        record(name, ar == ('ok', route + [remote]), [kind, value, str(ar)])
    bad = mutate(value)
    for kind, req in reqs({'Forwarded': bad}):
        got = attempt(lambda: req.forwarded)
        record('forwarded: a mutated header never raises from req.forwarded', got[0] == 'ok', [kind, bad, str(got)])

# --- Host (RFC 9110 7.2, RFC 3986 3.2: host [ ":" port ])
for _ in range(n):
    name = rnd.choice(['example.com', 'a.b.example.org', 'localhost', '192.0.2.7', '[2001:db8::7]', '[::1]'])
    port = rnd.choice([None, None, rnd.randrange(1, 65536), 80, 443])
    value = name + ('' if port is None else ':%d' % port)
    valid = True
    if rnd.random() < 0.3:
        value, valid = mutate(value), False
    for scheme in ('http', 'https'):
        dflt = 80 if scheme == 'http' else 443
        for kind, req in [('wsgi', falcon.Request(testing.create_environ(host=value, scheme=scheme))),
                          ('asgi', falcon.asgi.Request(testing.create_scope(host=value, scheme=scheme), None))]:
            if kind == 'asgi' and req.get_header('Host') != value:
                continue
            if kind == 'wsgi':
                req.env['HTTP_HOST'] = value
            h, p, nl = attempt(lambda: req.host), attempt(lambda: req.port), attempt(lambda: req.netloc)
            if valid:
                wh = name[1:-1] if name.startswith('[') else name
                record('host: valid authority read as the RFC 3986 reader reads it', h == ('ok', wh) and p == ('ok', dflt if port is None else port) and nl == ('ok', value), [kind, scheme, value, str(h), str(p), str(nl)])
                sub = attempt(lambda: req.subdomain)
                record('host: subdomain is the first label', sub == ('ok', wh.partition('.')[0] if '.' in wh else None), [kind, value, str(sub)])
            else:
                nn = re.fullmatch(r'[^:]*:(?![0-9]+$)[^:]*', value) if not value.startswith('[') else (']:' in value and not re.fullmatch(r'[0-9]+', value.rpartition(']:')[2]))
                record('host: invalid value is a 400 or a lenient reading' + (' (non-numeric port: known finding)' if nn else ''), h[0] != 'other' and p[0] != 'other', [kind, scheme, value, str(h), str(p)])

print(json.dumps({'cases': cases, 'fails': fails}))
"""


def bounded(tier, seed, overlay_dir):
    """Differential check of the opaque parsers against a tiny independent RFC reader.  Bounded, labelled, never counted as proved."""
    import json
    import os
    import subprocess

    n = 400 if tier == 'quick' else 4000
    env = dict(os.environ, PYTHONPATH=overlay_dir, PYTHONDONTWRITEBYTECODE='1')
    try:
        p = subprocess.run(['/venv/bin/python', '-c', _BOUNDED_SCRIPT, str(int(seed) & 0x7FFFFFFF), str(n)], env=env, capture_output=True, text=True, timeout=900, cwd='/tmp')
        data = json.loads(p.stdout.strip().splitlines()[-1])
    except Exception as e:  # noqa: BLE001
        detail = (p.stderr[-800:] if 'p' in locals() else '') + repr(e)
        return [{'name': 'C09 differential against an RFC reader', 'bound': 'n=%d per family' % n, 'cases': 0, 'failures': [{'obligation': 'bounded-run-completed', 'input': detail}]}]
    out = []
    for name, cnt in sorted(data['cases'].items()):
        out.append({'name': 'C09 ' + name, 'bound': '%d generated header values per family (seed %s), ABNF-generated plus single-character mutations, WSGI and ASGI' % (n, seed),
                    'cases': cnt, 'failures': [{'obligation': name, 'input': i} for i in data['fails'].get(name, [])]})
    return out


ASSUMPTIONS = [
    'int(text) (Python library reference, base 10): 1*DIGIT is accepted with its decimal value; the empty text is rejected; an accepted text without "-" is never negative; '
    'int("-" d) == -int(d) for 1*DIGIT d; an accepted text is a decimal literal (blanks, optional sign, digits with single underscores, blanks); rejection raises ValueError and nothing else. '
    'Header values are latin-1 texts (PEP 3333 native strings; ASGI byte strings decoded as latin-1) -- Unicode decimal digits beyond latin-1 are outside the domain',
    'PEP 3333: SERVER_NAME, SERVER_PORT (decimal digits) and wsgi.url_scheme ("http" or "https") are always in the environ; ASGI scope "scheme" is one of http/https/ws/wss when present '
    '(symbolic), "server" is missing, None or a (host, port) pair with 0 <= port <= 65535 (symbolic), "root_path" is missing or any string, "client" is a (host, port) pair when present '
    '(scope["client"] = None is explored separately, see the findings); Request.is_websocket is a symbolic boolean in every ASGI harness',
    'optional entries of the ASGI scope, of the ASGI header dict (URL properties, access_route) and the lower-priority route headers of the WSGI environ (access_route) are LAZILY present '
    '(LazyMap: one symbolic presence bit per entry, decided when the code under contract or the specification first asks): all subsets are covered, the exploration forks only where an entry is read',
    'opaque parsers are total or raise ValueError only: _parse_forwarded_header and _parse_cookie_header return a list / a dict of non-empty value lists and never raise; '
    '_parse_etags returns a list or None and never raises; http_date_to_dt raises only ValueError (proved here relative to strptime raising only ValueError); '
    'mediatypes.quality returns a float or raises ValueError (re, strptime, http.cookies._unquote: DESIGN.md C09 "Assumed")',
    'str.lower / str.upper / str.strip are uninterpreted total functions str -> str (the specifications use the same functions); for ASCII input lower/upper return ASCII text of the same length; '
    'in the case-insensitivity harness str.replace is an uninterpreted function too (only congruence is needed)',
    'str.partition / find / rfind / split and slices at the found positions are encoded as word equations (s == head ++ sep ++ tail with sep not occurring earlier / later); '
    'occurrences of "]:" , ":" , "=" , "-" , "," , "." never overlap themselves',
    'bounded shapes: X-Forwarded-For with at most 3 comma-separated addresses (assumed of the header value wherever the header may be present); Forwarded with at most 2 elements '
    '(quick tier: at least one of the two "for" values is absent or a bare node name, every such combination; both with port / brackets: thorough tier only, see NOT_DECIDED); '
    'cookie jars with at most 2 names and 2 values',
    'inputs deliberately left fixed, with the reason: '
    '(a) the header NAME passed to get_header_as_int / get_header_as_datetime ("X-Count" / "X-When") and to the casings harnesses: these functions hand the name to get_header '
    '(inlined; its own harnesses take a symbolic name, both `required` values, default given or not) and to the error constructor only; '
    '(b) `required=True` in the *_casings harnesses and default=None in the two relational case-insensitivity harnesses: read only on the not-found path, which the value harnesses '
    'wsgi_get_header / asgi_get_header cover with both values; '
    '(c) Forwarded elements carry only the parameters the accessor under contract reads (`fields=`: src for access_route, host / scheme for forwarded_host / forwarded_scheme / URL properties, '
    'none for `forwarded` itself); "by" (dest) is never read by an accessor of C09; '
    '(d) URL properties (uri, prefix, forwarded_uri, ...): at most ONE Forwarded element (the composition never indexes the list; forwarded_host / forwarded_scheme are proved with two); '
    '(e) the *_retry harnesses fix no lower-priority header, no REMOTE_ADDR / client and a bare second element: their clause is refuted on the unchanged tree for every such input alike '
    '(known finding, one root cause) -- more inputs add refuted paths, not coverage; '
    '(f) asgi_access_route_client_none: no route header (the TypeError is raised before any header is read); '
    '(g) the port of scope["client"] (50000) and scope["type"] ("http"): never read after __init__; '
    '(h) asgi_remote_addr: no route headers -- remote_addr is access_route[-1]; asgi_remote_addr_is_the_last_route_element states that over an arbitrary route (access_route stubbed by its contract); '
    '(i) WSGI Request.is_websocket = False, uri_template = None, cache fields = None (the state __init__ establishes); WSGI forwarded_scheme without Host header (host_value=None): the accessor and everything it inlines never read HTTP_HOST',
    'the application passes ASCII header names to get_header (RFC 9110 field names are tokens); the ASGI name cache holds name -> name.lower().encode("latin1") (invariant checked at its only writer)',
]
NOT_DECIDED = [
    'the grammars themselves: _parse_forwarded_header (regex scanner), _parse_cookie_header, _parse_etags / ETag.loads, strptime formats, mediatypes.quality are opaque here; '
    'agreement with an independent RFC reader is only checked by the bounded differential `bounded()` (labelled, never counted as proved), as are the date and entity-tag write-then-read round trips',
    'X-Forwarded-For with more than 3 addresses and Forwarded with more than 2 elements (symbolic piece counts need a sequence invariant over the list comprehension)',
    'QUICK TIER ONLY: access_route with two Forwarded elements that BOTH carry a port or brackets (the cross product of the parse_host cases, ~180 paths of word equations, '
    '~5 min per twin) runs as four harnesses with tier="thorough" ([forwarded,hops=2,two-hops=2,...]); the quick tier covers every combination in which at least one "for" is absent or bare',
    'ASGI access_route when scope["client"] carries an empty host string: the route is then empty and remote_addr raises IndexError (environment input, not a header; seen while reading)',
    'Request.headers / headers_lower / get_param* / client_prefers / user_agent, auth, expect, if_range, referer (_header_property one-liners) are not part of the accessor list of C09',
    'parse_host on its own (functional specification for every shape): decided where the accessors use it; C10 owns the function',
]
TRUSTED = [
    'int model, latin-1 codec model, word-equation hooks (_occurrence, _hook_rfind, _hook_slice, _split_model) in contracts/C09_request_headers.py',
    'stand-ins Parser / Opaque / NaiveDT / Strptime / NameCache and the `patched` rebinding of module-level names (falcon.request._parse_forwarded_header, '
    'falcon.request_helpers._parse_etags / _parse_cookie_header, falcon.util.http_date_to_dt, falcon.util.misc._strptime, falcon.util.mediatypes.quality)',
    'spec-side decomposition of a host / node value (port_text, spec_node_host, spec_host_port) reads the value by first / last occurrence of ":" and "]:" (RFC 3986 3.2, RFC 7239 6)',
]
_WSGI_ROUTE_BLOCKS = """            if 'HTTP_FORWARDED' in self.env:
                self._cached_access_route = []
                for hop in self.forwarded or ():
                    if hop.src is not None:
                        host, __ = parse_host(hop.src)
                        self._cached_access_route.append(host)
            elif 'HTTP_X_FORWARDED_FOR' in self.env:
                addresses = self.env['HTTP_X_FORWARDED_FOR'].split(',')
                self._cached_access_route = [ip.strip() for ip in addresses]
            elif 'HTTP_X_REAL_IP' in self.env:
"""
_WSGI_ROUTE_BLOCKS_SWAPPED = """            if 'HTTP_X_FORWARDED_FOR' in self.env:
                addresses = self.env['HTTP_X_FORWARDED_FOR'].split(',')
                self._cached_access_route = [ip.strip() for ip in addresses]
            elif 'HTTP_FORWARDED' in self.env:
                self._cached_access_route = []
                for hop in self.forwarded or ():
                    if hop.src is not None:
                        host, __ = parse_host(hop.src)
                        self._cached_access_route.append(host)
            elif 'HTTP_X_REAL_IP' in self.env:
"""
_ASGI_ROUTE_BLOCKS = """            if b'forwarded' in headers:
                self._cached_access_route = []
                for hop in self.forwarded or ():
                    if hop.src is not None:
                        host, __ = parse_host(hop.src)
                        self._cached_access_route.append(host)
            elif b'x-forwarded-for' in headers:
                addresses = headers[b'x-forwarded-for'].decode('latin1').split(',')
                self._cached_access_route = [ip.strip() for ip in addresses]
            elif b'x-real-ip' in headers:
"""
_ASGI_ROUTE_BLOCKS_SWAPPED = """            if b'x-forwarded-for' in headers:
                addresses = headers[b'x-forwarded-for'].decode('latin1').split(',')
                self._cached_access_route = [ip.strip() for ip in addresses]
            elif b'forwarded' in headers:
                self._cached_access_route = []
                for hop in self.forwarded or ():
                    if hop.src is not None:
                        host, __ = parse_host(hop.src)
                        self._cached_access_route.append(host)
            elif b'x-real-ip' in headers:
"""
KILLS = [
    # a removed try/except around int()
    ('falcon/request.py', "        try:\n            value_as_int = int(value)\n        except ValueError:\n            msg = 'The value of the header must be a number.'\n            raise errors.HTTPInvalidHeader(msg, 'Content-Length')\n",
     "        value_as_int = int(value)\n", 'falcon.request:Request.content_length#escape-only-400-class'),
    # < vs <= in range validation: bytes=5-5 rejected
    ('falcon/request.py', '                if last_num < first_num:\n', '                if last_num <= first_num:\n', 'falcon.request:Request.range#closed-range-value'),
    # suffix-range sign
    ('falcon/request.py', '                first_num, last_num = (-int(last), -1)\n', '                first_num, last_num = (int(last), -1)\n', 'falcon.request:Request.range#suffix-range-value'),
    # "bytes=5" (no dash) accepted as an open range
    ('falcon/request.py', '            if not sep:\n                raise ValueError()\n\n            if first and last:\n', '            if first and last:\n', 'falcon.request:Request.range#range-without-dash-rejected'),
    # narrowed except clause: ValueError of int() becomes a 500
    ('falcon/request.py', "        except ValueError:\n            msg = 'The value of the header must be an integer.'\n", "        except TypeError:\n            msg = 'The value of the header must be an integer.'\n",
     'falcon.request:Request.get_header_as_int#escape-only-400-class'),
    ('falcon/request.py', "        except ValueError:\n            msg = 'It must be formatted according to RFC 7231, Section 7.1.1.1'\n", "        except TypeError:\n            msg = 'It must be formatted according to RFC 7231, Section 7.1.1.1'\n",
     'falcon.request:Request.get_header_as_datetime#escape-only-400-class'),
    # default port swap 80 <-> 443
    ('falcon/request.py', "            default_port = 80 if self.env['wsgi.url_scheme'] == 'http' else 443\n", "            default_port = 443 if self.env['wsgi.url_scheme'] == 'http' else 80\n",
     'falcon.request:Request.port#host-without-port-gets-the-scheme-default-port'),
    ('falcon/request.py', "            if self.scheme == 'https':\n                if port != '443':\n", "            if self.scheme == 'https':\n                if port != '80':\n",
     'falcon.request:Request.netloc#port-omitted-iff-it-is-the-default-of-the-scheme'),
    # cache never written
    ('falcon/request.py', '            self._cached_uri = value\n\n        return self._cached_uri\n', '            return value\n\n        return self._cached_uri\n', 'falcon.request:Request.uri#result-cached'),
    ('falcon/request.py', '            self._cached_forwarded = _parse_forwarded_header(forwarded)\n', '            return _parse_forwarded_header(forwarded)\n', 'falcon.request:Request.forwarded#result-cached'),
    # cache ignored: parsed on every access
    ('falcon/request.py', '        if self._cached_if_match is _UNSET:\n', '        if True:\n', 'falcon.request:Request.if_match#second-access-returns-the-identical-value'),
    # header name not upper-cased
    ('falcon/request.py', "        wsgi_name = name.upper().replace('-', '_')\n", "        wsgi_name = name.replace('-', '_')\n", 'falcon.request:Request.get_header#any-casing-of-the-name-finds-the-header'),
    # remote address appended when it IS already the last element
    ('falcon/request.py', '                if self._cached_access_route[-1] != self.remote_addr:\n', '                if self._cached_access_route[-1] == self.remote_addr:\n',
     'falcon.request:Request.access_route#route-is-forwarded-then-x-forwarded-for-then-x-real-ip-then-remote-addr'),
    # last hop instead of first hop
    ('falcon/request.py', '                host = forwarded[0].host or self.netloc\n', '                host = forwarded[-1].host or self.netloc\n', 'falcon.request:Request.forwarded_host#first-hop-host-then-x-forwarded-host-then-own-netloc'),
    # last cookie value wins
    ('falcon/request.py', '            self._cookies_collapsed = {n: v[0] for n, v in self._cookies.items()}\n', '            self._cookies_collapsed = {n: v[-1] for n, v in self._cookies.items()}\n',
     'falcon.request:Request.cookies#each-cookie-maps-to-its-first-value'),
    ('falcon/request.py', '        return subdomain if sep else None\n', '        return subdomain\n', 'falcon.request:Request.subdomain#single-label-host-has-no-subdomain'),
    # malformed Accept header counts as acceptance
    ('falcon/request.py', '        except ValueError:\n            return False\n', '        except ValueError:\n            return True\n', 'falcon.request:Request.client_accepts#exact-match-or-wildcard-else-nonzero-quality-else-false'),
    # obs-date loop gives up after the first format
    ('falcon/util/misc.py', '        except ValueError:\n            continue\n', '        except TypeError:\n            continue\n', 'falcon.util.misc:http_date_to_dt#ValueError-only-after-every-format-failed'),
    # ASGI twins
    ('falcon/asgi/request.py', '        if value_as_int < 0:\n', '        if value_as_int <= 0:\n', 'falcon.asgi.request:Request.content_length#digits-yield-their-value'),
    ('falcon/asgi/request.py', "            asgi_name = name.lower().encode('latin1')\n", "            asgi_name = name.encode('latin1')\n", 'falcon.asgi.request:Request.get_header#any-casing-of-the-name-finds-the-header'),
    ('falcon/asgi/request.py', '            default_port = 443 if self._secure_scheme else 80\n            __, port = parse_host(host_header, default_port=default_port)\n',
     '            default_port = 80 if self._secure_scheme else 443\n            __, port = parse_host(host_header, default_port=default_port)\n', 'falcon.asgi.request:Request.port#host-without-port-gets-the-scheme-default-port'),
    ('falcon/asgi/request.py', '                if port != 443:\n', '                if port != 80:\n', 'falcon.asgi.request:Request.netloc#host-header-verbatim-else-server-with-port-omitted-iff-default'),
    # parse_host: port of a bracketed literal starts one character early
    ('falcon/util/uri.py', '            return (host[1:pos], int(host[pos + 2 :]))\n', '            return (host[0:pos], int(host[pos + 2 :]))\n', 'falcon.request:Request.host#bracketed-literal-with-port-splits-into-address-and-port'),
    # --- each of the following manifests only for an input that an earlier version of this file held fixed ---------------------------
    # precedence between the route headers when several are present (X-Forwarded-For consulted before Forwarded)
    ('falcon/request.py', _WSGI_ROUTE_BLOCKS, _WSGI_ROUTE_BLOCKS_SWAPPED,
     'falcon.request:Request.access_route#route-is-forwarded-then-x-forwarded-for-then-x-real-ip-then-remote-addr'),
    ('falcon/asgi/request.py', _ASGI_ROUTE_BLOCKS, _ASGI_ROUTE_BLOCKS_SWAPPED,
     'falcon.asgi.request:Request.access_route#route-is-forwarded-then-x-forwarded-for-then-x-real-ip-then-client'),
    # only the first Forwarded element is parsed: needs a SECOND element with a port / brackets
    ('falcon/request.py', '                        host, __ = parse_host(hop.src)\n',
     '                        host, __ = parse_host(hop.src) if not self._cached_access_route else (hop.src, None)\n',
     'falcon.request:Request.access_route#route-is-forwarded-then-x-forwarded-for-then-x-real-ip-then-remote-addr'),
    ('falcon/asgi/request.py', '                        host, __ = parse_host(hop.src)\n',
     '                        host, __ = parse_host(hop.src) if not self._cached_access_route else (hop.src, None)\n',
     'falcon.asgi.request:Request.access_route#route-is-forwarded-then-x-forwarded-for-then-x-real-ip-then-client'),
    # two Forwarded elements AND a lower-priority header
    ('falcon/request.py', '            if self._cached_access_route:\n                if self._cached_access_route[-1] != self.remote_addr:\n',
     "            if self._cached_access_route:\n                if 'HTTP_FORWARDED' in self.env and len(self._cached_access_route) > 1 and 'HTTP_X_REAL_IP' in self.env:\n"
     "                    self._cached_access_route[-1] = self.env['HTTP_X_REAL_IP']\n                if self._cached_access_route[-1] != self.remote_addr:\n",
     'falcon.request:Request.access_route#route-is-forwarded-then-x-forwarded-for-then-x-real-ip-then-remote-addr'),
    # ASGI forwarded_host: last element instead of the first (needs two elements)
    ('falcon/asgi/request.py', '                host = forwarded[0].host or self.netloc\n', '                host = forwarded[-1].host or self.netloc\n',
     'falcon.asgi.request:Request.forwarded_host#first-hop-host-then-x-forwarded-host-then-own-netloc'),
    # ASGI port: Host header without port on a wss:// connection
    ('falcon/asgi/request.py', '            default_port = 443 if self._secure_scheme else 80\n            __, port = parse_host(host_header, default_port=default_port)\n',
     "            default_port = 443 if self.scheme == 'https' else 80\n            __, port = parse_host(host_header, default_port=default_port)\n",
     'falcon.asgi.request:Request.port#host-without-port-gets-the-scheme-default-port'),
    # "everything but http is secure": scheme ws / a websocket connection without a scheme in the scope
    ('falcon/asgi/request.py', "        return self.scheme == 'https' or self.scheme == 'wss'\n", "        return self.scheme != 'http'\n",
     'falcon.asgi.request:Request.netloc#host-header-verbatim-else-server-with-port-omitted-iff-default'),
    # a server port other than 80 / 443 / 8000
    ('falcon/asgi/request.py', '                if port != 80:\n', '                if port > 80:\n',
     'falcon.asgi.request:Request.netloc#host-header-verbatim-else-server-with-port-omitted-iff-default'),
    # ASGI host: Host header AND scope["server"] present
    ('falcon/asgi/request.py', '            host, __ = parse_host(host_header)\n',
     "            host, __ = parse_host(host_header) if not self.scope.get('server') else self._asgi_server\n", 'falcon.asgi.request:Request.host#host-without-port-gets-the-scheme-default-port'),
    # X-Forwarded-Proto without X-Forwarded-Host (forwarded scheme and host are decided independently)
    ('falcon/request.py', "                self.forwarded_scheme + '://' + self.forwarded_host + self.relative_uri\n",
     "                (self.forwarded_scheme if 'HTTP_X_FORWARDED_HOST' in self.env or 'HTTP_FORWARDED' in self.env else self.scheme)"
     " + '://' + self.forwarded_host + self.relative_uri\n", 'falcon.request:Request.forwarded_uri#value-is-the-concatenation-of-its-parts'),
    # ASGI root_path in a scope without "server"
    ('falcon/asgi/request.py', "            return self.scope['root_path']\n", "            return self.scope['root_path'] if 'server' in self.scope else ''\n",
     'falcon.request:Request.prefix#value-is-the-concatenation-of-its-parts'),
]
HARMLESS = [
    ('falcon/request.py', "            first, sep, last = req_range.partition('-')\n\n            if not sep:\n", "            first, dash, last = req_range.partition('-')\n\n            if not dash:\n"),
    ('falcon/request.py', "            netloc_value = env['SERVER_NAME']\n\n            port: str = env['SERVER_PORT']\n", "            port: str = env['SERVER_PORT']\n            netloc_value = env['SERVER_NAME']\n"),
    ('falcon/util/uri.py', "    name, _, port = host.partition(':')\n    return (name, int(port))\n", "    name, _sep, port_text = host.partition(':')\n    return (name, int(port_text))\n"),
]
