"""C09 -- typed request-header accessors agree with the RFC reading or answer 400.

Contracts on falcon/request.py (WSGI Request) and falcon/asgi/request.py (ASGI twins),
falcon/util/uri.py parse_host, falcon/util/misc.py http_date_to_dt.
"""
from __future__ import annotations

import re as _re

import z3

from pyvc.core import And, ExcVal, Iff, Implies, Ite, Len, Not, Or, Outcome, PyRaise, SStr, Unreached, mk_bool, mk_int, mk_str, _s
from pyvc.harness import harness, stubclass

PROP = 'C09'
WM = 'falcon.request'
WREQ = WM + ':Request'
AM = 'falcon.asgi.request'
AREQ = AM + ':Request'


# ---------------------------------------------------------------------------
# helpers that work in both modes (symbolic exploration / concrete replay)


def _text(x):
    return x.decode('latin-1') if isinstance(x, (bytes, bytearray)) else x


_DIGITS = None


def _digits_re():
    global _DIGITS
    if _DIGITS is None:
        _DIGITS = z3.Plus(z3.Range(z3.StringVal('0'), z3.StringVal('9')))
    return _DIGITS


def is_digits(x):
    """x is 1*DIGIT (RFC 9110 ABNF)."""
    if isinstance(x, SStr):
        return mk_bool(z3.InRe(x.t, _digits_re()))
    return bool(_re.fullmatch('[0-9]+', _text(x)))


def digits_value(x):
    """Decimal value of 1*DIGIT."""
    if isinstance(x, SStr):
        return mk_int(z3.StrToInt(x.t))
    return int(_text(x)) if _re.fullmatch('[0-9]+', _text(x)) else -1


def contains(s, sub):
    if isinstance(s, SStr):
        return s.contains(sub)
    return sub in s


def py_int_ok(x):
    """Python's int(x) accepts x (spec-side mirror of the int model)."""
    if isinstance(x, SStr):
        return mk_bool(PY_INT_OK(x.t))
    try:
        int(x)
        return True
    except ValueError:
        return False


def is_400(v, exc, cls='falcon:HTTPBadRequest'):
    return exc is not None and exc.isa(v.real(cls))


def escape_only_400(v, out, clause='escape-only-400-class'):
    """Sentence: 'for invalid input either returns a lenient reading or raises a 400-class HTTP error, never any other exception'."""
    v.check(clause, out.exc is None or out.exc.isa(v.real('falcon:HTTPBadRequest')))


def header_name_of(exc):
    """The header name an HTTPInvalidHeader / HTTPMissingHeader was raised for (second / first positional argument)."""
    if exc.cls.__name__ == 'HTTPMissingHeader':
        return exc.args[0] if exc.args else exc.kwargs.get('header_name')
    return exc.args[1] if len(exc.args) > 1 else exc.kwargs.get('header_name')


# ---------------------------------------------------------------------------
# model of int(str) (Python language reference, built-in int, base 10)

PY_INT = z3.Function('py.int', z3.StringSort(), z3.IntSort())
PY_INT_OK = z3.Function('py.int.accepts', z3.StringSort(), z3.BoolSort())


def int_model(I, s, *rest):
    if rest:
        raise Unreached('int(str, base)')
    ctx = I.ctx
    t = s.t
    digits = z3.InRe(t, _digits_re())
    # 1*DIGIT is accepted with its decimal value
    ctx.assume(mk_bool(z3.Implies(digits, z3.And(PY_INT_OK(t), PY_INT(t) == z3.StrToInt(t)))))
    # the empty string is rejected; a literal without '-' is never negative
    ctx.assume(mk_bool(z3.Implies(z3.Length(t) == 0, z3.Not(PY_INT_OK(t)))))
    ctx.assume(mk_bool(z3.Implies(z3.And(PY_INT_OK(t), z3.Not(z3.Contains(t, z3.StringVal('-')))), PY_INT(t) >= 0)))
    if ctx.branch(z3.Not(PY_INT_OK(t)), label='int()-raises-ValueError'):
        ctx.raise_py(ValueError, 'invalid literal for int() with base 10')
    return mk_int(PY_INT(t))


def latin1_codec(ctx, direction, s, enc, errors):
    """bytes.decode('latin1'): total, same code points; str.encode('latin1') of a latin-1 text likewise."""
    e = enc.lower().replace('_', '-')
    if e in ('latin1', 'latin-1', 'iso-8859-1') and errors == 'strict':
        if direction == 'decode':
            return SStr(s.t, 'str')
        if ctx.branch(z3.Not(z3.InRe(s.t, z3.Star(z3.Range(z3.StringVal(chr(0)), z3.StringVal(chr(255)))))), label='latin1-unencodable'):
            raise PyRaise(ExcVal(UnicodeEncodeError, ('latin-1', '', 0, 1, 'ordinal not in range(256)')))
        return SStr(s.t, 'bytes')
    raise Unreached('%s with codec %r has no model' % (direction, enc))


def _base_setup(reg, ex):
    reg.int_parser = int_model
    ex.codec_handler = latin1_codec


# ---------------------------------------------------------------------------
# building requests

WSGI_FIELDS = dict(
    _cached_access_route=None, _cached_forwarded=None, _cached_forwarded_prefix=None, _cached_forwarded_uri=None, _cached_headers=None,
    _cached_headers_lower=None, _cached_prefix=None, _cached_relative_uri=None, _cached_uri=None, is_websocket=False, uri_template=None,
)


def wsgi_env(v, optional=(), always=()):
    """A WSGI environ: the keys in `always` are present, each key in `optional` is present or absent; values are arbitrary strings."""
    env = {}
    for k in always:
        env[k] = v.str(k)
    for k in optional:
        if v.choose(2, 'has-' + k):
            env[k] = v.str(k)
    return env


def wsgi_req(v, env, **fields):
    f = dict(WSGI_FIELDS)
    f.update(fields)
    return v.obj(WREQ, env=env, **f)


# ---------------------------------------------------------------------------
# content_length


def neg_literal(v, name):
    """A header value '-' 1*DIGIT, with the instance of the int() axiom for it: int('-' d) == -int(d)."""
    d = v.str(name)
    v.assume(is_digits(d))
    raw = '-' + d
    if isinstance(raw, SStr):
        v.assume(mk_bool(z3.And(PY_INT_OK(raw.t), PY_INT(raw.t) == -z3.StrToInt(d.t))))
    return raw, d


def spec_content_length(v, raw, out, neg_digits=None):
    """raw: header value or None.  Written from the statement / DESIGN.md C09 (2)."""
    Invalid = v.real('falcon:HTTPInvalidHeader')
    escape_only_400(v, out)
    if neg_digits is not None:
        if digits_value(neg_digits) > 0:
            v.check('negative-number-is-invalid-header-400', out.exc is not None and out.exc.isa(Invalid))
            v.cover('negative')
        else:
            v.check('minus-zero-reads-as-zero-or-400', out.exc.isa(Invalid) if out.exc is not None else out.value == 0)
        return
    if raw is None or Len(raw) == 0:
        v.check('absent-or-empty-is-None', out.exc is None and out.value is None)
        v.cover('absent-or-empty')
        return
    if is_digits(raw):
        v.check('digits-yield-their-value', out.exc is None and out.value is not None and out.value == digits_value(raw))
        v.cover('digits')
        return
    if not py_int_ok(raw):
        v.check('not-a-number-is-invalid-header-400', out.exc is not None and out.exc.isa(Invalid))
        if out.exc is not None and out.exc.isa(Invalid):
            v.check('invalid-header-names-content-length', header_name_of(out.exc) == 'Content-Length')
        v.cover('not-a-number')
        return
    # lenient readings of int(): sign, surrounding blanks, underscores
    if out.exc is None:
        v.check('lenient-reading-is-never-negative', out.value is not None and out.value >= 0)
        v.cover('lenient')
    else:
        v.check('lenient-rejection-is-invalid-header-400', out.exc.isa(Invalid))


@harness(PROP, WREQ + '.content_length', setup=_base_setup)
def wsgi_content_length(v):
    if v.choose(2, 'minus-digits'):
        raw, d = neg_literal(v, 'digits')
        env = {'CONTENT_LENGTH': raw}
    else:
        d = None
        env = wsgi_env(v, optional=['CONTENT_LENGTH'])
    req = wsgi_req(v, env)
    out = v.call(req)
    spec_content_length(v, env.get('CONTENT_LENGTH'), out, d)


# ---------------------------------------------------------------------------
# range / range_unit


def range_wf(f, l):
    """The three RFC 9110 forms (also the precondition handed to C16)."""
    return Or(And(f >= 0, l >= f), And(f >= 0, l == -1), And(f < 0, l == -1))


def spec_range(v, raw, out):
    Invalid = v.real('falcon:HTTPInvalidHeader')
    escape_only_400(v, out)

    def rejected(clause):
        v.check(clause, out.exc is not None and out.exc.isa(Invalid))
        if out.exc is not None and out.exc.isa(Invalid):
            v.check('invalid-header-names-range', header_name_of(out.exc) == 'Range')

    if raw is None:
        v.check('missing-header-is-None', out.exc is None and out.value is None)
        v.cover('missing')
        return
    if out.exc is None:
        ok = out.value is not None and len(out.value) == 2
        v.check('result-is-a-pair', ok)
        if not ok:
            return
        v.check('result-is-one-of-the-three-rfc-forms', range_wf(out.value[0], out.value[1]))
    if not contains(raw, '='):
        rejected('unit-without-equals-rejected')
        v.cover('no-equals')
        return
    unit, _, spec = raw.partition('=')
    if contains(spec, ','):
        rejected('multiple-ranges-rejected')
        v.cover('comma')
        return
    if not contains(spec, '-'):
        rejected('range-without-dash-rejected')
        return
    first, _, last = spec.partition('-')
    has_f, has_l = Len(first) > 0, Len(last) > 0
    if Or(And(has_f, Not(py_int_ok(first))), And(has_l, Not(py_int_ok(last)))):
        rejected('non-numeric-offset-rejected')
        v.cover('non-numeric')
        return
    if not has_f and not has_l:
        rejected('missing-offsets-rejected')
        return
    if has_f and has_l:
        if is_digits(first) and is_digits(last):
            fv, lv = digits_value(first), digits_value(last)
            if fv <= lv:
                v.check('closed-range-value', out.exc is None and And(out.value[0] == fv, out.value[1] == lv))
                v.cover('closed')
            else:
                rejected('last-before-first-rejected')
                v.cover('inverted')
    elif has_f:
        if is_digits(first):
            v.check('open-range-value', out.exc is None and And(out.value[0] == digits_value(first), out.value[1] == -1))
            v.cover('open')
    else:
        if is_digits(last):
            lv = digits_value(last)
            if lv > 0:
                v.check('suffix-range-value', out.exc is None and And(out.value[0] == -lv, out.value[1] == -1))
                v.cover('suffix')
            else:
                rejected('zero-suffix-rejected')
                v.cover('zero-suffix')


@harness(PROP, WREQ + '.range', setup=_base_setup, inline=[WREQ + '.get_header'])
def wsgi_range(v):
    env = wsgi_env(v, optional=['HTTP_RANGE'])
    req = wsgi_req(v, env)
    out = v.call(req)
    spec_range(v, env.get('HTTP_RANGE'), out)


def spec_range_unit(v, raw, out):
    Invalid = v.real('falcon:HTTPInvalidHeader')
    escape_only_400(v, out)
    if raw is None:
        v.check('missing-header-is-None', out.exc is None and out.value is None)
        return
    if contains(raw, '='):
        v.check('unit-is-the-text-before-the-first-equals', out.exc is None and out.value is not None and out.value == raw.partition('=')[0])
        v.cover('unit')
    else:
        v.check('unit-without-equals-rejected', out.exc is not None and out.exc.isa(Invalid) and header_name_of(out.exc) == 'Range')
        v.cover('no-equals')


@harness(PROP, WREQ + '.range_unit', setup=_base_setup, inline=[WREQ + '.get_header'])
def wsgi_range_unit(v):
    env = wsgi_env(v, optional=['HTTP_RANGE'])
    req = wsgi_req(v, env)
    out = v.call(req)
    spec_range_unit(v, env.get('HTTP_RANGE'), out)


ASSUMPTIONS = []
NOT_DECIDED = []
TRUSTED = []
KILLS = []
HARMLESS = []
