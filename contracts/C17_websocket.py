"""C17 -- WebSocket sessions follow the ASGI state machine and report misuse and errors.

Contracts on falcon/asgi/ws.py (class WebSocket: every public operation, the
private _send/_receive/_require_accepted/_translate_webserver_error inlined into
them, __init__, the closed/ready/unaccepted properties, _supports_reason,
http_status_to_ws_code) and on falcon/asgi/app.py (_handle_websocket,
_handle_exception with ws=..., the ws branches of the four error handlers,
_ws_cleanup_on_error).

Specification = session monitor + typestate invariant.

SESSION MONITOR (class Send, the ASGI server's `send` callable).  States
CONNECTING --accept--> OPEN --close--> CLOSED, CONNECTING --close--> CLOSED
(denial, HTTP 403), plus LOST (the server raised an error that tells the
application the connection is gone).  Every *attempt* to hand an event to `send`
is checked against the current state (`session-legal:*` clauses); the monitor
advances only when `send` returns (an event counts only then).  A raising `send`
moves the monitor to LOST when the error is one the code classifies as a lost
connection (OSError, "code = 1000 (OK)", rejected subprotocol), and leaves it
where it was for any other server error.  Ghost `gone`: a 'websocket.disconnect'
event has been handed to the framework (by receive(), or seen by the receive
pump: `client_disconnected`).

TYPESTATE INVARIANT I, assumed at entry of and re-established by every public
operation (arbitrary start state: v.choose over the _WebSocketState members):

    _state == HANDSHAKE  =>  monitor == CONNECTING
    _state == ACCEPTED   =>  monitor == OPEN
    _state == CLOSED     =>  monitor in {CLOSED, LOST}  or  gone
    gone                 =>  _state == CLOSED  or  receiver.client_disconnected
    _state != CLOSED     =>  _close_code is None

The responder / middleware / custom error handlers at app level are opaque
participants that drive the socket through its public API only; since every
public operation preserves I, a participant is summarised by "leaves the socket in
an arbitrary state satisfying I" (rely/guarantee), then returns or raises.

The receive-side buffering (_BufferedReceiver: pump, queue, waiters) belongs to
C18; here the buffered receiver is an opaque stub (class Receiver) whose
`client_disconnected` flag may flip at every await point while the pump runs.
"""
from __future__ import annotations

from pyvc.core import And, ExcVal, Implies, Ite, Len, Not, Or, PyRaise, SStr, Unreached
from pyvc.harness import Ready, harness, stubclass

PROP = 'C17'
M = 'falcon.asgi.ws'
WS = M + ':WebSocket'
AM = 'falcon.asgi.app'
APP = AM + ':App'

CONNECTING, OPEN, CLOSED, LOST = 0, 1, 2, 3  # monitor states (ints so that an arbitrary one can be a symbolic value)

INLINE = [WS + '.*', 'falcon.errors:WebSocketDisconnected.__init__']


# ---------------------------------------------------------------------------
# helpers that work on symbolic and on plain values


def same(a, b):
    """a == b where either side may be None."""
    if a is None or b is None:
        return a is None and b is None
    return a == b


def norm_code(raw):
    """WebSocketDisconnected(code).code: `code or 1000`."""
    if raw is None:
        return 1000
    return Ite(raw == 0, 1000, raw)


def exc_code(exc):
    """The .code attribute of a raised WebSocketDisconnected."""
    if exc.real is not None:
        return exc.real.code
    return exc.fields['code']


def _raise(v, exc):
    """Raise a real exception object into the subject (both modes)."""
    if v.concrete:
        raise exc
    raise PyRaise(ExcVal(type(exc), exc.args, real=exc))


def is_exc(out, exc):
    """The outcome is exactly this exception object (propagated unchanged); `exc` is a real exception or a symbolic ExcVal."""
    return out.exc is not None and exc is not None and (out.exc is exc or out.exc.real is exc)


def event_is(ev, **fields):
    """The event dict has exactly these keys with these values."""
    if not isinstance(ev, dict) or set(ev.keys()) != set(fields):
        return False
    return And(*[same(ev[k], val) for k, val in fields.items()])


# ---------------------------------------------------------------------------
# ghost session + stubs of the server side


class Session:
    """Protocol monitor state shared by the stubs."""

    __pyvc_symbolic__ = True

    def __init__(self, mon, gone):
        self.mon = mon
        self.gone = gone
        self.sent = []  # events the server accepted (send returned), framework-originated only
        self.tried = []  # every event handed to send, accepted or not
        self.attempts = 0  # calls of send
        self.refused = False  # the server raised something that is not a lost connection
        self.lost_error = None  # the exception object the server raised last
        self.receives = 0


# what a server may raise from send(); LOST_KINDS are the ones falcon classifies as a lost connection
FATES = ('returns', 'oserror', 'oserror-with-cause-1001', 'closed-ok-1000', 'subprotocol-rejected', 'other-server-error', 'close-code-rejected')
LOST_FATES = (1, 2, 3, 4)
ALL_FATES = (0, 1, 2, 3, 4, 5, 6)


def server_error(fate):
    if fate == 1:
        return OSError('connection closed')
    if fate == 2:
        e = OSError('client disconnected')
        e.__cause__ = Exception('received 1001 (going away); then sent 1001 (going away)')
        return e
    if fate == 3:
        return Exception('received 1000 (OK); then sent 1000 (OK): code = 1000 (OK), no reason')
    if fate == 4:
        return Exception('protocol accepted must be from the list client sent in its handshake request')
    if fate == 6:
        # Daphne / autobahn refusing the close code of a websocket.close event; the connection itself is still there
        return Exception('Invalid close code 4999 (must be 1000 or from [3000, 4999])')
    return RuntimeError('server-specific failure')


# close code the framework must report for each lost-connection error (None: not a WebSocketDisconnected)
FATE_CODE = {1: 1000, 2: 1001, 3: 1000}


@stubclass
class Send:
    """The ASGI server's `send` callable with the session monitor inside."""

    def __init__(self, v, sess, rx=None, fates=ALL_FATES):
        self.v = v
        self.sess = sess
        self.rx = rx
        self.fates = fates
        self.fate = None  # what the server did with the last event
        self.seen = []  # ... with every event, in order

    def __call__(self, event):
        v, s = self.v, self.sess
        s.attempts += 1
        s.tried.append(event)
        t = event.get('type') if isinstance(event, dict) else None
        m = s.mon
        v.check('session-legal:no-send-attempt-after-the-server-reported-the-connection-lost', m != LOST)
        v.check('session-legal:nothing-after-close', m != CLOSED)
        if t == 'websocket.accept':
            v.check('session-legal:accept-only-once-while-connecting', m == CONNECTING)
        elif t == 'websocket.send':
            v.check('session-legal:data-only-between-accept-and-close', m == OPEN)
        elif t == 'websocket.close':
            v.check('session-legal:close-while-connecting-or-open', Or(m == CONNECTING, m == OPEN))
        else:
            v.check('session-legal:known-event-type', False)
        v.check('session-legal:nothing-after-client-disconnect-was-delivered', Not(s.gone))
        fate = self.fates[v.choose(len(self.fates), 'send-fate')]
        self.fate = fate
        self.seen.append(fate)
        if self.rx is not None:
            self.rx.tick()
        if fate == 0:
            if t == 'websocket.accept':
                s.mon = OPEN
            elif t == 'websocket.close':
                s.mon = CLOSED
            s.sent.append(event)
            return Ready(None)
        err = server_error(fate)
        s.lost_error = err
        if fate in LOST_FATES:
            s.mon = LOST
        else:
            s.refused = True
        _raise(v, err)


@stubclass
class Receiver:
    """ws._buffered_receiver (C18's object) as far as WebSocket uses it."""

    def __init__(self, v, sess, buffered, disc, dcode, source):
        self.v = v
        self.sess = sess
        self.buffered = buffered
        self.client_disconnected = disc
        self.client_disconnected_code = dcode
        self.source = source
        self.pump_may_run = buffered
        self.starts = 0
        self.stops = 0
        self.stopped_before_first_send = None

    def start(self):
        self.starts += 1
        if self.buffered:
            self.pump_may_run = True

    def stop(self):
        self.stops += 1
        if self.stopped_before_first_send is None:
            self.stopped_before_first_send = self.sess.attempts == 0
        self.pump_may_run = False
        return Ready(None)

    def receive(self):
        # buffered mode: ws._asgi_receive is this bound method
        self.tick()
        return self.source()

    def tick(self):
        """An await point: the pump task may run and see the client's disconnect."""
        v = self.v
        if self.buffered and self.pump_may_run and not self.client_disconnected:
            if v.choose(2, 'pump-sees-disconnect-now'):
                self.client_disconnected = True
                self.client_disconnected_code = v.int('pump_disconnect_code')
                self.sess.gone = True


EVENT_SHAPES = 11


@stubclass
class Receive:
    """The ASGI server's `receive` callable (after the handshake event)."""

    def __init__(self, v, sess):
        self.v = v
        self.sess = sess
        self.last = None
        self.kind = None

    def __call__(self):
        v, s = self.v, self.sess
        s.receives += 1
        k = v.choose(EVENT_SHAPES, 'event')
        self.kind = k
        if k >= 9:
            ev = {'type': 'websocket.disconnect'}
            if k == 10:
                ev['code'] = v.int('disconnect_code')
            s.gone = True
        else:
            ev = {'type': 'websocket.receive'}
            tk, bk = k // 3, k % 3  # 0 key missing, 1 None, 2 payload
            if tk == 1:
                ev['text'] = None
            elif tk == 2:
                ev['text'] = v.str('ev_text')
            if bk == 1:
                ev['bytes'] = None
            elif bk == 2:
                ev['bytes'] = v.bytes('ev_bytes')
        self.last = ev
        return Ready(ev)


@stubclass
class Codec:
    """One media-handler function (serialize / deserialize): opaque, records its argument."""

    def __init__(self, v, name, out_kind):
        self.v = v
        self.name = name
        self.out_kind = out_kind
        self.calls = []
        self.result = None

    def __call__(self, x):
        v = self.v
        self.calls.append(x)
        if self.out_kind == 'str':
            self.result = v.str(self.name)
        elif self.out_kind == 'bytes':
            self.result = v.bytes(self.name)
        else:
            self.result = _Opaque(self.name)
        return self.result


class _Opaque:
    def __init__(self, name):
        self.name = name


@stubclass
class Reasons:
    """WebSocketOptions.default_close_reasons, observed through .get(code)."""

    def __init__(self, v):
        self.v = v
        self.queried = []
        self.result = None

    def get(self, code, default=None):
        v = self.v
        self.queried.append(code)
        if v.choose(2, 'default-reason?'):
            self.result = v.str('default_reason')
        else:
            self.result = default
        return self.result


class Env:
    pass


def states(v):
    return v.real(M + ':_WebSocketState')


def mk(v):
    """A WebSocket in an arbitrary state satisfying the typestate invariant."""
    St = states(v)
    si = v.choose(3, 'state')
    state = (St.HANDSHAKE, St.ACCEPTED, St.CLOSED)[si]
    rk = v.choose(3, 'receiver')  # 0 unbuffered (max_receive_queue == 0); 1 buffered; 2 buffered, pump saw the disconnect
    buffered, disc = rk > 0, rk == 2
    dcode = v.int('client_disconnected_code') if disc else None
    close_code = None
    if si == 0:
        mon, gone = CONNECTING, disc
    elif si == 1:
        mon, gone = OPEN, disc
    else:
        mon = v.int('monitor', CONNECTING, LOST)
        gone = True if disc else v.bool('client_gone')
        v.assume(Or(mon == CLOSED, mon == LOST, gone))
        if v.choose(2, 'close_code?'):
            close_code = v.int('close_code0')
    e = Env()
    e.v = v
    e.sess = Session(mon, gone)
    e.recv = Receive(v, e.sess)
    e.rx = Receiver(v, e.sess, buffered, disc, dcode, e.recv)
    e.send = Send(v, e.sess, e.rx)
    e.reasons = Reasons(v)
    e.text_ser, e.text_de = Codec(v, 'text_serialized', 'str'), Codec(v, 'text_deserialized', 'obj')
    e.bin_ser, e.bin_de = Codec(v, 'bin_serialized', 'bytes'), Codec(v, 'bin_deserialized', 'obj')
    e.supports_headers = v.bool('supports_accept_headers')
    e.supports_reason = v.bool('supports_reason')
    e.ws = v.obj(
        WS,
        _asgi_receive=e.rx.receive if buffered else e.recv,
        _asgi_send=e.send,
        _buffered_receiver=e.rx,
        _close_code=close_code,
        _close_reasons=e.reasons,
        _supports_accept_headers=e.supports_headers,
        _supports_reason=e.supports_reason,
        _mh_text_serialize=e.text_ser,
        _mh_text_deserialize=e.text_de,
        _mh_bin_serialize=e.bin_ser,
        _mh_bin_deserialize=e.bin_de,
        _state=state,
        subprotocols=(),
    )
    e.state0, e.mon0, e.gone0, e.code0, e.disc0, e.dcode0 = state, mon, gone, close_code, disc, dcode
    e.St = St
    return e


def inv(e):
    """The typestate invariant on the current state of e."""
    v, St, s = e.v, e.St, e.sess
    st = v.get(e.ws, '_state')
    if st is St.HANDSHAKE:
        link = s.mon == CONNECTING
    elif st is St.ACCEPTED:
        link = s.mon == OPEN
    else:
        link = Or(s.mon == CLOSED, s.mon == LOST, s.gone)
    gone_ok = Implies(s.gone, Or(st is St.CLOSED, e.rx.client_disconnected))
    code_ok = True if st is St.CLOSED else v.get(e.ws, '_close_code') is None
    return And(link, gone_ok, code_ok)


def unchanged(e):
    """Frame: state, close code and monitor are what they were."""
    v = e.v
    return And(v.get(e.ws, '_state') is e.state0, same(v.get(e.ws, '_close_code'), e.code0), e.sess.mon == e.mon0)


def nothing_sent(e):
    return e.sess.attempts == 0


def raised(v, out, dotted):
    return out.exc is not None and out.exc.isa(v.real(dotted))


ONA = 'falcon.errors:OperationNotAllowed'
WSD = 'falcon.errors:WebSocketDisconnected'
PTE = 'falcon.errors:PayloadTypeError'


def _setup(reg, ex):
    from pyvc.interp import Closure, deep_concrete

    def m_bytes(I, x=b'', *rest):
        if isinstance(x, SStr) and x.kind == 'bytes' and not rest:
            return x  # bytes(b) == b for a bytes object
        if deep_concrete(x) and deep_concrete(rest):
            return bytes(x, *rest)
        raise Unreached('bytes() of %r' % (x,))

    reg.add_model(bytes, m_bytes)

    def exc_init(I, ev):
        # run the real __init__ of WebSocketDisconnected (self.code = code or 1000) on symbolic arguments
        import falcon.errors as fe

        if ev.isa(fe.WebSocketDisconnected):
            r = I.class_attr(ev.cls, '__init__')
            if r is not None and isinstance(r[1], Closure):
                I.call(r[1], [ev] + list(ev.args), dict(ev.kwargs))

    reg.exc_init_hook = exc_init

    import logging

    for name in ('error', 'warning', 'debug', 'info', 'exception'):
        reg.add_model(getattr(logging.Logger, name), lambda I, self, *a, **k: None)


def after_failed_send(v, e, out, what):
    """Documented outcome of an operation whose event the server refused (via WebSocket._send)."""
    St = e.St
    fate = e.send.fate
    ws = e.ws
    if fate in FATE_CODE:
        v.check(what + ':lost-connection-raises-WebSocketDisconnected', raised(v, out, WSD))
        if raised(v, out, WSD):
            v.check(what + ':lost-connection-error-carries-the-code', exc_code(out.exc) == FATE_CODE[fate])
        v.check(what + ':lost-connection-marks-the-socket-closed', And(v.get(ws, '_state') is St.CLOSED, same(v.get(ws, '_close_code'), FATE_CODE[fate])))
    elif fate == 4:
        v.check(what + ':rejected-subprotocol-raises-ValueError', out.exc is not None and out.exc.isa(ValueError) and not raised(v, out, ONA))
        v.check(what + ':rejected-subprotocol-marks-the-socket-closed', v.get(ws, '_state') is St.CLOSED)
    else:
        v.check(what + ':other-server-errors-propagate-unchanged', is_exc(out, e.sess.lost_error))
        v.check(what + ':other-server-errors-leave-the-state-alone', And(v.get(ws, '_state') is e.state0, same(v.get(ws, '_close_code'), e.code0)))


# ---------------------------------------------------------------------------
# accept


HEADER_SHAPES = 6


def header_arg(v):
    k = v.choose(HEADER_SHAPES, 'headers')
    if k == 0:
        return None, None, False
    if k == 1:
        return [], None, False
    if k == 2:
        return [('X-Trace', 'abc'), ('Set-Cookie', 'k=v')], [(b'x-trace', b'abc'), (b'set-cookie', b'k=v')], False
    if k == 3:
        return {'X-Trace': 'abc'}, [(b'x-trace', b'abc')], False
    if k == 4:
        return [('Sec-WebSocket-Protocol', 'chat')], None, True
    return {}, None, False


@harness(PROP, WS + '.accept', inline=INLINE, setup=_setup)
def ws_accept(v):
    e = mk(v)
    St, s, ws = e.St, e.sess, e.ws
    spk = v.choose(3, 'subprotocol')
    subprotocol = None if spk == 0 else (v.str('subprotocol') if spk == 1 else 42)
    headers, wire_headers, forbidden = header_arg(v)
    if subprotocol is None and headers is None and v.choose(2, 'arguments-omitted?'):
        out = v.call(ws)  # accept(): the documented defaults are "no subprotocol, no headers"
    else:
        out = v.call(ws, subprotocol, headers)

    closed0 = e.state0 is St.CLOSED or e.disc0
    if closed0:
        v.check('closed-socket-raises-OperationNotAllowed', raised(v, out, ONA))
        v.check('closed-socket-nothing-sent-nothing-changed', And(nothing_sent(e), unchanged(e)))
        v.check('invariant', inv(e))
        v.cover('accept-on-closed')
        return
    if e.state0 is St.ACCEPTED:
        v.check('second-accept-raises-OperationNotAllowed', raised(v, out, ONA))
        v.check('second-accept-nothing-sent-nothing-changed', And(nothing_sent(e), unchanged(e)))
        v.check('invariant', inv(e))
        v.cover('accept-twice')
        return
    # HANDSHAKE, client connected
    if spk == 2:
        v.check('non-string-subprotocol-raises-ValueError', out.exc is not None and out.exc.isa(ValueError))
        v.check('non-string-subprotocol-nothing-sent', And(nothing_sent(e), unchanged(e)))
        return
    if headers and Not(e.supports_headers):
        v.check('headers-on-spec-2.0-raise-OperationNotAllowed', raised(v, out, ONA))
        v.check('headers-on-spec-2.0-nothing-sent', And(nothing_sent(e), unchanged(e)))
        v.cover('headers-unsupported')
        return
    if forbidden:
        v.check('sec-websocket-protocol-header-raises-ValueError', out.exc is not None and out.exc.isa(ValueError))
        v.check('sec-websocket-protocol-header-nothing-sent', And(nothing_sent(e), unchanged(e)))
        return
    expected = {'type': 'websocket.accept'}
    if spk == 1:
        expected['subprotocol'] = subprotocol
    if headers:
        expected['headers'] = wire_headers
    v.check('exactly-one-send-attempt', s.attempts == 1)
    if e.send.fate == 0:
        v.check('returns-none', out.exc is None and out.value is None)
        v.check('sends-exactly-one-accept-event', len(s.sent) == 1 and _accept_event_is(s.sent[0], expected))
        v.check('moves-to-accepted', And(v.get(ws, '_state') is St.ACCEPTED, v.get(ws, '_close_code') is None, s.mon == OPEN))
        v.check('starts-the-receive-pump-once', e.rx.starts == 1)
        v.cover('accepted')
    else:
        v.check('nothing-counted-as-sent', len(s.sent) == 0)
        after_failed_send(v, e, out, 'accept')
        v.cover('accept-send-failed')
    v.check('invariant', inv(e))


def _accept_event_is(ev, expected):
    if not isinstance(ev, dict) or set(ev.keys()) != set(expected):
        return False
    conds = [ev['type'] == expected['type']]
    if 'subprotocol' in expected:
        conds.append(ev['subprotocol'] == expected['subprotocol'])
    if 'headers' in expected:
        conds.append(list(ev['headers']) == expected['headers'])
    return And(*conds)


# ---------------------------------------------------------------------------
# close


def valid_close_code(c):
    """RFC 6455 7.4 as the documentation of close() states it: >= 1000 and not reserved."""
    return And(c >= 1000, Not(And(c >= 1004, c <= 1006)), Not(And(c >= 1015, c <= 1999)))


@harness(PROP, WS + '.close', inline=INLINE, setup=_setup)
def ws_close(v):
    e = mk(v)
    St, s, ws = e.St, e.sess, e.ws
    ck = v.choose(3, 'code-arg')
    code = None if ck == 0 else (v.int('code') if ck == 1 else '1000')
    rk = v.choose(2, 'reason-arg')
    reason = None if rk == 0 else v.str('reason')
    if code is None and reason is None and v.choose(2, 'arguments-omitted?'):
        out = v.call(ws)  # close(): the documented defaults are code 1000 and the configured default reason
    else:
        out = v.call(ws, code, reason)

    v.check('stops-the-receive-pump-first', And(e.rx.stops == 1, e.rx.stopped_before_first_send))
    if ck == 2:
        v.check('non-int-code-raises-ValueError', out.exc is not None and out.exc.isa(ValueError))
        v.check('non-int-code-nothing-sent-nothing-changed', And(nothing_sent(e), unchanged(e)))
        v.check('invariant', inv(e))
        return
    eff = 1000 if ck == 0 else code
    if ck == 1 and Not(valid_close_code(code)):
        v.check('invalid-code-raises-ValueError', out.exc is not None and out.exc.isa(ValueError))
        v.check('invalid-code-nothing-sent-nothing-changed', And(nothing_sent(e), unchanged(e)))
        v.check('invariant', inv(e))
        v.cover('invalid-code')
        return
    closed0 = e.state0 is St.CLOSED or e.disc0
    if closed0:
        v.check('idempotent-on-closed-socket', out.exc is None and out.value is None)
        v.check('idempotent-nothing-sent-nothing-changed', And(nothing_sent(e), unchanged(e)))
        v.check('invariant', inv(e))
        v.cover('close-on-closed')
        return
    v.check('exactly-one-send-attempt', s.attempts == 1)
    if e.send.fate == 0:
        v.check('returns-none', out.exc is None and out.value is None)
        if rk == 1 and Len(reason) > 0:
            eff_reason = reason  # a reason was provided
        else:
            # "if there is no reason provided, Falcon will try to look it up from the code and default_close_reasons"
            v.check('default-reason-looked-up-by-code', len(e.reasons.queried) == 1 and same(e.reasons.queried[0], eff))
            eff_reason = e.reasons.result if e.reasons.queried else None
        want_reason = eff_reason is not None and Len(eff_reason) > 0 and e.supports_reason
        if want_reason:
            v.check('sends-exactly-one-close-event-with-code-and-reason', len(s.sent) == 1 and event_is(s.sent[0], type='websocket.close', code=eff, reason=eff_reason))
            v.cover('close-with-reason')
        else:
            v.check('sends-exactly-one-close-event-with-code-and-no-reason', len(s.sent) == 1 and event_is(s.sent[0], type='websocket.close', code=eff))
            v.cover('close-without-reason')
        v.check('moves-to-closed-with-code', And(v.get(ws, '_state') is St.CLOSED, same(v.get(ws, '_close_code'), eff), s.mon == CLOSED))
        v.check('invariant', inv(e))
    else:
        v.check('nothing-counted-as-sent', len(s.sent) == 0)
        v.check('server-error-propagates', is_exc(out, s.lost_error))
        if e.send.fate in LOST_FATES:
            # the server said the connection is gone: the socket must not stay usable (see session-legal:no-send-attempt-after-...)
            v.check('lost-connection-during-close-leaves-a-consistent-state', inv(e))
            v.cover('close-send-lost')
        else:
            v.check('invariant', inv(e))


# ---------------------------------------------------------------------------
# send_text / send_data / send_media


def send_common(v, e, out, type_ok, field, value):
    """Shared decision table of the three send operations; `value` is a thunk (evaluated after the call)."""
    St, s, ws = e.St, e.sess, e.ws
    if e.state0 is St.HANDSHAKE:
        v.check('before-accept-raises-OperationNotAllowed', raised(v, out, ONA))
        v.check('before-accept-nothing-sent-nothing-changed', And(nothing_sent(e), unchanged(e)))
        v.check('invariant', inv(e))
        v.cover('send-before-accept')
        return
    if e.state0 is St.CLOSED:
        v.check('after-close-raises-WebSocketDisconnected', raised(v, out, WSD))
        if raised(v, out, WSD):
            v.check('after-close-error-carries-the-close-code', exc_code(out.exc) == norm_code(e.code0))
        v.check('after-close-nothing-sent-nothing-changed', And(nothing_sent(e), unchanged(e)))
        v.check('invariant', inv(e))
        v.cover('send-after-close')
        return
    if not type_ok:
        v.check('wrong-payload-type-raises-TypeError', out.exc is not None and out.exc.isa(TypeError))
        v.check('wrong-payload-type-nothing-sent-nothing-changed', And(nothing_sent(e), unchanged(e)))
        v.check('invariant', inv(e))
        v.cover('send-wrong-type')
        return
    if e.disc0:
        v.check('after-client-disconnect-raises-WebSocketDisconnected', raised(v, out, WSD))
        if raised(v, out, WSD):
            v.check('after-client-disconnect-error-carries-the-client-code', exc_code(out.exc) == norm_code(e.dcode0))
        v.check('after-client-disconnect-nothing-sent', nothing_sent(e))
        v.check('after-client-disconnect-socket-closed-with-client-code', And(v.get(ws, '_state') is St.CLOSED, same(v.get(ws, '_close_code'), e.dcode0)))
        v.check('invariant', inv(e))
        v.cover('send-after-disconnect')
        return
    v.check('exactly-one-send-attempt', s.attempts == 1)
    if e.send.fate == 0:
        v.check('returns-none', out.exc is None and out.value is None)
        v.check('payload-forwarded-unchanged-in-one-send-event', len(s.sent) == 1 and event_is(s.sent[0], **{'type': 'websocket.send', field: value()}))
        v.check('state-unchanged', unchanged(e))
        v.cover('sent')
    else:
        v.check('nothing-counted-as-sent', len(s.sent) == 0)
        after_failed_send(v, e, out, 'send')
    v.check('invariant', inv(e))


@harness(PROP, WS + '.send_text', inline=INLINE, setup=_setup)
def ws_send_text(v):
    e = mk(v)
    pk = v.choose(3, 'payload')
    payload = v.str('payload') if pk == 0 else (v.bytes('payload_bytes') if pk == 1 else None)
    out = v.call(e.ws, payload)
    send_common(v, e, out, pk == 0, 'text', lambda: payload)


@harness(PROP, WS + '.send_data', inline=INLINE, setup=_setup)
def ws_send_data(v):
    e = mk(v)
    pk = v.choose(4, 'payload')
    if pk == 0:
        payload = v.bytes('payload')
        wire = payload
    elif pk == 1:
        payload, wire = bytearray(b'\x00\xffab'), b'\x00\xffab'
    elif pk == 2:
        payload, wire = memoryview(b'abc\x80'), b'abc\x80'
    else:
        payload, wire = v.str('payload_text'), None
    out = v.call(e.ws, payload)
    send_common(v, e, out, pk != 3, 'bytes', lambda: wire)


@harness(PROP, WS + '.send_media', inline=INLINE, setup=_setup)
def ws_send_media(v):
    e = mk(v)
    PT = v.real('falcon.constants:WebSocketPayloadType')
    media = _Opaque('media')
    tk = v.choose(3, 'payload_type')
    if tk == 0:
        out = v.call(e.ws, media)
    else:
        out = v.call(e.ws, media, PT.TEXT if tk == 1 else PT.BINARY)
    ser, other = (e.bin_ser, e.text_ser) if tk == 2 else (e.text_ser, e.bin_ser)
    send_common(v, e, out, True, 'bytes' if tk == 2 else 'text', lambda: ser.result)
    if e.sess.attempts == 1:
        v.check('serialized-once-by-the-handler-of-the-payload-type', len(ser.calls) == 1 and ser.calls[0] is media and len(other.calls) == 0)


# ---------------------------------------------------------------------------
# receive_text / receive_data / receive_media


def receive_common(v, e, out):
    """Cases shared by the three receive operations; returns the delivered event or None when done."""
    St, s, ws = e.St, e.sess, e.ws
    v.check('receive-never-sends', nothing_sent(e))
    if e.state0 is St.HANDSHAKE:
        v.check('before-accept-raises-OperationNotAllowed', raised(v, out, ONA))
        v.check('before-accept-nothing-received-nothing-changed', And(s.receives == 0, unchanged(e)))
        v.check('invariant', inv(e))
        v.cover('receive-before-accept')
        return None
    if e.state0 is St.CLOSED:
        v.check('after-close-raises-WebSocketDisconnected', raised(v, out, WSD))
        if raised(v, out, WSD):
            v.check('after-close-error-carries-the-close-code', exc_code(out.exc) == norm_code(e.code0))
        v.check('after-close-nothing-received-nothing-changed', And(s.receives == 0, unchanged(e)))
        v.check('invariant', inv(e))
        v.cover('receive-after-close')
        return None
    v.check('exactly-one-event-taken-from-the-server', s.receives == 1)
    ev = e.recv.last
    if ev['type'] == 'websocket.disconnect':
        code = ev.get('code', 1000)
        v.check('disconnect-raises-WebSocketDisconnected', raised(v, out, WSD))
        if raised(v, out, WSD):
            v.check('disconnect-error-carries-the-client-code', exc_code(out.exc) == norm_code(code))
        v.check('disconnect-closes-the-socket-with-the-client-code', And(v.get(ws, '_state') is St.CLOSED, same(v.get(ws, '_close_code'), code)))
        v.check('invariant', inv(e))
        v.cover('receive-disconnect')
        return None
    v.check('message-leaves-the-state-alone', And(v.get(ws, '_state') is e.state0, same(v.get(ws, '_close_code'), e.code0)))
    v.check('invariant', inv(e))
    return ev


@harness(PROP, WS + '.receive_text', inline=INLINE, setup=_setup)
def ws_receive_text(v):
    e = mk(v)
    out = v.call(e.ws)
    ev = receive_common(v, e, out)
    if ev is None:
        return
    text = ev.get('text')
    if text is None:
        v.check('binary-message-raises-PayloadTypeError', raised(v, out, PTE))
        v.cover('text-expected-bytes-received')
    else:
        v.check('returns-the-text-payload-unchanged', out.exc is None and same(out.value, text))
        v.cover('text-received')


@harness(PROP, WS + '.receive_data', inline=INLINE, setup=_setup)
def ws_receive_data(v):
    e = mk(v)
    out = v.call(e.ws)
    ev = receive_common(v, e, out)
    if ev is None:
        return
    data = ev.get('bytes')
    if data is None:
        v.check('text-message-raises-PayloadTypeError', raised(v, out, PTE))
        v.cover('bytes-expected-text-received')
    else:
        v.check('returns-the-binary-payload-unchanged', out.exc is None and same(out.value, data))
        v.cover('bytes-received')


@harness(PROP, WS + '.receive_media', inline=INLINE, setup=_setup)
def ws_receive_media(v):
    e = mk(v)
    out = v.call(e.ws)
    ev = receive_common(v, e, out)
    if ev is None:
        return
    text, data = ev.get('text'), ev.get('bytes')
    if text is not None:
        v.check('text-message-deserialized-by-the-text-handler', out.exc is None and out.value is e.text_de.result and len(e.text_de.calls) == 1
                and len(e.bin_de.calls) == 0 and same(e.text_de.calls[0], text))
        v.cover('media-from-text')
    elif data is not None:
        v.check('binary-message-deserialized-by-the-binary-handler', out.exc is None and out.value is e.bin_de.result and len(e.bin_de.calls) == 1
                and len(e.text_de.calls) == 0 and same(e.bin_de.calls[0], data))
        v.cover('media-from-bytes')
    else:
        v.check('message-without-payload-raises-PayloadTypeError', raised(v, out, PTE))
        v.cover('media-without-payload')



# ---------------------------------------------------------------------------
# the three state properties


def _prop_harness(name, clause, expect):
    @harness(PROP, WS + '.' + name, name='ws_' + name, inline=INLINE, setup=_setup)
    def h(v):
        e = mk(v)
        out = v.call(e.ws)
        closed = e.state0 is e.St.CLOSED
        v.check(clause, out.exc is None and out.value == expect(e, closed))
        v.check('pure', And(nothing_sent(e), e.sess.receives == 0, unchanged(e)))

    return h


_prop_harness('closed', 'closed-iff-closed-by-the-server-or-client-disconnected', lambda e, closed: closed or e.disc0)
_prop_harness('ready', 'ready-iff-accepted-and-client-still-connected', lambda e, closed: e.state0 is e.St.ACCEPTED and not e.disc0)
_prop_harness('unaccepted', 'unaccepted-iff-handshake-pending', lambda e, closed: e.state0 is e.St.HANDSHAKE)


# ---------------------------------------------------------------------------
# construction, spec-version predicates, status mapping

VERSIONS = ('2.0', '2.1', '2.2', '2.3', '2.4', '2.10', '3.0')


def _ver_tuple(ver):
    return tuple(int(x) for x in ver.split('.'))


@stubclass
class MediaHandler:
    def __init__(self, v, kind):
        self.serialize = Codec(v, kind + '_serialized', 'str' if kind == 'text' else 'bytes')
        self.deserialize = Codec(v, kind + '_deserialized', 'obj')


def _setup_init(reg, ex):
    import asyncio

    _setup(reg, ex)
    # _BufferedReceiver.__init__ only remembers the loop (C18 uses it)
    reg.add_model(asyncio.get_running_loop, lambda I: _Opaque('event-loop'))


def _in_loop(v, thunk):
    """Concrete replay of code that needs a running event loop (asyncio.get_running_loop())."""
    if not v.concrete:
        return thunk()
    import asyncio

    async def go():
        return thunk()

    loop = asyncio.new_event_loop()
    try:
        return loop.run_until_complete(go())
    finally:
        loop.close()


@harness(PROP, WS + '.__init__', inline=INLINE + [M + ':_BufferedReceiver.__init__'], setup=_setup_init)
def ws_init(v):
    PT = v.real('falcon.constants:WebSocketPayloadType')
    St = states(v)
    ver = v.one_of('ver', *VERSIONS)
    subs = v.one_of('subprotocols', None, [], ['chat', 'superchat'])
    scope = {'type': 'websocket'}
    if subs is not None:
        scope['subprotocols'] = subs
    sess = Session(CONNECTING, False)
    recv, send = Receive(v, sess), Send(v, sess)
    text_h, bin_h = MediaHandler(v, 'text'), MediaHandler(v, 'bin')
    maxq = v.one_of('max_receive_queue', 0, 1, 4)
    reasons = Reasons(v)
    ws = v.obj(WS)
    out = _in_loop(v, lambda: v.call(ws, ver, scope, recv, send, {PT.TEXT: text_h, PT.BINARY: bin_h}, maxq, reasons))
    v.check('no-exception', out.exc is None)
    if out.exc is not None:
        return
    g = lambda n: v.get(ws, n)
    v.check('starts-in-handshake-without-close-code', g('_state') is St.HANDSHAKE and g('_close_code') is None)
    v.check('nothing-sent-or-received-by-construction', sess.attempts == 0 and sess.receives == 0)
    v.check('bound-to-the-server-send', g('_asgi_send') is send)
    rx = g('_buffered_receiver')
    if maxq == 0:
        v.check('unbuffered-mode-receives-directly-from-the-server', g('_asgi_receive') is recv)
        v.cover('unbuffered')
    else:
        ar = g('_asgi_receive')
        owner = getattr(ar, 'self_obj', None) if not v.concrete else getattr(ar, '__self__', None)
        fname = ar.func.qualname if not v.concrete else ar.__func__.__qualname__
        v.check('buffered-mode-receives-through-the-buffered-receiver', owner is rx and fname == '_BufferedReceiver.receive')
        v.cover('buffered')
    v.check('buffered-receiver-wraps-the-server-receive', v.get(rx, '_asgi_receive') is recv and v.get(rx, '_max_queue') == maxq
            and v.get(rx, 'client_disconnected') is False and v.get(rx, 'client_disconnected_code') is None)
    v.check('accept-headers-supported-from-spec-2.1', g('_supports_accept_headers') == (ver != '2.0'))
    v.check('close-reason-supported-from-spec-2.3', g('_supports_reason') == (_ver_tuple(ver) >= (2, 3)))
    v.check('media-handlers-by-payload-type', g('_mh_text_serialize') is text_h.serialize and g('_mh_text_deserialize') is text_h.deserialize
            and g('_mh_bin_serialize') is bin_h.serialize and g('_mh_bin_deserialize') is bin_h.deserialize)
    v.check('default-close-reasons-kept', g('_close_reasons') is reasons)
    v.check('subprotocols-as-offered-by-the-client', g('subprotocols') == tuple(subs or ()))


@harness(PROP, M + ':_supports_reason')
def supports_reason(v):
    ver = v.one_of('ver', *VERSIONS)
    out = v.call(ver)
    v.check('reason-supported-iff-spec-version-at-least-2.3', out.exc is None and out.value == (_ver_tuple(ver) >= (2, 3)))


@harness(PROP, M + ':http_status_to_ws_code')
def status_to_ws_code(v):
    s = v.int('http_status')
    out = v.call(s)
    v.check('close-code-is-3000-plus-status', out.exc is None and out.value == 3000 + s)


# ---------------------------------------------------------------------------
# app level: _handle_websocket, _handle_exception(ws=...), the four error handlers, _ws_cleanup_on_error


class Boom(Exception):
    """An application exception with a custom error handler registered (custom-handler variants)."""


@stubclass
class AppReceive:
    """The server's receive callable as _handle_websocket sees it: the handshake event first."""

    def __init__(self, v, sess, first):
        self.v = v
        self.sess = sess
        self.first = first
        self.calls = 0

    def __call__(self):
        self.calls += 1
        if self.calls == 1:
            return Ready(self.first)
        self.v.check('framework-itself-receives-only-the-handshake-event', False)
        return Ready({'type': 'websocket.disconnect'})


@stubclass
class Req:
    def __init__(self, v):
        self.path = v.str('path')
        self.method = 'GET'
        self.is_websocket = True
        self.uri_template = None


@stubclass
class ReqFactory:
    """app._request_type"""

    def __init__(self, world):
        self.world = world
        self.calls = []

    def __call__(self, scope, receive, options=None):
        self.calls.append((scope, receive, options))
        self.world.req = Req(self.world.v)
        return self.world.req


@stubclass
class Router:
    """app._router_search: opaque; the outcome kind is fixed by the harness."""

    def __init__(self, world, route):
        self.world = world
        self.route = route
        self.calls = []

    def __call__(self, path, req=None):
        self.calls.append((path, req))
        return self.route


class World:
    """Everything around one _handle_websocket run."""

    __pyvc_symbolic__ = True

    def __init__(self, v, maxq, server_fates=(0, 1, 5), slice_=0):
        self.v = v
        self.maxq = maxq
        self.slice = slice_
        self.sess = Session(CONNECTING, False)
        # returns / lost (OSError) / other server error [/ close code refused ("invalid close code": read by _ws_cleanup_on_error)].
        # The other lost-connection shapes (2, 3, 4) are left out at app level, see NOT_DECIDED.
        self.send = Send(v, self.sess, fates=server_fates)
        self.ws = None
        self.req = None
        self.final = None
        self.order = []
        self.responder = self.request_mw = self.resource_mw = self.handler = None
        self.St = states(v)

    def see(self, args, kwargs):
        WebSocket = self.v.real(WS)
        for a in list(args) + list(kwargs.values()):
            if getattr(a, '_cls', None) is WebSocket or isinstance(a, WebSocket):
                v = self.v
                if self.ws is None:
                    v.check('participants-get-a-socket-bound-to-the-server-send', v.get(a, '_asgi_send') is self.send)
                else:
                    v.check('one-socket-per-connection', a is self.ws)
                self.ws = a
        return self.ws

    def middleware_raised(self):
        return any(p is not None and p.calls and p.fate is not None and p.fate != P_RETURNS for p in (self.request_mw, self.resource_mw))

    def havoc(self):
        """The participant used the public API: the socket is in an arbitrary state satisfying I."""
        v, St, s, ws = self.v, self.St, self.sess, self.ws
        si = v.choose(3, 'state-left')
        state = (St.HANDSHAKE, St.ACCEPTED, St.CLOSED)[si]
        disc = bool(v.choose(2, 'pump-saw-disconnect')) if self.maxq > 0 else False
        dcode = v.int('client_disconnected_code') if disc else None
        code = None
        if si == 0:
            mon, gone = CONNECTING, disc
        elif si == 1:
            mon, gone = OPEN, disc
        else:
            mon = v.int('monitor_left', CONNECTING, LOST)
            gone = True if disc else v.bool('client_gone')
            v.assume(Or(mon == CLOSED, mon == LOST, gone))
            code = v.int('close_code_left')  # nothing at app level reads it
        v.set(ws, '_state', state)
        v.set(ws, '_close_code', code)
        rx = v.get(ws, '_buffered_receiver')
        v.set(rx, 'client_disconnected', disc)
        v.set(rx, 'client_disconnected_code', dcode)
        s.mon, s.gone = mon, gone
        self.final = (state, mon, gone, disc, code)


P_RETURNS, P_HTTP_ERROR, P_HTTP_STATUS, P_DISCONNECTED, P_EXCEPTION, P_BOOM = range(6)

# The variants of the _handle_websocket harness are cut along "slices" so that an input is multiplied only with the inputs
# it interacts with in _handle_websocket / _handle_exception / the four error handlers / _ws_cleanup_on_error:
#   S_BASE          every route kind x middleware? x custom handler? x queue; every responder outcome; middleware returns or
#                   raises HTTPError / an unexpected exception; the custom handler declares `ws` and returns or raises
#                   HTTPError / HTTPStatus / an unexpected exception; the server takes an event, loses the connection
#                   (OSError) or refuses with some other error
#   S_CODE_REFUSED  the server refuses the CODE of a close event ("invalid close code", Daphne): read by _ws_cleanup_on_error
#                   only, which is entered through the WebSocketDisconnected / unexpected-exception handlers: responder raises
#                   one of the two, all four server outcomes at every send
#   S_MW_RAISES     a middleware method raises what S_BASE lets only the responder raise (HTTPStatus, WebSocketDisconnected,
#                   the exception with a custom handler), for process_request_ws and process_resource_ws, every route kind:
#                   runs in which no middleware method raises are cut (S_BASE)
#   S_HANDLER_KINDS the custom handler does NOT declare a `ws` parameter (every handler outcome), and the handler outcome
#                   "raises WebSocketDisconnected" (e.g. it tried to send on a closed socket) for a handler that does
S_BASE, S_CODE_REFUSED, S_MW_RAISES, S_HANDLER_KINDS = range(4)


@stubclass
class Participant:
    """A responder / middleware method / custom error handler: opaque code using the socket's public API."""

    def __init__(self, world, name, last, fates):
        self.world = world
        self.name = name
        self.last = last  # no other participant runs after a normal return of this one
        self.fates = fates
        self.fate = None
        self.calls = []
        self.status = None
        self.code = None
        self.error = None

    def run(self, args, kwargs):
        w = self.world
        v = w.v
        self.calls.append((args, kwargs))
        w.order.append(self.name)
        ws = w.see(args, kwargs)
        fate = self.fates[v.choose(len(self.fates), self.name + '-does')]
        self.fate = fate
        if w.slice == S_MW_RAISES and not w.middleware_raised() and (self is w.responder or (fate == P_RETURNS and self.last)):
            v.cut()  # no middleware method raised: covered by S_BASE
        if ws is not None and (fate != P_RETURNS or self.last):
            w.havoc()
        if fate == P_RETURNS:
            return Ready(None)
        if fate in (P_HTTP_ERROR, P_HTTP_STATUS):
            cls = v.real('falcon:HTTPError' if fate == P_HTTP_ERROR else 'falcon:HTTPStatus')
            s = v.int(self.name + '_status', 100, 599)
            self.status = s
            if v.concrete:
                self.error = cls(s)
                raise self.error
            ev = ExcVal(cls, (s,))
            ev.fields['status'] = s
            ev.fields['status_code'] = s  # HTTPError.status_code / HTTPStatus.status_code: the integer code of .status (C05)
            self.error = ev
            raise PyRaise(ev)
        if fate == P_DISCONNECTED:
            cls = v.real(WSD)
            c = v.int(self.name + '_disconnect_code', 1000, 4999)
            self.code = c
            if v.concrete:
                self.error = cls(c)
                raise self.error
            ev = ExcVal(cls, (c,))
            ev.fields['code'] = c
            self.error = ev
            raise PyRaise(ev)
        err = RuntimeError('application bug') if fate == P_EXCEPTION else Boom('boom')
        self.error = err
        _raise(v, err)

    def __call__(self, *args, **kwargs):
        return self.run(args, kwargs)


@stubclass
class ErrorHandler(Participant):
    """A custom error handler that declares the optional `ws` parameter."""

    takes_ws = True

    def __call__(self, req, resp, ex, params, ws=None):
        self.world.v.check('custom-handler-declaring-a-ws-parameter-gets-the-socket', ws is not None)
        self.got = (req, resp, ex, params)
        return self.run((req, resp, ex, params), {'ws': ws})


@stubclass
class ErrorHandlerNoWs(Participant):
    """A custom error handler with the plain (req, resp, ex, params) signature: it must not be handed a `ws` keyword."""

    takes_ws = False

    def __call__(self, req, resp, ex, params, **unexpected):
        self.world.v.check('custom-handler-without-a-ws-parameter-gets-the-four-documented-arguments-only', not unexpected)
        self.got = (req, resp, ex, params)
        return self.run((req, resp, ex, params), {})


def _setup_app(reg, ex):
    import falcon.util.misc as misc
    from pyvc.interp import BoundMethod, Closure

    _setup_init(reg, ex)

    def get_argnames(I, func):
        # inspect.signature: positional-or-keyword / keyword-only names, without a leading self
        f = func.func if isinstance(func, BoundMethod) else func
        if isinstance(f, Closure):
            a = f.node.args
            names = [x.arg for x in a.posonlyargs + a.args + a.kwonlyargs]
            if isinstance(func, BoundMethod) and names:
                names = names[1:]
            if names and names[0] == 'self':
                names = names[1:]
            return names
        return misc.get_argnames(func)

    reg.stubs['falcon.util.misc:get_argnames'] = get_argnames

    import falcon.asgi.ws as wsmod

    def supports_reason_contract(I, asgi_ver):
        # callee contract of _supports_reason (proved by harness supports_reason for the spec versions 2.0-2.4, 2.10, 3.0)
        spec = I.ctx.ghost.get('spec')
        if spec is None or isinstance(asgi_ver, str):
            return wsmod._supports_reason(asgi_ver)  # concrete version (harness handshake_abandoned)
        if asgi_ver is not spec[0]:
            raise Unreached('_supports_reason asked about something other than the connection\'s spec version')
        return spec[1]

    reg.add_model(wsmod._supports_reason, supports_reason_contract)


APP_INLINE = INLINE + [
    M + ':_BufferedReceiver.__init__',
    M + ':_BufferedReceiver.stop',
    M + ':_BufferedReceiver.start',
    M + ':http_status_to_ws_code',
    APP + '._handle_exception',
    APP + '._http_status_handler',
    APP + '._http_error_handler',
    APP + '._python_error_handler',
    APP + '._ws_disconnected_error_handler',
    APP + '._ws_cleanup_on_error',
    'falcon.app:App._get_responder',
    'falcon.app:App._find_error_handler',
    'falcon.responders:*',
    'falcon.routing.util:set_default_responders',
]

UNROUTED, NO_RESPONDER, ROUTED = 0, 1, 2
DEFAULT_HANDLERS = ('_python_error_handler', '_http_error_handler', '_http_status_handler', '_ws_disconnected_error_handler')


@stubclass
class WsOptions:
    def __init__(self, v, maxq):
        PT = v.real('falcon.constants:WebSocketPayloadType')
        self.error_close_code = v.int('error_close_code')
        self.max_receive_queue = maxq
        self.media_handlers = {PT.TEXT: MediaHandler(v, 'text'), PT.BINARY: MediaHandler(v, 'bin')}
        self.default_close_reasons = Reasons(v)


def build_app(v, w, route_kind, with_mw, custom):
    """The App object around _handle_websocket (real App in concrete mode)."""
    resource = _Opaque('resource')
    boom = (P_BOOM,) if custom else ()
    responder_fates = (P_RETURNS, P_HTTP_ERROR, P_HTTP_STATUS, P_DISCONNECTED, P_EXCEPTION) + boom
    mw_fates = (P_RETURNS, P_HTTP_ERROR, P_EXCEPTION)
    handler_cls, handler_fates = ErrorHandler, (P_RETURNS, P_HTTP_ERROR, P_HTTP_STATUS, P_EXCEPTION)
    if w.slice == S_CODE_REFUSED:
        responder_fates = (P_DISCONNECTED, P_EXCEPTION)
    elif w.slice == S_MW_RAISES:
        # a middleware method is application code like the responder: it may raise anything the responder may raise
        # (with a custom handler registered for Boom only Boom is new: the registration does not interact with the other two)
        # (the responder must not run at all once a middleware method raised; if it does, it just returns)
        responder_fates, mw_fates = (P_RETURNS,), ((P_RETURNS, P_BOOM) if custom else (P_RETURNS, P_HTTP_STATUS, P_DISCONNECTED))
    elif w.slice == S_HANDLER_KINDS:
        responder_fates = (P_BOOM,)
        # falcon passes the socket to an error handler only when its signature declares a `ws` parameter: both kinds of handler
        if v.choose(2, 'handler-takes-ws?'):
            handler_fates = (P_DISCONNECTED,)
        else:
            handler_cls, handler_fates = ErrorHandlerNoWs, (P_RETURNS, P_HTTP_ERROR, P_HTTP_STATUS, P_DISCONNECTED, P_EXCEPTION)
    w.responder = Participant(w, 'responder', True, responder_fates)
    w.request_mw = Participant(w, 'process_request_ws', route_kind == UNROUTED, mw_fates) if with_mw else None
    w.resource_mw = Participant(w, 'process_resource_ws', route_kind == NO_RESPONDER, mw_fates) if with_mw else None
    w.handler = handler_cls(w, 'custom_handler', True, handler_fates) if custom else None
    if route_kind == UNROUTED:
        route = None
    else:
        method_map = {'GET': _Opaque('on_get')}
        if route_kind == ROUTED:
            method_map['WEBSOCKET'] = w.responder
        # the router stores method maps completed by set_default_responders (falcon/routing/compiled.py add_route)
        r = v.call(method_map, asgi=True, target='falcon.routing.util:set_default_responders')
        v.check('default-responders-installed', r.exc is None and 'WEBSOCKET' in method_map)
        w.params = {'room': v.str('room')}
        route = (resource, method_map, w.params, '/rooms/{room}')
    w.router = Router(w, route)
    w.factory = ReqFactory(w)
    w.options = WsOptions(v, w.maxq)
    w.req_options = _Opaque('req_options')
    mw = ((w.request_mw,), (w.resource_mw,)) if with_mw else ((), ())
    if v.concrete:
        import falcon.asgi

        app = falcon.asgi.App()
        app._request_type = w.factory
        app.req_options = w.req_options
        app.ws_options = w.options
        app._middleware_ws = mw
        app._router_search = w.router
        app._sink_and_static_routes = ()
        if custom:
            app._error_handlers[Boom] = w.handler
        return app
    app = v.obj(APP, _request_type=w.factory, req_options=w.req_options, ws_options=w.options, _middleware_ws=mw, _router_search=w.router,
                _sink_and_static_routes=())
    I = v.interp
    HTTPError, HTTPStatus, WSDisc = v.real('falcon:HTTPError'), v.real('falcon:HTTPStatus'), v.real(WSD)
    handlers = {
        Exception: I.getattr(app, '_python_error_handler'),
        HTTPError: I.getattr(app, '_http_error_handler'),
        HTTPStatus: I.getattr(app, '_http_status_handler'),
        WSDisc: I.getattr(app, '_ws_disconnected_error_handler'),
    }
    if custom:
        handlers[Boom] = w.handler
    v.set(app, '_error_handlers', handlers)
    return app


def is_close(ev, code):
    """A 'websocket.close' event with exactly this code (and at most a reason besides)."""
    if not isinstance(ev, dict) or not set(ev.keys()) <= {'type', 'code', 'reason'} or 'code' not in ev:
        return False
    return And(ev.get('type') == 'websocket.close', ev['code'] == code)


def handle_websocket(v):
    # the spec version is an arbitrary string; what _supports_reason makes of it is its own contract (harness
    # supports_reason): an arbitrary boolean here, so that both answers are covered without enumerating versions
    supports = v.bool('server_supports_close_reason')
    ver = ('2.4' if supports else '2.0') if v.concrete else v.str('spec_version')
    v.ctx.ghost['spec'] = (ver, supports)
    maxq = v.one_of('max_receive_queue', 0, 4)
    route_kind = v.choose(3, 'route')
    with_mw = v.choose(2, 'middleware?')
    custom = v.choose(2, 'custom-error-handler?')
    slice_ = v.choose(4, 'slice')  # fixed by every variant, see S_BASE ... S_HANDLER_KINDS
    if slice_ == S_CODE_REFUSED:
        v.expect_covers('close-code-refused')
    elif slice_ == S_HANDLER_KINDS:
        v.expect_covers('custom-handler-ran', 'custom-handler-without-ws-ran')
    elif slice_ == S_MW_RAISES:
        v.expect_covers('middleware-raised')
    w = World(v, maxq, (0, 1, 5, 6) if slice_ == S_CODE_REFUSED else (0, 1, 5), slice_)
    s = w.sess
    app = build_app(v, w, route_kind, with_mw, custom)
    recv = AppReceive(v, s, {'type': 'websocket.connect'})
    scope = {'type': 'websocket', 'path': '/rooms/1', 'subprotocols': ['chat']}
    ecc = w.options.error_close_code

    out = v.call(app, ver, scope, recv, w.send)

    v.check('request-built-once-from-scope-and-receive', len(w.factory.calls) == 1 and w.factory.calls[0][0] is scope and w.factory.calls[0][1] is recv
            and w.factory.calls[0][2] is w.req_options)
    # --- who ran, in which order, and what the last one did -------------------------------------
    ran = list(w.order)
    last = {'process_request_ws': w.request_mw, 'process_resource_ws': w.resource_mw, 'responder': w.responder, 'custom_handler': w.handler}.get(ran[-1]) if ran else None
    raiser = None
    for p in (w.request_mw, w.resource_mw, w.responder):
        if p is not None and p.calls and p.fate != P_RETURNS:
            raiser = p
    expected_order = []
    if with_mw:
        expected_order.append('process_request_ws')
    if not (with_mw and w.request_mw.fate != P_RETURNS):
        if route_kind != UNROUTED and with_mw:
            expected_order.append('process_resource_ws')
        if route_kind == ROUTED and not (with_mw and w.resource_mw.fate != P_RETURNS):
            expected_order.append('responder')
    if raiser is not None and raiser.fate == P_BOOM:
        expected_order.append('custom_handler')
    v.check('middleware-then-responder-in-order', ran == expected_order)
    if w.responder.calls:
        a, k = w.responder.calls[0]
        v.check('responder-gets-request-socket-and-route-params', len(a) == 2 and a[0] is w.req and a[1] is w.ws and set(k) == {'room'} and k['room'] is w.params['room'])
    if w.handler is not None and w.handler.calls:
        h_req, h_resp, h_ex, h_params = w.handler.got
        if raiser is w.request_mw or route_kind == UNROUTED:
            params_ok = isinstance(h_params, dict) and len(h_params) == 0  # nothing routed yet / no route
        else:
            params_ok = h_params is w.params
        v.check('custom-handler-gets-the-request-no-response-the-raised-exception-and-the-route-params',
                h_req is w.req and h_resp is None and (h_ex is raiser.error or getattr(h_ex, 'real', None) is raiser.error) and params_ok)
        v.cover('custom-handler-ran' if w.handler.takes_ws else 'custom-handler-without-ws-ran')

    # --- which close the statement demands ----------------------------------------------------------
    # cause: what ended the conversation
    if raiser is None:
        if route_kind == UNROUTED:
            cause, want = 'unrouted', 3404
        elif route_kind == NO_RESPONDER:
            cause, want = 'no-responder', 3405
        else:
            cause, want = 'returned', 1000
    elif raiser.fate in (P_HTTP_ERROR, P_HTTP_STATUS):
        cause, want = 'http', 3000 + raiser.status
    elif raiser.fate in (P_DISCONNECTED, P_EXCEPTION):
        cause, want = 'error', None
    else:
        h = w.handler
        if h.fate == P_RETURNS:
            cause, want = 'handled', None
        elif h.fate in (P_HTTP_ERROR, P_HTTP_STATUS):
            cause, want = 'http', 3000 + h.status
        else:
            cause, want = 'handler-failed', None
    v.cover('cause:' + cause) if cause in ('unrouted', 'no-responder', 'returned', 'http', 'error') else None
    if raiser is not None and raiser is not w.responder:
        v.cover('middleware-raised')

    if w.final is None:
        # no participant touched the socket: it is as constructed
        state, mon, gone, disc = w.St.HANDSHAKE, CONNECTING, False, False
    else:
        state, mon, gone, disc, _code = w.final
    open_ = state is not w.St.CLOSED and not disc  # the application did not close and the client is still there
    n_sent = len(s.sent)

    if cause in ('handled', 'handler-failed'):
        # a custom error handler took the exception; the statement still demands a close when nobody closed
        if cause == 'handled':
            v.check('handled-exception-returns-normally', out.exc is None)
        else:
            v.check('error-from-custom-handler-propagates', is_exc(out, w.handler.error))
        if open_:
            v.check('close-sent-when-a-custom-handler-leaves-the-socket-open', And(s.mon == CLOSED, s.attempts >= 1))
        else:
            v.check('nothing-sent-on-a-closed-or-lost-connection', s.attempts == 0)
        return

    if not open_:
        v.check('nothing-sent-on-a-closed-or-lost-connection', s.attempts == 0)
        v.check('returns-normally-when-already-closed', out.exc is None)
        v.cover('ends-already-closed')
        return

    # the socket is open (CONNECTING or OPEN by the invariant) and the client is connected: a close is due
    if cause == 'error':
        want = Ite(valid_close_code(ecc), ecc, 3011)
    v.check('a-close-is-attempted', s.attempts >= 1)
    if not w.send.seen or w.send.seen[0] != 0:
        # the server refused the framework's close event: nothing more is demanded here; whatever the
        # framework tries next is judged by the session monitor (session-legal:* clauses)
        v.check('refused-close-not-counted', Implies(len(w.send.seen) == 1, n_sent == 0))
        v.cover('final-close-refused')
        if w.send.seen and w.send.seen[0] == 6 and cause == 'error':
            # the server (Daphne) refused the CODE of the close event, the connection is still there: when that code was the
            # configured error_close_code the close is repeated with the fallback code, so that the client is not left hanging
            if valid_close_code(ecc):
                v.check('close-code-refused-by-the-server-falls-back-to-3011', len(s.tried) >= 2 and is_close(s.tried[0], ecc) and is_close(s.tried[1], 3011))
                v.cover('close-code-refused')
        return
    v.check('exactly-one-event-sent', And(s.attempts == 1, n_sent == 1))
    ev = s.sent[0] if s.sent else None
    if cause == 'unrouted':
        v.check('unrouted-path-closes-with-3404', is_close(ev, 3404))
    elif cause == 'no-responder':
        v.check('missing-responder-closes-with-3405', is_close(ev, 3405))
    elif cause == 'returned':
        v.check('normal-return-closes-with-1000', is_close(ev, 1000))
    elif cause == 'http':
        v.check('http-error-or-status-closes-with-3000-plus-status', is_close(ev, want))
    else:
        v.check('unexpected-error-closes-with-error_close_code-or-3011-when-that-is-invalid', is_close(ev, want))
    v.check('exception-handled-returns-normally', out.exc is None)
    v.check('session-closed', And(s.mon == CLOSED, v.get(w.ws, '_state') is w.St.CLOSED) if w.ws is not None else s.mon == CLOSED)
    v.cover('closed-by-framework')


def _variant(name, slice_, route, mw, custom, q):
    harness(PROP, APP + '._handle_websocket', name='handle_websocket[%s]' % name, inline=APP_INLINE, setup=_setup_app,
            fix={'slice': slice_, 'route': route, 'middleware?': mw, 'custom-error-handler?': custom, 'max_receive_queue': q})(handle_websocket)


for _r, _rn in ((UNROUTED, 'unrouted'), (NO_RESPONDER, 'no-responder'), (ROUTED, 'routed')):
    for _mw in (0, 1):
        for _c in (0, 1):
            if _c and _r != ROUTED:
                continue  # S_BASE: the custom handler is reached from the responder only (from middleware: S_MW_RAISES)
            for _q in (0, 1):
                _variant('%s,mw=%d,custom=%d,queue=%d' % (_rn, _mw, _c, (0, 4)[_q]), S_BASE, _r, _mw, _c, _q)
for _q in (0, 1):
    _variant('close-code-refused,queue=%d' % (0, 4)[_q], S_CODE_REFUSED, ROUTED, 0, 0, _q)
    _variant('handler-kinds,queue=%d' % (0, 4)[_q], S_HANDLER_KINDS, ROUTED, 0, 1, _q)
    for _r, _rn in ((UNROUTED, 'unrouted'), (NO_RESPONDER, 'no-responder'), (ROUTED, 'routed')):
        for _c in (0, 1):
            _variant('middleware-raises,%s,custom=%d,queue=%d' % (_rn, _c, (0, 4)[_q]), S_MW_RAISES, _r, 1, _c, _q)


@harness(PROP, APP + '._handle_websocket', name='handshake_abandoned', inline=APP_INLINE, setup=_setup_app)
def handshake_abandoned(v):
    """A first event other than websocket.connect: one close 1011 and return; no request, no socket, no routing."""
    ver = v.one_of('spec-version', '2.0', '2.1', '2.2', '2.3', '2.4')
    w = World(v, 0)
    s = w.sess
    app = build_app(v, w, ROUTED, 1, 0)
    fk = v.choose(3, 'first-event')
    first = [{'type': 'websocket.disconnect', 'code': 1001}, {'type': 'websocket.receive', 'text': 'early'}, {'type': 'http.request'}][fk]
    recv = AppReceive(v, s, first)
    out = v.call(app, ver, {'type': 'websocket', 'path': '/rooms/1'}, recv, w.send)
    v.check('exactly-one-send-attempt', s.attempts == 1)
    v.check('nothing-else-runs', len(w.factory.calls) == 0 and len(w.router.calls) == 0 and w.order == [] and recv.calls == 1)
    if w.send.fate == 0:
        v.check('returns-normally', out.exc is None and out.value is None)
        if _ver_tuple(ver) >= (2, 3):
            v.check('one-close-1011-with-reason', len(s.sent) == 1 and event_is(s.sent[0], type='websocket.close', code=1011, reason='Internal Server Error'))
            v.cover('with-reason')
        else:
            v.check('one-close-1011-without-reason', len(s.sent) == 1 and event_is(s.sent[0], type='websocket.close', code=1011))
            v.cover('without-reason')
        v.check('session-closed', s.mon == CLOSED)
    else:
        v.check('server-error-propagates', is_exc(out, s.lost_error))


# ---------------------------------------------------------------------------
# kill matrix (file, old text occurring exactly once, new text, expected obligation substring)

_WS = 'falcon/asgi/ws.py'
_APP = 'falcon/asgi/app.py'

KILLS = [
    # close() no longer idempotent: a second websocket.close goes out on a closed socket
    (_WS, "        if self.closed:\n            return\n\n        response = ", "        response = ", 'WebSocket.close#session-legal:nothing-after-close'),
    # state guard of accept() removed
    (_WS, "        if self._state != _WebSocketState.HANDSHAKE:\n            raise errors.OperationNotAllowed(\n                'accept() may only be called once",
     "        if False:\n            raise errors.OperationNotAllowed(\n                'accept() may only be called once", 'WebSocket.accept#session-legal:accept-only-once-while-connecting'),
    # _state set BEFORE the send succeeds (accept / close)
    (_WS, "        await self._send(event)\n        self._state = _WebSocketState.ACCEPTED\n", "        self._state = _WebSocketState.ACCEPTED\n        await self._send(event)\n",
     'WebSocket.accept#accept:other-server-errors-leave-the-state-alone'),
    (_WS, "        await self._asgi_send(response)\n\n        self._state = _WebSocketState.CLOSED\n", "        self._state = _WebSocketState.CLOSED\n        await self._asgi_send(response)\n\n",
     'WebSocket.close#invariant'),
    # close-code range boundaries off by one
    (_WS, "        elif 1015 <= code <= 1999 or 1004 <= code <= 1006:", "        elif 1016 <= code <= 1999 or 1004 <= code <= 1006:", 'WebSocket.close#invalid-code-raises-ValueError'),
    (_WS, "        elif code < 1000:\n", "        elif code <= 1000:\n", 'WebSocket.close#idempotent-on-closed-socket'),
    # 3000 + status mapping changed (seen by the function contract and end to end)
    (_WS, "    return http_status + 3000\n", "    return http_status + 4000\n", 'http_status_to_ws_code#close-code-is-3000-plus-status'),
    (_WS, "    return http_status + 3000\n", "    return 3000 + http_status + 1\n", '_handle_websocket#unrouted-path-closes-with-3404'),
    # the final close() after a normal responder return dropped
    (_APP, "            await on_websocket(req, web_socket, **params)\n            await web_socket.close()\n", "            await on_websocket(req, web_socket, **params)\n",
     '_handle_websocket#a-close-is-attempted'),
    # payload type check removed
    (_WS, "        if not isinstance(payload, str):\n            raise TypeError('payload must be a string')\n", "", 'WebSocket.send_text#wrong-payload-type-raises-TypeError'),
    # "not yet accepted" guard removed
    (_WS, "        if self._state == _WebSocketState.HANDSHAKE:\n            raise errors.OperationNotAllowed(\n                'WebSocket connection has not yet been accepted'\n            )\n        elif self._state",
     "        if self._state", 'WebSocket.send_text#session-legal:data-only-between-accept-and-close'),
    # fallback close code
    (_APP, "_FALLBACK_WS_ERROR_CODE = 3011\n", "_FALLBACK_WS_ERROR_CODE = 1011\n", '_handle_websocket#unexpected-error-closes-with-error_close_code-or-3011-when-that-is-invalid'),
    # reason sent to servers that do not support it
    (_WS, "        if reason and self._supports_reason:  # pragma: no py311 cover", "        if reason:  # pragma: no py311 cover",
     'WebSocket.close#sends-exactly-one-close-event-with-code-and-no-reason'),
    # abandoned handshake answered with the wrong code
    (_APP, "            response = {'type': EventType.WS_CLOSE, 'code': WSCloseCode.SERVER_ERROR}\n", "            response = {'type': EventType.WS_CLOSE, 'code': WSCloseCode.NORMAL}\n",
     '_handle_websocket#one-close-1011'),
    # a client disconnect no longer closes the socket (receive side / send side)
    (_WS, "            assert event_type == EventType.WS_DISCONNECT\n\n            self._state = _WebSocketState.CLOSED\n", "            assert event_type == EventType.WS_DISCONNECT\n\n",
     'WebSocket.receive_text#disconnect-closes-the-socket-with-the-client-code'),
    (_WS, "        if self._buffered_receiver.client_disconnected:\n            self._state = _WebSocketState.CLOSED\n            self._close_code = self._buffered_receiver.client_disconnected_code\n", "",
     'WebSocket.send_data#session-legal:nothing-after-client-disconnect-was-delivered'),
    # payload altered on the way out
    (_WS, "                'bytes': bytes(payload),\n", "                'bytes': bytes(payload[:-1]),\n", 'WebSocket.send_data#payload-forwarded-unchanged-in-one-send-event'),
    # spec-version predicate inverted
    (_WS, "        self._supports_accept_headers = ver != '2.0'\n", "        self._supports_accept_headers = ver == '2.0'\n", 'WebSocket.__init__#accept-headers-supported-from-spec-2.1'),
    # --- one per input freed by the fixed-input audit ---------------------------------------------------------------------
    # the server refuses the close CODE (Daphne: "invalid close code"): the 3011 fallback only fires for falcon's own ValueError
    (_APP, "            if 'invalid close code' in str(ex).lower():\n", "            if isinstance(ex, ValueError):\n",
     '_handle_websocket#close-code-refused-by-the-server-falls-back-to-3011'),
    # HTTPStatus raised by process_request_ws is swallowed ("short-circuit" as in the HTTP pipeline): routing and the responder still run
    (_APP, "            for process_request_ws in request_mw:\n                await process_request_ws(req, web_socket)\n",
     "            for process_request_ws in request_mw:\n                try:\n                    await process_request_ws(req, web_socket)\n"
     "                except HTTPStatus:\n                    break\n", '_handle_websocket#middleware-then-responder-in-order'),
    # params not initialised before routing: a custom handler for an exception raised by process_request_ws gets None instead of {}
    (_APP, "        params: Dict[str, Any] = {}\n\n        request_mw, resource_mw = self._middleware_ws\n",
     "        params = None  # type: ignore[assignment]\n\n        request_mw, resource_mw = self._middleware_ws\n",
     '_handle_websocket#custom-handler-gets-the-request-no-response-the-raised-exception-and-the-route-params'),
    # the socket is passed to every custom error handler, also to one that does not declare a `ws` parameter
    (_APP, "                if ws and 'ws' in get_argnames(err_handler):\n", "                if ws:\n",
     '_handle_websocket#custom-handler-without-a-ws-parameter-gets-the-four-documented-arguments-only'),
    # a WebSocketDisconnected raised by a custom error handler is swallowed instead of propagating to the server
    (_APP, "            except HTTPError as error:\n                await self._http_error_handler(req, resp, error, params, ws=ws)\n",
     "            except HTTPError as error:\n                await self._http_error_handler(req, resp, error, params, ws=ws)\n"
     "            except WebSocketDisconnected:\n                pass\n", '_handle_websocket#error-from-custom-handler-propagates'),
    # accept() WITHOUT arguments selects an (empty) subprotocol; accept(None, ...) is unaffected
    (_WS, "        subprotocol: Optional[str] = None,\n", "        subprotocol: Optional[str] = '',\n", 'WebSocket.accept#sends-exactly-one-accept-event'),
]
HARMLESS = [
    # two independent statements reordered
    (_WS, "        self._state = _WebSocketState.CLOSED\n        self._close_code = code\n", "        self._close_code = code\n        self._state = _WebSocketState.CLOSED\n"),
    # a local renamed
    (_WS, "        response = {'type': EventType.WS_CLOSE, 'code': code}\n\n        reason = reason or self._close_reasons.get(code)\n        if reason and self._supports_reason:  # pragma: no py311 cover\n"
          "            # NOTE(vytas): I have verified that the below line is covered both\n            #   by multiple unit tests and E2E tests.\n"
          "            #   However, it is erroneously reported as missing on CPython 3.11.\n            response['reason'] = reason\n\n        await self._asgi_send(response)\n",
     "        close_event = {'type': EventType.WS_CLOSE, 'code': code}\n\n        reason = reason or self._close_reasons.get(code)\n        if reason and self._supports_reason:\n"
     "            close_event['reason'] = reason\n\n        await self._asgi_send(close_event)\n"),
    # an intermediate variable introduced
    (_APP, "            code = http_status_to_ws_code(error.status_code)\n", "            status_code = error.status_code\n            code = http_status_to_ws_code(status_code)\n"),
]

# Obligations refuted on the unchanged tree; each counter-model replays on the real code (see the final report / known_findings.json).
FINDINGS = [
    {
        'obligation': 'falcon.asgi.ws:WebSocket.close#lost-connection-during-close-leaves-a-consistent-state',
        'what': 'close() sends through _asgi_send directly, not through _send: when the server reports the connection lost (OSError) the raw error escapes and '
                '_state stays ACCEPTED/HANDSHAKE (closed == False, ready == True), so later operations hand further events to a connection known to be lost',
    },
    {
        'obligation': 'falcon.asgi.app:App._handle_websocket#session-legal:no-send-attempt-after-the-server-reported-the-connection-lost',
        'path_labels': ['send-fate=1'],
        'what': 'same root cause at app level: responder returns, final close(1000) raises OSError (connection lost), the error goes to _python_error_handler -> '
                '_ws_cleanup_on_error -> a second websocket.close(1011) is handed to the lost connection and the OSError escapes to the server',
    },
    {
        'obligation': 'falcon.asgi.app:App._handle_websocket#close-sent-when-a-custom-handler-leaves-the-socket-open',
        'what': 'a custom error handler that returns (or raises something other than HTTPError/HTTPStatus) without closing: _handle_websocket returns and no close/denial is ever sent '
                'although the responder failed without closing and the client is still connected',
    },
]

ASSUMPTIONS = [
    'ASGI server, send: either takes the event and returns, or raises; what it raises is one of: OSError (spec 2.4 "send on a closed connection"), OSError chained from a '
    '"received NNNN ..." websockets error, an error whose text contains "code = 1000 (OK)", autobahn\'s "protocol accepted must be from the list", an error whose text '
    'contains "invalid close code" (Daphne refusing the code of a close event; the connection stays), or any other exception '
    '(propagated unchanged); the first four mean the connection is gone (monitor LOST)',
    'classification of server errors by message text is checked on these representative messages only (regular expressions over arbitrary text are out of reach)',
    'ASGI server, receive (after the handshake): websocket.receive with text/bytes each missing, None or a payload (all nine shapes), or websocket.disconnect with or without code; '
    'no other event type (the code asserts this)',
    'responders, WebSocket middleware methods and custom error handlers use the socket sequentially and only through its public API; they are summarised by "leave the socket in an '
    'arbitrary state satisfying the typestate invariant" -- justified by the per-operation contracts, except for close() on a connection the server reports lost (FINDINGS[0])',
    'HTTPError.status_code / HTTPStatus.status_code is the integer code of .status, between 100 and 599 (C05); ws_options.error_close_code is an int',
    'the receive pump changes client_disconnected only at await points while it runs and not after _BufferedReceiver.stop() returned; stop() returns normally (C18)',
    'media handler serialize/deserialize functions are opaque total functions (C12)',
]
NOT_DECIDED = [
    # --- inputs that stay fixed (fixed-input audit) -------------------------------------------------------------------------
    '_handle_websocket, server errors: the framework\'s own sends at app level are close events, which close() hands to the server without translation; the harness '
    'lets the server return, lose the connection (OSError), fail otherwise, and (slice S_CODE_REFUSED) refuse the close code.  The three other lost-connection shapes '
    '(OSError with a "received 1001" cause, "code = 1000 (OK)", rejected subprotocol) are left out at app level: they are distinguished only by '
    'WebSocket._translate_webserver_error, which every operation harness of WebSocket covers with all seven shapes; at app level they would re-report the recorded '
    'finding "second close after a lost connection" under new path labels',
    '_handle_websocket, cross products NOT taken (see S_BASE ... S_HANDLER_KINDS): "server refuses the close code" x (middleware, custom handler, responder outcomes '
    'other than WebSocketDisconnected / unexpected exception); "middleware raises HTTPStatus / WebSocketDisconnected / the custom-handled exception" x responder outcomes '
    '(the responder must not run then); "handler without ws parameter" and "handler raises WebSocketDisconnected" x middleware.  Each of these inputs is read at one '
    'place (_ws_cleanup_on_error; the single try block of _handle_websocket; _handle_exception) that does not look at the other',
    'the request object is a stub with is_websocket == True and method "GET" (falcon.asgi.Request derives is_websocket from scope["type"], C06/C09); the scope is a concrete '
    'dict (only WebSocket.__init__ reads it: harness ws_init varies subprotocols); handshake_abandoned: three concrete non-connect first events, no middleware outcome matters',
    'close(code): None, every int, and one non-int ("1000"); bool codes (True is an int) not considered.  send_media(payload_type): default, TEXT, BINARY (the documented values). '
    'accept()/close() with every argument omitted are covered (documented defaults); partially omitted keyword forms are the same call',
    'operation harnesses: ws.subprotocols is () (no operation reads it); the pump may run (and see the disconnect) in every state in buffered mode (over-approximation)',
    # ---------------------------------------------------------------------------------------------------------------------
    'App.__call__: dispatch of scope type "websocket" (and of the spec version string) to _handle_websocket -- read, not proved',
    '_BufferedReceiver (pump, queue, waiters, receive ordering in buffered mode): property C18; here an opaque stub',
    'asyncio cancellation / BaseException during a conversation (not caught by "except Exception": no close is sent) -- outside the quantifier of the statement',
    'accept(headers=...): only concrete header collections (list of pairs, dict, empty, with sec-websocket-protocol); encoding of arbitrary (non-ASCII) names/values not modelled',
    '_translate_webserver_error on arbitrary exception texts (regex over symbolic strings)',
    'custom error handlers registered for HTTPError / HTTPStatus / Exception / WebSocketDisconnected themselves (replacing the defaults), more than one middleware component, '
    'sinks or static routes matching the WebSocket path (_sink_and_static_routes is empty here)',
    'routing itself (_router_search is opaque: C01/C02); set_default_responders is executed for real on the method maps {GET} and {GET, WEBSOCKET}',
    'falcon.testing ASGIWebSocketSimulator / ASGIConductor (the test-side peer) are not part of the contracts',
    'liveness ("a close is eventually sent") only as: on every path out of _handle_websocket with the socket open the close was handed to send',
]
TRUSTED = [
    'session monitor and server stubs Send / Receive / AppReceive / Receiver in contracts/C17_websocket.py',
    'participant summary World.havoc + Participant / ErrorHandler (rely: typestate invariant), Router, ReqFactory, Req, WsOptions, Reasons, Codec, MediaHandler stubs',
    'models registered in _setup*: bytes(b) == b for bytes, logging.Logger.error/warning/debug are no-ops, asyncio.get_running_loop() returns an opaque loop, '
    'falcon.util.misc.get_argnames read off the AST signature; WebSocketDisconnected.__init__ is executed from source on symbolic arguments',
    'pyvc/interp.py to_str: str(exception) = text of the real exception object (BaseException.__str__ for args-only values)',
]
