"""C17 -- WebSocket sessions follow the ASGI state machine and report misuse and errors.

Contracts on falcon/asgi/ws.py (class WebSocket: every public operation, the
private _send/_receive/_require_accepted/_translate_webserver_error inlined into
them, __init__, the closed/ready/unaccepted properties, _supports_reason,
http_status_to_ws_code) and on falcon/asgi/app.py (_handle_websocket,
_handle_exception with ws=..., the ws branches of the four error handlers,
_ws_cleanup_on_error).

Specification = session monitor + typestate invariant.

SESSION MONITOR (class Send, the ASGI server's `send` callable).  States
CONNECTING --accept--> OPEN --close--> CLOSED, CONNECTING --close--> CLOSED
(denial, HTTP 403), plus LOST (the server raised an error that tells the
application the connection is gone).  Every *attempt* to hand an event to `send`
is checked against the current state (`session-legal:*` clauses); the monitor
advances only when `send` returns (an event counts only then).  A raising `send`
moves the monitor to LOST when the error is one the code classifies as a lost
connection (OSError, "code = 1000 (OK)", rejected subprotocol), and leaves it
where it was for any other server error.  Ghost `gone`: a 'websocket.disconnect'
event has been handed to the framework (by receive(), or seen by the receive
pump: `client_disconnected`).

TYPESTATE INVARIANT I, assumed at entry of and re-established by every public
operation (arbitrary start state: v.choose over the _WebSocketState members):

    _state == HANDSHAKE  =>  monitor == CONNECTING
    _state == ACCEPTED   =>  monitor == OPEN
    _state == CLOSED     =>  monitor in {CLOSED, LOST}  or  gone
    gone                 =>  _state == CLOSED  or  receiver.client_disconnected
    _state != CLOSED     =>  _close_code is None

The responder / middleware / custom error handlers at app level are opaque
participants that drive the socket through its public API only; since every
public operation preserves I, a participant is summarised by "leaves the socket in
an arbitrary state satisfying I" (rely/guarantee), then returns or raises.

The receive-side buffering (_BufferedReceiver: pump, queue, waiters) belongs to
C18; here the buffered receiver is an opaque stub (class Receiver) whose
`client_disconnected` flag may flip at every await point while the pump runs.
"""
from __future__ import annotations

from pyvc.core import And, ExcVal, Iff, Implies, Ite, Len, Not, Or, PyRaise, SStr, Unreached
from pyvc.harness import Ready, harness, stubclass

PROP = 'C17'
M = 'falcon.asgi.ws'
WS = M + ':WebSocket'
AM = 'falcon.asgi.app'
APP = AM + ':App'

CONNECTING, OPEN, CLOSED, LOST = 'CONNECTING', 'OPEN', 'CLOSED', 'LOST'

INLINE = [WS + '.*', 'falcon.errors:WebSocketDisconnected.__init__']


# ---------------------------------------------------------------------------
# helpers that work on symbolic and on plain values


def same(a, b):
    """a == b where either side may be None."""
    if a is None or b is None:
        return a is None and b is None
    return a == b


def norm_code(raw):
    """WebSocketDisconnected(code).code: `code or 1000`."""
    if raw is None:
        return 1000
    return Ite(raw == 0, 1000, raw)


def exc_code(exc):
    """The .code attribute of a raised WebSocketDisconnected."""
    if exc.real is not None:
        return exc.real.code
    return exc.fields['code']


def _raise(v, exc):
    """Raise a real exception object into the subject (both modes)."""
    if v.concrete:
        raise exc
    raise PyRaise(ExcVal(type(exc), exc.args, real=exc))


def is_exc(out, exc):
    """The outcome is exactly this exception object (propagated unchanged)."""
    return out.exc is not None and out.exc.real is exc


def event_is(ev, **fields):
    """The event dict has exactly these keys with these values."""
    if not isinstance(ev, dict) or set(ev.keys()) != set(fields):
        return False
    return And(*[same(ev[k], val) for k, val in fields.items()])


# ---------------------------------------------------------------------------
# ghost session + stubs of the server side


class Session:
    """Protocol monitor state shared by the stubs."""

    __pyvc_symbolic__ = True

    def __init__(self, mon, gone):
        self.mon = mon
        self.gone = gone
        self.sent = []  # events the server accepted (send returned), framework-originated only
        self.attempts = 0  # calls of send
        self.refused = False  # the server raised something that is not a lost connection
        self.lost_error = None  # the exception object the server raised last
        self.receives = 0


# what a server may raise from send(); LOST_KINDS are the ones falcon classifies as a lost connection
FATES = ('returns', 'oserror', 'oserror-with-cause-1001', 'closed-ok-1000', 'subprotocol-rejected', 'other-server-error')
LOST_FATES = (1, 2, 3, 4)


def server_error(fate):
    if fate == 1:
        return OSError('connection closed')
    if fate == 2:
        e = OSError('client disconnected')
        e.__cause__ = Exception('received 1001 (going away); then sent 1001 (going away)')
        return e
    if fate == 3:
        return Exception('received 1000 (OK); then sent 1000 (OK): code = 1000 (OK), no reason')
    if fate == 4:
        return Exception('protocol accepted must be from the list client sent in its handshake request')
    return RuntimeError('server-specific failure')


# close code the framework must report for each lost-connection error (None: not a WebSocketDisconnected)
FATE_CODE = {1: 1000, 2: 1001, 3: 1000}


@stubclass
class Send:
    """The ASGI server's `send` callable with the session monitor inside."""

    def __init__(self, v, sess, rx=None, fates=6):
        self.v = v
        self.sess = sess
        self.rx = rx
        self.fates = fates
        self.fate = None

    def __call__(self, event):
        v, s = self.v, self.sess
        s.attempts += 1
        t = event.get('type') if isinstance(event, dict) else None
        if s.mon == LOST:
            v.check('session-legal:no-send-attempt-after-the-server-reported-the-connection-lost', False)
        elif s.mon == CLOSED:
            v.check('session-legal:nothing-after-close', False)
        elif t == 'websocket.accept':
            v.check('session-legal:accept-only-once-while-connecting', s.mon == CONNECTING)
        elif t == 'websocket.send':
            v.check('session-legal:data-only-between-accept-and-close', s.mon == OPEN)
        elif t == 'websocket.close':
            v.check('session-legal:close-while-connecting-or-open', s.mon in (CONNECTING, OPEN))
        else:
            v.check('session-legal:known-event-type', False)
        v.check('session-legal:nothing-after-client-disconnect-was-delivered', Not(s.gone))
        fate = v.choose(self.fates, 'send-fate')
        self.fate = fate
        if self.rx is not None:
            self.rx.tick()
        if fate == 0:
            if t == 'websocket.accept':
                s.mon = OPEN
            elif t == 'websocket.close':
                s.mon = CLOSED
            s.sent.append(event)
            return Ready(None)
        err = server_error(fate)
        s.lost_error = err
        if fate in LOST_FATES:
            s.mon = LOST
        else:
            s.refused = True
        _raise(v, err)


@stubclass
class Receiver:
    """ws._buffered_receiver (C18's object) as far as WebSocket uses it."""

    def __init__(self, v, sess, buffered, disc, dcode, source):
        self.v = v
        self.sess = sess
        self.buffered = buffered
        self.client_disconnected = disc
        self.client_disconnected_code = dcode
        self.source = source
        self.pump_may_run = buffered
        self.starts = 0
        self.stops = 0
        self.stopped_before_first_send = None

    def start(self):
        self.starts += 1
        if self.buffered:
            self.pump_may_run = True

    def stop(self):
        self.stops += 1
        if self.stopped_before_first_send is None:
            self.stopped_before_first_send = self.sess.attempts == 0
        self.pump_may_run = False
        return Ready(None)

    def receive(self):
        # buffered mode: ws._asgi_receive is this bound method
        self.tick()
        return self.source()

    def tick(self):
        """An await point: the pump task may run and see the client's disconnect."""
        v = self.v
        if self.buffered and self.pump_may_run and not self.client_disconnected:
            if v.choose(2, 'pump-sees-disconnect-now'):
                self.client_disconnected = True
                self.client_disconnected_code = v.int('pump_disconnect_code')
                self.sess.gone = True


EVENT_SHAPES = 11


@stubclass
class Receive:
    """The ASGI server's `receive` callable (after the handshake event)."""

    def __init__(self, v, sess):
        self.v = v
        self.sess = sess
        self.last = None
        self.kind = None

    def __call__(self):
        v, s = self.v, self.sess
        s.receives += 1
        k = v.choose(EVENT_SHAPES, 'event')
        self.kind = k
        if k >= 9:
            ev = {'type': 'websocket.disconnect'}
            if k == 10:
                ev['code'] = v.int('disconnect_code')
            s.gone = True
        else:
            ev = {'type': 'websocket.receive'}
            tk, bk = k // 3, k % 3  # 0 key missing, 1 None, 2 payload
            if tk == 1:
                ev['text'] = None
            elif tk == 2:
                ev['text'] = v.str('ev_text')
            if bk == 1:
                ev['bytes'] = None
            elif bk == 2:
                ev['bytes'] = v.bytes('ev_bytes')
        self.last = ev
        return Ready(ev)


@stubclass
class Codec:
    """One media-handler function (serialize / deserialize): opaque, records its argument."""

    def __init__(self, v, name, out_kind):
        self.v = v
        self.name = name
        self.out_kind = out_kind
        self.calls = []
        self.result = None

    def __call__(self, x):
        v = self.v
        self.calls.append(x)
        if self.out_kind == 'str':
            self.result = v.str(self.name)
        elif self.out_kind == 'bytes':
            self.result = v.bytes(self.name)
        else:
            self.result = _Opaque(self.name)
        return self.result


class _Opaque:
    def __init__(self, name):
        self.name = name


@stubclass
class Reasons:
    """WebSocketOptions.default_close_reasons, observed through .get(code)."""

    def __init__(self, v):
        self.v = v
        self.queried = []
        self.result = None

    def get(self, code, default=None):
        v = self.v
        self.queried.append(code)
        if v.choose(2, 'default-reason?'):
            self.result = v.str('default_reason')
        else:
            self.result = default
        return self.result


class Env:
    pass


def states(v):
    return v.real(M + ':_WebSocketState')


def mk(v):
    """A WebSocket in an arbitrary state satisfying the typestate invariant."""
    St = states(v)
    si = v.choose(3, 'state')
    state = (St.HANDSHAKE, St.ACCEPTED, St.CLOSED)[si]
    rk = v.choose(3, 'receiver')  # 0 unbuffered (max_receive_queue == 0); 1 buffered; 2 buffered, pump saw the disconnect
    buffered, disc = rk > 0, rk == 2
    dcode = v.int('client_disconnected_code') if disc else None
    close_code = None
    if si == 0:
        mon, gone = CONNECTING, disc
    elif si == 1:
        mon, gone = OPEN, disc
    else:
        mon = (CLOSED, LOST, OPEN, CONNECTING)[v.choose(4, 'monitor')]
        gone = True if disc else v.bool('client_gone')
        if mon in (OPEN, CONNECTING):
            v.assume(gone)
        if v.choose(2, 'close_code?'):
            close_code = v.int('close_code0')
    e = Env()
    e.v = v
    e.sess = Session(mon, gone)
    e.recv = Receive(v, e.sess)
    e.rx = Receiver(v, e.sess, buffered, disc, dcode, e.recv)
    e.send = Send(v, e.sess, e.rx)
    e.reasons = Reasons(v)
    e.text_ser, e.text_de = Codec(v, 'text_serialized', 'str'), Codec(v, 'text_deserialized', 'obj')
    e.bin_ser, e.bin_de = Codec(v, 'bin_serialized', 'bytes'), Codec(v, 'bin_deserialized', 'obj')
    e.supports_headers = v.bool('supports_accept_headers')
    e.supports_reason = v.bool('supports_reason')
    e.ws = v.obj(
        WS,
        _asgi_receive=e.rx.receive if buffered else e.recv,
        _asgi_send=e.send,
        _buffered_receiver=e.rx,
        _close_code=close_code,
        _close_reasons=e.reasons,
        _supports_accept_headers=e.supports_headers,
        _supports_reason=e.supports_reason,
        _mh_text_serialize=e.text_ser,
        _mh_text_deserialize=e.text_de,
        _mh_bin_serialize=e.bin_ser,
        _mh_bin_deserialize=e.bin_de,
        _state=state,
        subprotocols=(),
    )
    e.state0, e.mon0, e.gone0, e.code0, e.disc0, e.dcode0 = state, mon, gone, close_code, disc, dcode
    e.St = St
    return e


def inv(e):
    """The typestate invariant on the current state of e."""
    v, St, s = e.v, e.St, e.sess
    st = v.get(e.ws, '_state')
    if st is St.HANDSHAKE:
        link = s.mon == CONNECTING
    elif st is St.ACCEPTED:
        link = s.mon == OPEN
    else:
        link = Or(s.mon in (CLOSED, LOST), s.gone)
    gone_ok = Implies(s.gone, Or(st is St.CLOSED, e.rx.client_disconnected))
    code_ok = True if st is St.CLOSED else v.get(e.ws, '_close_code') is None
    return And(link, gone_ok, code_ok)


def unchanged(e):
    """Frame: state, close code and monitor are what they were."""
    v = e.v
    return And(v.get(e.ws, '_state') is e.state0, same(v.get(e.ws, '_close_code'), e.code0), e.sess.mon == e.mon0)


def nothing_sent(e):
    return e.sess.attempts == 0


def raised(v, out, dotted):
    return out.exc is not None and out.exc.isa(v.real(dotted))


ONA = 'falcon.errors:OperationNotAllowed'
WSD = 'falcon.errors:WebSocketDisconnected'
PTE = 'falcon.errors:PayloadTypeError'


def _setup(reg, ex):
    from pyvc.interp import Closure, deep_concrete

    def m_bytes(I, x=b'', *rest):
        if isinstance(x, SStr) and x.kind == 'bytes' and not rest:
            return x  # bytes(b) == b for a bytes object
        if deep_concrete(x) and deep_concrete(rest):
            return bytes(x, *rest)
        raise Unreached('bytes() of %r' % (x,))

    reg.add_model(bytes, m_bytes)

    def exc_init(I, ev):
        # run the real __init__ of WebSocketDisconnected (self.code = code or 1000) on symbolic arguments
        import falcon.errors as fe

        if ev.isa(fe.WebSocketDisconnected):
            r = I.class_attr(ev.cls, '__init__')
            if r is not None and isinstance(r[1], Closure):
                I.call(r[1], [ev] + list(ev.args), dict(ev.kwargs))

    reg.exc_init_hook = exc_init

    import logging

    for name in ('error', 'warning', 'debug', 'info', 'exception'):
        reg.add_model(getattr(logging.Logger, name), lambda I, self, *a, **k: None)


def after_failed_send(v, e, out, what):
    """Documented outcome of an operation whose event the server refused (via WebSocket._send)."""
    St = e.St
    fate = e.send.fate
    ws = e.ws
    if fate in FATE_CODE:
        v.check(what + ':lost-connection-raises-WebSocketDisconnected', raised(v, out, WSD))
        if raised(v, out, WSD):
            v.check(what + ':lost-connection-error-carries-the-code', exc_code(out.exc) == FATE_CODE[fate])
        v.check(what + ':lost-connection-marks-the-socket-closed', And(v.get(ws, '_state') is St.CLOSED, same(v.get(ws, '_close_code'), FATE_CODE[fate])))
    elif fate == 4:
        v.check(what + ':rejected-subprotocol-raises-ValueError', out.exc is not None and out.exc.isa(ValueError) and not raised(v, out, ONA))
        v.check(what + ':rejected-subprotocol-marks-the-socket-closed', v.get(ws, '_state') is St.CLOSED)
    else:
        v.check(what + ':other-server-errors-propagate-unchanged', is_exc(out, e.sess.lost_error))
        v.check(what + ':other-server-errors-leave-the-state-alone', And(v.get(ws, '_state') is e.state0, same(v.get(ws, '_close_code'), e.code0)))


# ---------------------------------------------------------------------------
# accept


HEADER_SHAPES = 6


def header_arg(v):
    k = v.choose(HEADER_SHAPES, 'headers')
    if k == 0:
        return None, None, False
    if k == 1:
        return [], None, False
    if k == 2:
        return [('X-Trace', 'abc'), ('Set-Cookie', 'k=v')], [(b'x-trace', b'abc'), (b'set-cookie', b'k=v')], False
    if k == 3:
        return {'X-Trace': 'abc'}, [(b'x-trace', b'abc')], False
    if k == 4:
        return [('Sec-WebSocket-Protocol', 'chat')], None, True
    return {}, None, False


@harness(PROP, WS + '.accept', inline=INLINE, setup=_setup)
def ws_accept(v):
    e = mk(v)
    St, s, ws = e.St, e.sess, e.ws
    spk = v.choose(3, 'subprotocol')
    subprotocol = None if spk == 0 else (v.str('subprotocol') if spk == 1 else 42)
    headers, wire_headers, forbidden = header_arg(v)
    out = v.call(ws, subprotocol, headers)

    closed0 = e.state0 is St.CLOSED or e.disc0
    if closed0:
        v.check('closed-socket-raises-OperationNotAllowed', raised(v, out, ONA))
        v.check('closed-socket-nothing-sent-nothing-changed', And(nothing_sent(e), unchanged(e)))
        v.check('invariant', inv(e))
        v.cover('accept-on-closed')
        return
    if e.state0 is St.ACCEPTED:
        v.check('second-accept-raises-OperationNotAllowed', raised(v, out, ONA))
        v.check('second-accept-nothing-sent-nothing-changed', And(nothing_sent(e), unchanged(e)))
        v.check('invariant', inv(e))
        v.cover('accept-twice')
        return
    # HANDSHAKE, client connected
    if spk == 2:
        v.check('non-string-subprotocol-raises-ValueError', out.exc is not None and out.exc.isa(ValueError))
        v.check('non-string-subprotocol-nothing-sent', And(nothing_sent(e), unchanged(e)))
        return
    if headers and Not(e.supports_headers):
        v.check('headers-on-spec-2.0-raise-OperationNotAllowed', raised(v, out, ONA))
        v.check('headers-on-spec-2.0-nothing-sent', And(nothing_sent(e), unchanged(e)))
        v.cover('headers-unsupported')
        return
    if forbidden:
        v.check('sec-websocket-protocol-header-raises-ValueError', out.exc is not None and out.exc.isa(ValueError))
        v.check('sec-websocket-protocol-header-nothing-sent', And(nothing_sent(e), unchanged(e)))
        return
    expected = {'type': 'websocket.accept'}
    if spk == 1:
        expected['subprotocol'] = subprotocol
    if headers:
        expected['headers'] = wire_headers
    v.check('exactly-one-send-attempt', s.attempts == 1)
    if e.send.fate == 0:
        v.check('returns-none', out.exc is None and out.value is None)
        v.check('sends-exactly-one-accept-event', len(s.sent) == 1 and _accept_event_is(s.sent[0], expected))
        v.check('moves-to-accepted', And(v.get(ws, '_state') is St.ACCEPTED, v.get(ws, '_close_code') is None, s.mon == OPEN))
        v.check('starts-the-receive-pump-once', e.rx.starts == 1)
        v.cover('accepted')
    else:
        v.check('nothing-counted-as-sent', len(s.sent) == 0)
        after_failed_send(v, e, out, 'accept')
        v.cover('accept-send-failed')
    v.check('invariant', inv(e))


def _accept_event_is(ev, expected):
    if not isinstance(ev, dict) or set(ev.keys()) != set(expected):
        return False
    conds = [ev['type'] == expected['type']]
    if 'subprotocol' in expected:
        conds.append(ev['subprotocol'] == expected['subprotocol'])
    if 'headers' in expected:
        conds.append(list(ev['headers']) == expected['headers'])
    return And(*conds)


# ---------------------------------------------------------------------------
# close


def valid_close_code(c):
    """RFC 6455 7.4 as the documentation of close() states it: >= 1000 and not reserved."""
    return And(c >= 1000, Not(And(c >= 1004, c <= 1006)), Not(And(c >= 1015, c <= 1999)))


@harness(PROP, WS + '.close', inline=INLINE, setup=_setup)
def ws_close(v):
    e = mk(v)
    St, s, ws = e.St, e.sess, e.ws
    ck = v.choose(3, 'code-arg')
    code = None if ck == 0 else (v.int('code') if ck == 1 else '1000')
    rk = v.choose(2, 'reason-arg')
    reason = None if rk == 0 else v.str('reason')
    out = v.call(ws, code, reason)

    v.check('stops-the-receive-pump-first', And(e.rx.stops == 1, e.rx.stopped_before_first_send))
    if ck == 2:
        v.check('non-int-code-raises-ValueError', out.exc is not None and out.exc.isa(ValueError))
        v.check('non-int-code-nothing-sent-nothing-changed', And(nothing_sent(e), unchanged(e)))
        v.check('invariant', inv(e))
        return
    eff = 1000 if ck == 0 else code
    if ck == 1 and Not(valid_close_code(code)):
        v.check('invalid-code-raises-ValueError', out.exc is not None and out.exc.isa(ValueError))
        v.check('invalid-code-nothing-sent-nothing-changed', And(nothing_sent(e), unchanged(e)))
        v.check('invariant', inv(e))
        v.cover('invalid-code')
        return
    closed0 = e.state0 is St.CLOSED or e.disc0
    if closed0:
        v.check('idempotent-on-closed-socket', out.exc is None and out.value is None)
        v.check('idempotent-nothing-sent-nothing-changed', And(nothing_sent(e), unchanged(e)))
        v.check('invariant', inv(e))
        v.cover('close-on-closed')
        return
    v.check('exactly-one-send-attempt', s.attempts == 1)
    if e.send.fate == 0:
        v.check('returns-none', out.exc is None and out.value is None)
        eff_reason = reason if (rk == 1 and Len(reason) > 0) else (e.reasons.result if e.reasons.queried else None)
        if rk == 1 and Len(reason) > 0:
            pass
        else:
            v.check('default-reason-looked-up-by-code', len(e.reasons.queried) == 1 and same(e.reasons.queried[0], eff))
        want_reason = eff_reason is not None and Len(eff_reason) > 0 and e.supports_reason
        if want_reason:
            v.check('sends-exactly-one-close-event-with-code-and-reason', len(s.sent) == 1 and event_is(s.sent[0], type='websocket.close', code=eff, reason=eff_reason))
            v.cover('close-with-reason')
        else:
            v.check('sends-exactly-one-close-event-with-code-and-no-reason', len(s.sent) == 1 and event_is(s.sent[0], type='websocket.close', code=eff))
            v.cover('close-without-reason')
        v.check('moves-to-closed-with-code', And(v.get(ws, '_state') is St.CLOSED, same(v.get(ws, '_close_code'), eff), s.mon == CLOSED))
        v.check('invariant', inv(e))
    else:
        v.check('nothing-counted-as-sent', len(s.sent) == 0)
        v.check('server-error-propagates', out.exc is not None)
        if e.send.fate in LOST_FATES:
            # the server said the connection is gone: the socket must not stay usable (see session-legal:no-send-attempt-after-...)
            v.check('lost-connection-during-close-leaves-a-consistent-state', inv(e))
            v.cover('close-send-lost')
        else:
            v.check('invariant', inv(e))


# ---------------------------------------------------------------------------
# send_text / send_data / send_media


def send_common(v, e, out, type_ok, field, value):
    """Shared decision table of the three send operations; `value` is a thunk (evaluated after the call)."""
    St, s, ws = e.St, e.sess, e.ws
    if e.state0 is St.HANDSHAKE:
        v.check('before-accept-raises-OperationNotAllowed', raised(v, out, ONA))
        v.check('before-accept-nothing-sent-nothing-changed', And(nothing_sent(e), unchanged(e)))
        v.check('invariant', inv(e))
        v.cover('send-before-accept')
        return
    if e.state0 is St.CLOSED:
        v.check('after-close-raises-WebSocketDisconnected', raised(v, out, WSD))
        if raised(v, out, WSD):
            v.check('after-close-error-carries-the-close-code', exc_code(out.exc) == norm_code(e.code0))
        v.check('after-close-nothing-sent-nothing-changed', And(nothing_sent(e), unchanged(e)))
        v.check('invariant', inv(e))
        v.cover('send-after-close')
        return
    if not type_ok:
        v.check('wrong-payload-type-raises-TypeError', out.exc is not None and out.exc.isa(TypeError))
        v.check('wrong-payload-type-nothing-sent-nothing-changed', And(nothing_sent(e), unchanged(e)))
        v.check('invariant', inv(e))
        v.cover('send-wrong-type')
        return
    if e.disc0:
        v.check('after-client-disconnect-raises-WebSocketDisconnected', raised(v, out, WSD))
        if raised(v, out, WSD):
            v.check('after-client-disconnect-error-carries-the-client-code', exc_code(out.exc) == norm_code(e.dcode0))
        v.check('after-client-disconnect-nothing-sent', nothing_sent(e))
        v.check('after-client-disconnect-socket-closed-with-client-code', And(v.get(ws, '_state') is St.CLOSED, same(v.get(ws, '_close_code'), e.dcode0)))
        v.check('invariant', inv(e))
        v.cover('send-after-disconnect')
        return
    v.check('exactly-one-send-attempt', s.attempts == 1)
    if e.send.fate == 0:
        v.check('returns-none', out.exc is None and out.value is None)
        v.check('payload-forwarded-unchanged-in-one-send-event', len(s.sent) == 1 and event_is(s.sent[0], **{'type': 'websocket.send', field: value()}))
        v.check('state-unchanged', unchanged(e))
        v.cover('sent')
    else:
        v.check('nothing-counted-as-sent', len(s.sent) == 0)
        after_failed_send(v, e, out, 'send')
    v.check('invariant', inv(e))


@harness(PROP, WS + '.send_text', inline=INLINE, setup=_setup)
def ws_send_text(v):
    e = mk(v)
    pk = v.choose(3, 'payload')
    payload = v.str('payload') if pk == 0 else (v.bytes('payload_bytes') if pk == 1 else None)
    out = v.call(e.ws, payload)
    send_common(v, e, out, pk == 0, 'text', lambda: payload)


@harness(PROP, WS + '.send_data', inline=INLINE, setup=_setup)
def ws_send_data(v):
    e = mk(v)
    pk = v.choose(4, 'payload')
    if pk == 0:
        payload = v.bytes('payload')
        wire = payload
    elif pk == 1:
        payload, wire = bytearray(b'\x00\xffab'), b'\x00\xffab'
    elif pk == 2:
        payload, wire = memoryview(b'abc\x80'), b'abc\x80'
    else:
        payload, wire = v.str('payload_text'), None
    out = v.call(e.ws, payload)
    send_common(v, e, out, pk != 3, 'bytes', lambda: wire)


@harness(PROP, WS + '.send_media', inline=INLINE, setup=_setup)
def ws_send_media(v):
    e = mk(v)
    PT = v.real('falcon.constants:WebSocketPayloadType')
    media = _Opaque('media')
    tk = v.choose(3, 'payload_type')
    if tk == 0:
        out = v.call(e.ws, media)
    else:
        out = v.call(e.ws, media, PT.TEXT if tk == 1 else PT.BINARY)
    ser, other = (e.bin_ser, e.text_ser) if tk == 2 else (e.text_ser, e.bin_ser)
    send_common(v, e, out, True, 'bytes' if tk == 2 else 'text', lambda: ser.result)
    if e.sess.attempts == 1:
        v.check('serialized-once-by-the-handler-of-the-payload-type', len(ser.calls) == 1 and ser.calls[0] is media and len(other.calls) == 0)


# ---------------------------------------------------------------------------
# receive_text / receive_data / receive_media


def receive_common(v, e, out):
    """Cases shared by the three receive operations; returns the delivered event or None when done."""
    St, s, ws = e.St, e.sess, e.ws
    v.check('receive-never-sends', nothing_sent(e))
    if e.state0 is St.HANDSHAKE:
        v.check('before-accept-raises-OperationNotAllowed', raised(v, out, ONA))
        v.check('before-accept-nothing-received-nothing-changed', And(s.receives == 0, unchanged(e)))
        v.check('invariant', inv(e))
        v.cover('receive-before-accept')
        return None
    if e.state0 is St.CLOSED:
        v.check('after-close-raises-WebSocketDisconnected', raised(v, out, WSD))
        if raised(v, out, WSD):
            v.check('after-close-error-carries-the-close-code', exc_code(out.exc) == norm_code(e.code0))
        v.check('after-close-nothing-received-nothing-changed', And(s.receives == 0, unchanged(e)))
        v.check('invariant', inv(e))
        v.cover('receive-after-close')
        return None
    v.check('exactly-one-event-taken-from-the-server', s.receives == 1)
    ev = e.recv.last
    if ev['type'] == 'websocket.disconnect':
        code = ev.get('code', 1000)
        v.check('disconnect-raises-WebSocketDisconnected', raised(v, out, WSD))
        if raised(v, out, WSD):
            v.check('disconnect-error-carries-the-client-code', exc_code(out.exc) == norm_code(code))
        v.check('disconnect-closes-the-socket-with-the-client-code', And(v.get(ws, '_state') is St.CLOSED, same(v.get(ws, '_close_code'), code)))
        v.check('invariant', inv(e))
        v.cover('receive-disconnect')
        return None
    v.check('message-leaves-the-state-alone', And(v.get(ws, '_state') is e.state0, same(v.get(ws, '_close_code'), e.code0)))
    v.check('invariant', inv(e))
    return ev


@harness(PROP, WS + '.receive_text', inline=INLINE, setup=_setup)
def ws_receive_text(v):
    e = mk(v)
    out = v.call(e.ws)
    ev = receive_common(v, e, out)
    if ev is None:
        return
    text = ev.get('text')
    if text is None:
        v.check('binary-message-raises-PayloadTypeError', raised(v, out, PTE))
        v.cover('text-expected-bytes-received')
    else:
        v.check('returns-the-text-payload-unchanged', out.exc is None and same(out.value, text))
        v.cover('text-received')


@harness(PROP, WS + '.receive_data', inline=INLINE, setup=_setup)
def ws_receive_data(v):
    e = mk(v)
    out = v.call(e.ws)
    ev = receive_common(v, e, out)
    if ev is None:
        return
    data = ev.get('bytes')
    if data is None:
        v.check('text-message-raises-PayloadTypeError', raised(v, out, PTE))
        v.cover('bytes-expected-text-received')
    else:
        v.check('returns-the-binary-payload-unchanged', out.exc is None and same(out.value, data))
        v.cover('bytes-received')


@harness(PROP, WS + '.receive_media', inline=INLINE, setup=_setup)
def ws_receive_media(v):
    e = mk(v)
    out = v.call(e.ws)
    ev = receive_common(v, e, out)
    if ev is None:
        return
    text, data = ev.get('text'), ev.get('bytes')
    if text is not None:
        v.check('text-message-deserialized-by-the-text-handler', out.exc is None and out.value is e.text_de.result and len(e.text_de.calls) == 1
                and len(e.bin_de.calls) == 0 and same(e.text_de.calls[0], text))
        v.cover('media-from-text')
    elif data is not None:
        v.check('binary-message-deserialized-by-the-binary-handler', out.exc is None and out.value is e.bin_de.result and len(e.bin_de.calls) == 1
                and len(e.text_de.calls) == 0 and same(e.bin_de.calls[0], data))
        v.cover('media-from-bytes')
    else:
        v.check('message-without-payload-raises-PayloadTypeError', raised(v, out, PTE))
        v.cover('media-without-payload')


ASSUMPTIONS = []
NOT_DECIDED = []
TRUSTED = []
