"""C06 -- labelled BOUNDED stand-in: a native differential run of the real code (never counted as proved).

What the contracts of C06_equivalence.py cannot reach -- the response side compared ACROSS the two stacks, the
falcon.testing half (create_environ / create_scope / ASGI event emitter + collector / simulate_request), request
bodies and media across the stacks, non-ASCII and percent-encoded paths -- is exercised here on the real code:

  * ONE application logic: a resource (routed at '/items/{item_id}') and a sink (prefix '/sink'), written once as a
    responder specification and instantiated as sync responders on falcon.App and as async responders on
    falcon.asgi.App.  The responder records a digest of the request it sees (about 50 accessors, the body read
    from bounded_stream / stream, get_media) and then produces a response from a generated response spec
    (status, headers, appended headers, header properties, cookies, content type, one body form, or an
    HTTPError / HTTPStatus / redirect / crash).
  * FOUR drivers for one abstract HTTP request: a minimal WSGI server written from PEP 3333, a minimal ASGI HTTP
    server written from the ASGI HTTP connection-scope specification, falcon.testing.simulate_request on the WSGI
    app and falcon.testing.simulate_request on the ASGI app (every 4th case also ASGIConductor.simulate_request).
  * THREE comparisons: WSGI spec driver == ASGI spec driver (stack equivalence); simulate_request(wsgi) == WSGI
    spec driver and simulate_request(asgi) == ASGI spec driver (test-client faithfulness; here also the environ /
    scope handed to the app, well-formedness of the request / response events and the public view of the Result
    object are compared).  Each comparison is returned as one stand-in (the conductor as a fourth).

Divergences that are by design are normalised narrowly (BY_DESIGN, each applied at one marked place); genuine
divergences found on the unchanged tree are NOT hidden: they are classified by a stable key (KNOWN) and reported in
the extra field 'known' of the returned stand-in instead of 'failures'.

Run by hand:   python3-vt contracts/C06_differential.py <overlay_dir> [quick|thorough] [seed]
"""
from __future__ import annotations

import asyncio
import datetime as _dt
import hashlib
import http as _http
import io
import itertools
import json
import os
import random
import re
import sys
import time
import traceback
from http import cookies as _http_cookies
from urllib.parse import unquote, unquote_to_bytes

PROP = 'C06'

# ---------------------------------------------------------------------------------------------------------------------
# documentation lists

BY_DESIGN = [
    'BD1 req.headers name casing: WSGI Request.headers has upper-cased names, ASGI Request.headers lower-cased ones (docstrings of both `headers` '
    'properties; `headers_lower` is the portable view): the digest entry `headers` is compared across the stacks with lower-cased keys; `headers_lower` exactly',
    'BD2 status line: PEP 3333 start_response takes "NNN Reason", the ASGI http.response.start event an integer: the stacks are compared on the integer code; '
    'simulate_request(wsgi) vs the WSGI spec driver compares the full status line',
    'BD3 order of response/request header lines with DIFFERENT names is not significant (RFC 9110 5.3): header lists are compared as name-sorted lists '
    '(stable sort: the order of lines with the SAME name is kept and compared)',
    'BD4 the test client adds "User-Agent: falcon-client/<version>" when the request has none (docstrings of create_environ / create_scope / simulate_request): '
    'for the two test-client comparisons the spec driver gets the same header line added',
    'BD5 the test client does not send its cookies= argument with an OPTIONS request (NOTE(myusko) in create_environ and create_scope): for the two '
    'test-client comparisons the spec driver gets no Cookie line when the method is OPTIONS and the cookies were passed through cookies=',
    'BD6 environ variables that PEP 3333 allows to be "empty or absent" (CONTENT_TYPE, CONTENT_LENGTH, QUERY_STRING, SCRIPT_NAME): absent == "" in the '
    'comparison of the environ handed to the app (the request digest must still agree exactly)',
    'BD7 server-specific extras are not compared: environ keys outside PEP 3333 / CGI (SERVER_SOFTWARE, RAW_URI, REMOTE_PORT), wsgi.errors / multithread / '
    'multiprocess / run_once, scope["asgi"]["spec_version"], the ephemeral client port (scope client[1]; create_scope draws it at random)',
    'BD8 scope["client"] missing == None (ASGI HTTP scope: "Optional; if missing defaults to None") in the comparison of the scope handed to the app; '
    'scope["scheme"] missing == "http", scope["root_path"] missing == "" likewise (same specification)',
    'BD9 one request has several spec-valid presentations (CONTENT_TYPE / CONTENT_LENGTH empty vs absent, scope client None vs missing); the spec drivers '
    'generate both, the test client produces the "absent / missing" one: for the two test-client comparisons the spec driver uses that presentation too',
]

KNOWN = [
    {'key': 'stack:forwarded-node-port-not-a-number',
     'what': 'Forwarded: for="1.2.3.4:_x" (RFC 7239 obfuscated node port): WSGI req.remote_addr returns the peer address (reads REMOTE_ADDR only); ASGI '
             'req.remote_addr is access_route[-1]: ValueError from uri.parse_host -> int() on the first access, and because the aborted computation leaves '
             '_cached_access_route == [], IndexError afterwards (access_route then returns []). access_route itself raises ValueError on both stacks (C09 finding)',
     'witness': {'headers': [['Forwarded', 'for="1.2.3.4:_x"']], 'remote_addr': '10.0.0.9', 'differs': ['digest.remote_addr'],
                 'wsgi': '10.0.0.9', 'asgi': ['raise', 'ValueError, then IndexError']}},
    {'key': 'stack:asgi-scope-client-none',
     'what': 'scope["client"] = None is allowed by the ASGI HTTP scope ("Optional; if missing defaults to None") but falcon.asgi.Request.remote_addr / '
             'access_route only handle a missing key (TypeError: cannot unpack non-iterable NoneType); WSGI without REMOTE_ADDR answers 127.0.0.1 (C09 finding)',
     'witness': {'scope': {'client': None}, 'differs': ['digest.remote_addr', 'digest.access_route'], 'wsgi': '127.0.0.1', 'asgi': ['raise', 'TypeError']}},
    {'key': 'stack:wsgi-empty-content-variables-are-header-values',
     'what': 'a WSGI server may hand CONTENT_TYPE = "" / CONTENT_LENGTH = "" for a request without these lines (PEP 3333 "may be empty or absent"; wsgiref does): '
             'falcon.Request.content_type is then "" and req.headers / headers_lower contain content-type: "" and content-length: "" (content_length is '
             'normalised to None, NOTE in request.py), while the same request on ASGI has content_type None and no such keys',
     'witness': {'environ': {'CONTENT_TYPE': '', 'CONTENT_LENGTH': ''}, 'differs': ['digest.content_type', 'digest.headers', 'digest.headers_lower'],
                 'wsgi': ['', {'content-type': '', 'content-length': ''}], 'asgi': [None, {}]}},
    {'key': 'wsgi-client:path-info-undecodable-bytes-replaced',
     'what': 'falcon.testing.create_environ decodes the percent-escapes of the path as UTF-8 with replacement BEFORE tunnelling it as latin-1, so a path '
             'with bytes that are not UTF-8 reaches the app as PATH_INFO "/a\xef\xbf\xbdb" (U+FFFD re-encoded) where every PEP 3333 server hands "/a\xffb"; '
             'req.path is the same ("/a\ufffdb") but the environ is not what a server produces',
     'witness': {'path': '/a%FFb', 'differs': ['raw.PATH_INFO'], 'simulate_request': '/a\u00ef\u00bf\u00bdb', 'pep3333_server': '/a\u00ffb'}},
    {'key': 'wsgi-client:method-unknown-to-wsgiref-raises-wsgiwarning',
     'what': 'falcon/testing/client.py installs warnings.filterwarnings("error", "Unknown REQUEST_METHOD: \'(CONNECT|...all falcon methods...)\'", WSGIWarning): '
             'outside pytest (whose configuration re-ignores it) simulate_request(wsgi_app, method=m) RAISES WSGIWarning for every method falcon knows but '
             'wsgiref.validate does not (CONNECT and all WebDAV methods) before the app is called; on ASGI and under a real server the request is served',
     'witness': {'method': 'CONNECT', 'simulate_request(wsgi)': ['raise', 'WSGIWarning', "Unknown REQUEST_METHOD: 'CONNECT'"], 'pep3333_server': 405}},
    {'key': 'wsgi-client:content-type-on-204-304-when-media-is-set',
     'what': 'resp.status = 204 (or 304) together with resp.media: rendering the media sets resp.content_type to the default media type, so BOTH stacks emit '
             'Content-Type: application/json on a 204 / 304 (the default type is withheld only when nothing set the header); simulate_request(wsgi) runs under '
             'wsgiref.validate and raises AssertionError "Content-Type header found in a 204 response", a server driver and the ASGI client deliver the response',
     'witness': {'responder': {'status': 204, 'media': {'a': 1}}, 'simulate_request(wsgi)': ['raise', 'AssertionError'],
                 'both_stacks_emit': [['content-type', 'application/json']]}},
    {'key': 'asgi-client:host-header-argument-overridden',
     'what': 'simulate_request(app, headers={"Host": ...}): create_environ lets the header replace the Host derived from host= / port= (singleton rule), '
             'create_scope APPENDS the derived Host line after the given one and falcon.asgi.Request keeps the last: the same arguments give req.host == '
             '"example.com" on WSGI and "falconframework.org" on ASGI; a Host that differs from the listening address cannot be simulated on ASGI',
     'witness': {'kwargs': {'headers': {'Host': 'example.com:8080'}}, 'wsgi req.host': 'example.com', 'asgi req.host': 'falconframework.org',
                 'differs': ['raw.headers', 'digest.host', 'digest.port', 'digest.netloc', 'digest.uri', 'digest.prefix', 'digest.forwarded_host', 'digest.headers']}},
    {'key': 'asgi-client:cookies-argument-encoded-as-utf8',
     'what': 'simulate_request(app, cookies={"sid": "caf\xe9"}): create_environ puts the text into HTTP_COOKIE as it is (latin-1 semantics of PEP 3333), '
             'create_scope encodes the Cookie line with str.encode() (UTF-8) although it encodes every other header value as latin-1: req.cookies is '
             '{"sid": "caf\xe9"} on WSGI and {"sid": "caf\xc3\xa9"} on ASGI',
     'witness': {'kwargs': {'cookies': {'sid': 'caf\u00e9'}}, 'wsgi req.cookies': {'sid': 'caf\u00e9'}, 'asgi req.cookies': {'sid': 'caf\u00c3\u00a9'},
                 'differs': ['raw.headers', 'digest.cookies', 'digest.headers', 'digest.headers_lower']}},
]

ASSUMPTIONS = [
    'the WSGI spec driver is the server side of PEP 3333 as gunicorn / wsgiref implement it: PATH_INFO = percent-decoded bytes as latin-1, repeated header '
    'lines of one field joined with "," (Cookie with "; "), CONTENT_TYPE / CONTENT_LENGTH without HTTP_ prefix, wsgi.input = io.BytesIO(body)',
    'the ASGI spec driver is the HTTP connection scope of the ASGI specification as uvicorn (< 0.26) builds it: path = urllib.parse.unquote(raw path) '
    '(UTF-8, errors="replace"), raw_path without the query string, header names lower-cased, root_path NOT contained in path (the reading of '
    'falcon.testing.create_scope and of falcon.asgi.Request; ASGI spec >= 2.4 / uvicorn >= 0.26 put root_path into path)',
    'one abstract request has a consistent framing: a Content-Length line is present iff the body is non-empty, or (declared) with value 0; no chunked '
    'transfer coding; header values carry no leading / trailing whitespace; request targets and query strings are ASCII on the wire (percent-encoded)',
    'repeated header lines are generated only for list-valued fields: for singleton fields (falcon.constants.SINGLETON_HEADERS) WSGI servers differ among '
    'themselves and falcon.asgi keeps the last occurrence (NOTE in asgi/request.py); header names with "_" are not generated (PEP 3333 cannot tell X_A from X-A)',
]
NOT_DECIDED = [
    'the bounded stand-in C06_differential does not exercise: simulate_request(params= / params_csv= / extras= / file_wrapper= / str bodies), the simulate_<method> '
    'aliases and TestClient default headers, streamed results (simulate_get_stream), WebSocket and SSE, middleware and error handlers/serializers registered by '
    'the application, chunked transfer coding, repeated singleton header lines, header names with "_", Content-Length values that disagree with the body',
]
TRUSTED = [
    'the two spec drivers _drive_wsgi / _drive_asgi, the translation of an abstract request into simulate_request keyword arguments (_sim_kwargs) and the '
    'observation taps in contracts/C06_differential.py',
]


_UA = None  # 'falcon-client/<version>', set in _setup
_CTX = {}
CUR = {'spec': None, 'digest': None, 'closed': None}
_DERIVE = '<derive>'

_JSON = 'application/json'
_FORM = 'application/x-www-form-urlencoded'


# ---------------------------------------------------------------------------------------------------------------------
# json-able views


def _j(v, depth=0):
    if v is None or isinstance(v, (bool, int, float)):
        return v
    if isinstance(v, str):
        if hasattr(v, 'is_weak'):
            return ['etag', str(v), bool(v.is_weak)]
        return v
    if isinstance(v, (bytes, bytearray, memoryview)):
        return 'bytes:' + bytes(v).decode('latin-1')
    if isinstance(v, _dt.datetime):
        return 'datetime:' + v.isoformat()
    if isinstance(v, dict):
        return {str(k): _j(x, depth + 1) for k, x in sorted(v.items(), key=lambda kv: str(kv[0]))}
    if isinstance(v, (list, tuple)):
        return [_j(x, depth + 1) for x in v]
    return 'repr:' + repr(v)[:200]


def _short(v, n=400):
    s = json.dumps(v, sort_keys=True, default=repr)
    return s if len(s) <= n else s[:n] + '...(%d chars)' % len(s)


# ---------------------------------------------------------------------------------------------------------------------
# the application logic (one responder specification, two instantiations)

_FIELDS = [
    ('method', lambda r: r.method), ('path', lambda r: r.path), ('query_string', lambda r: r.query_string), ('params', lambda r: r.params),
    ('headers', lambda r: dict(r.headers)), ('headers_lower', lambda r: dict(r.headers_lower)), ('cookies', lambda r: r.cookies),
    ('cookie_values_a', lambda r: r.get_cookie_values('a')), ('content_type', lambda r: r.content_type), ('content_length', lambda r: r.content_length),
    ('host', lambda r: r.host), ('port', lambda r: r.port), ('scheme', lambda r: r.scheme), ('netloc', lambda r: r.netloc), ('uri', lambda r: r.uri),
    ('url', lambda r: r.url), ('relative_uri', lambda r: r.relative_uri), ('prefix', lambda r: r.prefix), ('root_path', lambda r: r.root_path),
    ('subdomain', lambda r: r.subdomain),
    ('forwarded', lambda r: None if r.forwarded is None else [(f.src, f.dest, f.host, f.scheme) for f in r.forwarded]),
    ('forwarded_host', lambda r: r.forwarded_host), ('forwarded_scheme', lambda r: r.forwarded_scheme), ('forwarded_uri', lambda r: r.forwarded_uri),
    ('forwarded_prefix', lambda r: r.forwarded_prefix), ('access_route', lambda r: list(r.access_route)), ('remote_addr', lambda r: r.remote_addr),
    ('range', lambda r: r.range), ('range_unit', lambda r: r.range_unit), ('if_match', lambda r: r.if_match), ('if_none_match', lambda r: r.if_none_match),
    ('if_modified_since', lambda r: r.if_modified_since), ('if_unmodified_since', lambda r: r.if_unmodified_since), ('if_range', lambda r: r.if_range),
    ('date', lambda r: r.date), ('accept', lambda r: r.accept), ('client_accepts_json', lambda r: r.client_accepts_json),
    ('client_accepts_xml', lambda r: r.client_accepts_xml), ('client_prefers', lambda r: r.client_prefers(['application/xml', _JSON, 'text/plain'])),
    ('user_agent', lambda r: r.user_agent), ('auth', lambda r: r.auth), ('expect', lambda r: r.expect), ('referer', lambda r: r.referer),
    ('uri_template', lambda r: r.uri_template), ('get_header_x_multi', lambda r: r.get_header('X-Multi')),
    ('get_header_accept_default', lambda r: r.get_header('accept-language', default='dflt')), ('get_param_a', lambda r: r.get_param('a')),
    ('get_param_as_list_a', lambda r: r.get_param_as_list('a')), ('get_param_as_int_n', lambda r: r.get_param_as_int('n')),
    ('get_param_as_bool_t', lambda r: r.get_param_as_bool('t')), ('has_param_b', lambda r: r.has_param('b')),
]


def _outcome(fn, *a):
    try:
        return _j(fn(*a))
    except Exception as e:  # noqa: BLE001 -- any escape of an accessor is part of the observation
        return _exc_view(e)


def _exc_view(e):
    return ['raise', type(e).__name__, _j(getattr(e, 'status', None))]


def _digest_common(req, kw):
    d = {'route_params': _j(kw)}
    for name, fn in _FIELDS:
        d[name] = _outcome(fn, req)
    return d


def _make_error(spec):
    import falcon

    k = spec['error']
    if k == 'bad_request':
        return falcon.HTTPBadRequest(title='Bad', description='wrong input café')
    if k == 'not_found':
        return falcon.HTTPNotFound()
    if k == 'not_found_desc':
        return falcon.HTTPNotFound(description='gone fishing', headers={'X-E': '1'})
    if k == 'method_not_allowed':
        return falcon.HTTPMethodNotAllowed(['GET', 'POST'])
    if k == 'range':
        return falcon.HTTPRangeNotSatisfiable(1234)
    if k == 'unavailable':
        return falcon.HTTPServiceUnavailable(retry_after=30)
    if k == 'unavailable_dt':
        return falcon.HTTPServiceUnavailable(retry_after=_dt.datetime(2030, 1, 2, 3, 4, 5))
    if k == 'too_many':
        return falcon.HTTPTooManyRequests(retry_after=7, description='slow down')
    if k == 'unauthorized':
        return falcon.HTTPUnauthorized(challenges=['Basic realm="x"', 'Bearer'])
    if k == 'teapot':
        return falcon.HTTPError(418, title='teapot', description='short and stout', code=7, headers=[('X-Tea', 'oolong')])
    if k == 'status_202':
        return falcon.HTTPStatus(falcon.HTTP_202, headers={'X-S': 'y'}, text='accepted')
    if k == 'status_204':
        return falcon.HTTPStatus(204)
    if k == 'status_custom':
        return falcon.HTTPStatus('299 Odd', text='odd')
    if k == 'found':
        return falcon.HTTPFound('/new?x=1')
    if k == 'moved':
        return falcon.HTTPMovedPermanently('/n', headers={'X-R': '1'})
    if k == 'see_other':
        return falcon.HTTPSeeOther('/other')
    if k == 'temporary':
        return falcon.HTTPTemporaryRedirect('/t')
    if k == 'permanent':
        return falcon.HTTPPermanentRedirect('/p')
    if k == 'crash':
        return RuntimeError('boom')
    raise AssertionError(k)


class _AsyncFile:
    def __init__(self, data):
        self._b = io.BytesIO(data)

    async def read(self, n=-1):
        return self._b.read(n)

    async def close(self):
        CUR['closed'] = True


class _SyncFile:
    # (explicit close() only: a finaliser would make "closed" depend on garbage collection)
    def __init__(self, data):
        self._b = io.BytesIO(data)

    def read(self, n=-1):
        return self._b.read(n)

    def close(self):
        CUR['closed'] = True


def _sync_chunks(chunks):
    for c in chunks:
        yield c


async def _async_chunks(chunks):
    for c in chunks:
        yield c


def _respond(resp, spec, asgi):
    """Everything of the responder that is not request I/O; the only stack-specific part is the stream object."""
    if spec['kind'] == 'error' and not spec['raise_after']:
        raise _make_error(spec)
    if spec['status'] is not None:
        st = spec['status']
        resp.status = _http.HTTPStatus(int(st[11:])) if isinstance(st, str) and st.startswith('HTTPStatus:') else st
    for n, v in spec['set_headers']:
        resp.set_header(n, v)
    for n, v in spec['append_headers']:
        resp.append_header(n, v)
    for n, v in spec['props']:
        setattr(resp, n, v)
    for c in spec['set_cookies']:
        resp.set_cookie(**c)
    for n in spec['unset_cookies']:
        resp.unset_cookie(n)
    if spec['content_type'] is not None:
        resp.content_type = spec['content_type']
    form = spec['body']
    if form[0] == 'text':
        resp.text = form[1]
    elif form[0] == 'data':
        resp.data = form[1]
    elif form[0] == 'media':
        resp.media = form[1]
    elif form[0] == 'stream':
        resp.stream = _async_chunks(form[1]) if asgi else _sync_chunks(form[1])
    elif form[0] == 'stream_len':
        resp.set_stream(_async_chunks(form[1]) if asgi else _sync_chunks(form[1]), sum(len(c) for c in form[1]))
    elif form[0] == 'file':
        CUR['closed'] = False
        resp.stream = _AsyncFile(form[1]) if asgi else _SyncFile(form[1])
    if spec['kind'] == 'error':
        raise _make_error(spec)


def _build_apps():
    import falcon
    import falcon.asgi

    def handle_sync(req, resp, **kw):
        spec = CUR['spec']
        d = _digest_common(req, kw)
        mode = spec['read']
        if mode == 'all':
            d['body'] = _outcome(lambda: req.bounded_stream.read())
        elif mode == 'split':
            d['body_head'] = _outcome(lambda: req.bounded_stream.read(3))
            d['body_tail'] = _outcome(lambda: req.bounded_stream.read())
        elif mode == 'media':
            d['media'] = _outcome(lambda: req.get_media())
            d['media_again'] = _outcome(lambda: req.get_media())
        elif mode == 'media_default':
            d['media'] = _outcome(lambda: req.get_media(default_when_empty=None))
        elif mode == 'media!':
            CUR['digest'] = d
            d['media'] = _j(req.get_media())
        CUR['digest'] = d
        _respond(resp, spec, False)

    async def handle_async(req, resp, **kw):
        spec = CUR['spec']
        d = _digest_common(req, kw)
        mode = spec['read']

        async def out(coro_fn):
            try:
                return _j(await coro_fn())
            except Exception as e:  # noqa: BLE001
                return _exc_view(e)

        if mode == 'all':
            d['body'] = await out(lambda: req.bounded_stream.read())
        elif mode == 'split':
            d['body_head'] = await out(lambda: req.bounded_stream.read(3))
            d['body_tail'] = await out(lambda: req.bounded_stream.read())
        elif mode == 'media':
            d['media'] = await out(lambda: req.get_media())
            d['media_again'] = await out(lambda: req.get_media())
        elif mode == 'media_default':
            d['media'] = await out(lambda: req.get_media(default_when_empty=None))
        elif mode == 'media!':
            CUR['digest'] = d
            d['media'] = _j(await req.get_media())
        CUR['digest'] = d
        _respond(resp, spec, True)

    class SyncResource:
        def on_get(self, req, resp, **kw):
            handle_sync(req, resp, **kw)

        on_head = on_post = on_put = on_get

    class AsyncResource:
        async def on_get(self, req, resp, **kw):
            await handle_async(req, resp, **kw)

        on_head = on_post = on_put = on_get

    def sink_sync(req, resp, **kw):
        handle_sync(req, resp, **kw)

    async def sink_async(req, resp, **kw):
        await handle_async(req, resp, **kw)

    apps = {}
    for strip, blank, csv in itertools.product((False, True), repeat=3):
        w = falcon.App()
        a = falcon.asgi.App()
        for app, res, sink in ((w, SyncResource(), sink_sync), (a, AsyncResource(), sink_async)):
            app.req_options.strip_url_path_trailing_slash = strip
            app.req_options.keep_blank_qs_values = blank
            app.req_options.auto_parse_qs_csv = csv
            app.add_route('/', res)
            app.add_route('/items/{item_id}', res)
            app.add_sink(sink, '/sink')
        apps[(strip, blank, csv)] = (w, a)
    return apps


# ---------------------------------------------------------------------------------------------------------------------
# the abstract request


def _req(**over):
    A = dict(method='GET', path='/items/42', query='', headers=[], host_header=_DERIVE, cookies=None, cookie_via='kwarg', body=b'', declare_length=False,
             chunks=(), sim_chunk=4096, scheme='http', server=('falconframework.org', 80), root_path='', remote_addr=None, client_none=False,
             http_version='1.1', wsgi_empty_vars=False, query_in_path=False, ct_kwarg=False, json_kwarg=False)
    A.update(over)
    return A


def _spec(**over):
    S = dict(kind='normal', status=None, set_headers=[], append_headers=[], props=[], set_cookies=[], unset_cookies=[], content_type=None, body=('none',),
             read='none', raise_after=False, error=None)
    S.update(over)
    return S


def _derived_host(A):
    host, port = A['server']
    default = 443 if A['scheme'] == 'https' else 80
    return host if port == default else '%s:%d' % (host, port)


def _host_header(A):
    if A['host_header'] == _DERIVE:
        return None if A['http_version'] == '1.0' else _derived_host(A)
    return A['host_header']


def _cookie_line(cookies):
    return '; '.join('%s=%s' % (n, v) for n, v in cookies)


def _wire_headers(A):
    """The header section the client sends, as an ordered list of (name, value) lines."""
    out = []
    hh = _host_header(A)
    if hh is not None:
        out.append(('Host', hh))
    out.extend(A['headers'])
    if A['cookies']:
        out.append(('Cookie', _cookie_line(A['cookies'])))
    if A['body'] or A['declare_length']:
        out.append(('Content-Length', str(len(A['body']))))
    return out


def _has_header(A, name):
    return any(n.lower() == name for n, _ in A['headers'])


def _effective(A):
    """The request the test client actually sends for A (BD4, BD5)."""
    E = A
    if not _has_header(A, 'user-agent'):  # BD4
        E = dict(E, headers=list(A['headers']) + [('User-Agent', _UA)])
    if A['method'] == 'OPTIONS' and A['cookies'] and _cookies_by_kwarg(A):  # BD5
        E = dict(E, cookies=None)
    if A['wsgi_empty_vars'] or A['client_none']:
        # two spec-valid presentations of one request (empty vs absent CGI variable, client None vs missing): the test client picks the "absent" one
        E = dict(E, wsgi_empty_vars=False, client_none=False)
    return E


def _cookies_by_kwarg(A):
    names = [n for n, _ in A['cookies'] or ()]
    return bool(A['cookies']) and A['cookie_via'] == 'kwarg' and len(set(names)) == len(names)


def _json_roundtrip(body):
    """(document,) when simulate_request(json=document) sends exactly `body` (json.dumps(document, ensure_ascii=False) as UTF-8), else None."""
    try:
        doc = json.loads(body.decode('utf-8'))
    except (UnicodeDecodeError, ValueError):
        return None
    if doc is not None and json.dumps(doc, ensure_ascii=False).encode('utf-8') == body:
        return (doc,)
    return None


def _sim_kwargs(A, asgi):
    """Keyword arguments of falcon.testing.simulate_request that express A, or None when A cannot be expressed."""
    if not A['path'].startswith('/'):
        return None  # simulate_request: "path must start with '/'"
    hdrs = list(A['headers'])
    hh = _host_header(A)
    if A['http_version'] == '1.0':
        if hh is not None:
            hdrs.insert(0, ('Host', hh))
    elif hh is None:
        return None  # an HTTP/1.1 request without Host cannot be expressed
    elif hh != _derived_host(A):
        hdrs.insert(0, ('Host', hh))
    cookies = None
    if A['cookies']:
        if _cookies_by_kwarg(A):
            cookies = dict(A['cookies'])
        else:
            hdrs.append(('Cookie', _cookie_line(A['cookies'])))
    body = A['body']
    if asgi:
        # _simulate_request_asgi sends Content-Length: len(body) whenever body is not None
        body_kw = body if (body or A['declare_length']) else None
    else:
        # create_environ sets CONTENT_LENGTH only for a non-empty body
        body_kw = body
        if not body and A['declare_length']:
            hdrs.append(('Content-Length', '0'))
    extra = {}
    names = [n.lower() for n, _ in hdrs]
    if (A['ct_kwarg'] or A['json_kwarg']) and names.count('content-type') == 1 and len(set(names)) == len(names):
        # (content_type= / json= make simulate_request rebuild the headers as a dict: only used without repeated lines)
        i = names.index('content-type')
        doc = _json_roundtrip(body) if A['json_kwarg'] and hdrs[i][1] == _JSON else None
        if doc is not None:
            extra['json'] = doc[0]
            body_kw = None
            del hdrs[i]
        elif A['ct_kwarg']:
            extra['content_type'] = hdrs[i][1]
            del hdrs[i]
    path, qs = A['path'], A['query']
    if A['query_in_path'] and qs:
        path, qs = path + '?' + qs, None
    kw = dict(method=A['method'], path=path, query_string=qs, headers=hdrs or None, body=body_kw, protocol=A['scheme'], host=A['server'][0],
              port=A['server'][1], remote_addr=A['remote_addr'], root_path=A['root_path'] or None, http_version=A['http_version'], cookies=cookies,
              asgi_chunk_size=A['sim_chunk'], wsgierrors=io.StringIO(), **extra)
    # documented defaults are left to the test client (so that its defaulting code is on the compared path)
    if kw['port'] == (443 if A['scheme'] == 'https' else 80):
        del kw['port']
    for k, dflt in (('method', 'GET'), ('protocol', 'http'), ('host', 'falconframework.org'), ('http_version', '1.1'), ('asgi_chunk_size', 4096), ('path', '/')):
        if kw[k] == dflt:
            del kw[k]
    return kw


# ---------------------------------------------------------------------------------------------------------------------
# observation taps (the same wrapper is used under the spec driver and under simulate_request)

_ENV_KEYS = ('REQUEST_METHOD', 'SCRIPT_NAME', 'PATH_INFO', 'QUERY_STRING', 'CONTENT_TYPE', 'CONTENT_LENGTH', 'SERVER_NAME', 'SERVER_PORT', 'SERVER_PROTOCOL',
             'REMOTE_ADDR', 'wsgi.url_scheme', 'wsgi.version')
_ENV_EMPTY_OK = ('QUERY_STRING', 'CONTENT_TYPE', 'CONTENT_LENGTH', 'SCRIPT_NAME')  # BD6
_TOKEN = re.compile(r"^[!#$%&'*+\-.^_`|~0-9A-Za-z]+$")


class _Tap:
    def __init__(self):
        self.raw = {}
        self.status = None
        self.status_line = None
        self.headers = None
        self.chunks = []
        self.protocol = []
        self.events_in = []


def _tap_wsgi(app, tap):
    def tapped(environ, start_response):
        raw = {}
        for k in _ENV_KEYS:
            v = environ.get(k)
            if v is None and k in _ENV_EMPTY_OK:
                v = ''  # BD6
            raw[k] = _j(v)
        for k, v in environ.items():
            if k.startswith('HTTP_'):
                raw[k] = _j(v)
            if k.isupper() and not isinstance(v, str):
                tap.protocol.append('environ[%r] is not a native string' % k)
        tap.raw = raw

        def sr(status, headers, exc_info=None):
            if tap.status_line is not None and exc_info is None:
                tap.protocol.append('start_response called twice without exc_info')
            if not isinstance(status, str) or not re.match(r'^\d{3} ', status):
                tap.protocol.append('bad status %r' % (status,))
            if type(headers) is not list:
                tap.protocol.append('headers is not a list')
            for h in headers:
                if type(h) is not tuple or len(h) != 2 or type(h[0]) is not str or type(h[1]) is not str:
                    tap.protocol.append('bad header item %r' % (h,))
                    continue
                if not _TOKEN.match(h[0]) or re.search(r'[\x00-\x1f]', h[1]):
                    tap.protocol.append('bad header text %r' % (h,))
                try:
                    h[1].encode('latin-1')
                except UnicodeError:
                    tap.protocol.append('header value outside latin-1 %r' % (h,))
            tap.status_line = status
            tap.status = int(status[:3]) if isinstance(status, str) and status[:3].isdigit() else None
            tap.headers = [(str(n), str(v)) for n, v in headers]
            return start_response(status, headers, exc_info) if exc_info is not None else start_response(status, headers)

        result = app(environ, sr)

        def body():
            try:
                for item in result:
                    if tap.status_line is None:
                        tap.protocol.append('body item before start_response')
                    if type(item) is not bytes:
                        tap.protocol.append('body item is %s' % type(item).__name__)
                        item = bytes(item)
                    tap.chunks.append(item)
                    yield item
            finally:
                if hasattr(result, 'close'):
                    result.close()

        class Body:
            def __init__(self):
                self._it = body()

            def __iter__(self):
                return self

            def __next__(self):
                return next(self._it)

            def close(self):
                self._it.close()

        return Body()

    return tapped


def _tap_asgi(app, tap):
    async def tapped(scope, receive, send):
        if scope.get('type') != 'http':
            await app(scope, receive, send)
            return
        scope = dict(scope)
        raw = {}
        for k in ('type', 'http_version', 'method', 'path', 'raw_path', 'query_string'):
            raw[k] = _j(scope.get(k, '<missing>'))
        raw['scheme'] = _j(scope.get('scheme', 'http'))  # BD8
        raw['root_path'] = _j(scope.get('root_path', ''))  # BD8
        hdrs = [tuple(h) for h in scope.get('headers', ())]
        for h in hdrs:
            if len(h) != 2 or type(h[0]) is not bytes or type(h[1]) is not bytes:
                tap.protocol.append('scope header %r is not a pair of byte strings' % (h,))
            elif h[0] != h[0].lower():
                tap.protocol.append('scope header name %r is not lower-cased' % (h[0],))
        raw['headers'] = _j(sorted(((n, v) for n, v in hdrs), key=lambda h: h[0]))  # BD3 (stable)
        scope['headers'] = iter(hdrs)
        for k in ('server', 'client'):
            if scope.get(k) is not None:
                pair = list(scope[k])
                scope[k] = iter(pair)
                raw[k] = _j(pair if k == 'server' else pair[:1])  # BD7: ephemeral client port
            else:
                raw[k] = None  # BD8
        for k in ('method', 'path', 'root_path', 'scheme', 'http_version'):
            if k in scope and type(scope[k]) is not str:
                tap.protocol.append('scope[%r] is not a str' % k)
        for k in ('raw_path', 'query_string'):
            if scope.get(k) is not None and type(scope[k]) is not bytes:
                tap.protocol.append('scope[%r] is not bytes' % k)
        if isinstance(scope.get('method'), str) and scope['method'] != scope['method'].upper():
            tap.protocol.append('scope method is not upper-cased')
        tap.raw = raw
        state = {'started': False, 'done': False, 'in_done': False}

        async def rcv():
            ev = await receive()
            t = ev.get('type')
            tap.events_in.append(t)
            if t == 'http.request':
                if state['in_done']:
                    tap.protocol.append('http.request after the final request event')
                if 'body' in ev and type(ev['body']) is not bytes:
                    tap.protocol.append('request event body is not bytes')
                if 'more_body' in ev and type(ev['more_body']) is not bool:
                    tap.protocol.append('request event more_body is not bool')
                tap.raw.setdefault('#body', []).append(ev.get('body', b''))
                if not ev.get('more_body', False):
                    state['in_done'] = True
            elif t != 'http.disconnect':
                tap.protocol.append('unexpected receive event %r' % (t,))
            return ev

        async def snd(ev):
            t = ev.get('type')
            if state['done']:
                tap.protocol.append('send after the final body event: %r' % (t,))
            elif t == 'http.response.start':
                if state['started']:
                    tap.protocol.append('http.response.start sent twice')
                state['started'] = True
                tap.status = ev.get('status')
                if type(tap.status) is not int:
                    tap.protocol.append('status is %r' % (tap.status,))
                hs = []
                for h in ev.get('headers', ()):
                    h = tuple(h)
                    if len(h) != 2 or type(h[0]) is not bytes or type(h[1]) is not bytes:
                        tap.protocol.append('response header %r is not a pair of byte strings' % (h,))
                        continue
                    if h[0] != h[0].lower():
                        tap.protocol.append('response header name %r is not lower-cased' % (h[0],))
                    if not _TOKEN.match(h[0].decode('latin-1')) or re.search(rb'[\x00-\x1f]', h[1]):
                        tap.protocol.append('bad header text %r' % (h,))
                    hs.append((h[0].decode('latin-1'), h[1].decode('latin-1')))
                tap.headers = hs
            elif t == 'http.response.body':
                if not state['started']:
                    tap.protocol.append('http.response.body before http.response.start')
                b = ev.get('body', b'')
                if type(b) is not bytes:
                    tap.protocol.append('response body is %s' % type(b).__name__)
                    b = bytes(b or b'')
                mb = ev.get('more_body', False)
                if type(mb) is not bool:
                    tap.protocol.append('more_body is %r' % (mb,))
                tap.chunks.append(b)
                if not mb:
                    state['done'] = True
            else:
                tap.protocol.append('unexpected send event %r' % (t,))
            await send(ev)

        await app(scope, rcv, snd)
        if state['started'] and not state['done']:
            tap.protocol.append('app returned without a final http.response.body event')

    return tapped


def _observe(tap, extra=None, wsgi=False, body_sent=None):
    raw = dict(tap.raw)
    if '#body' in raw:
        got = b''.join(raw.pop('#body'))
        if body_sent is not None and not body_sent.startswith(got):
            tap.protocol.append('request events carry %r, not a prefix of the request body' % (got[:40],))
    o = {'status': tap.status, 'headers': sorted(([n.lower(), v] for n, v in tap.headers or ()), key=lambda h: h[0]),  # BD3 (stable sort)
         'body': _j(b''.join(tap.chunks)), 'protocol': list(tap.protocol), 'digest': CUR['digest'], 'closed': CUR['closed'], 'raise': None, 'raw': raw}
    if wsgi:
        o['status_line'] = tap.status_line
    if extra:
        o.update(extra)
    return o


# ---------------------------------------------------------------------------------------------------------------------
# driver 1: a minimal WSGI server, from PEP 3333


def _drive_wsgi(app, A):
    tap = _Tap()
    environ = {
        'REQUEST_METHOD': A['method'],
        'SCRIPT_NAME': A['root_path'],
        # PEP 3333 "Unicode issues" + CGI: the percent-decoded path, bytes presented as latin-1 code points
        'PATH_INFO': unquote_to_bytes(A['path']).decode('latin-1'),
        'QUERY_STRING': A['query'],
        'SERVER_NAME': A['server'][0],
        'SERVER_PORT': str(A['server'][1]),
        'SERVER_PROTOCOL': 'HTTP/' + A['http_version'],
        'wsgi.version': (1, 0),
        'wsgi.url_scheme': A['scheme'],
        'wsgi.input': io.BytesIO(A['body']),
        'wsgi.errors': io.StringIO(),
        'wsgi.multithread': False,
        'wsgi.multiprocess': False,
        'wsgi.run_once': False,
    }
    if A['remote_addr']:
        environ['REMOTE_ADDR'] = A['remote_addr']
    if A['wsgi_empty_vars']:
        # wsgiref hands empty strings for missing Content-Type / Content-Length ("may be empty or absent")
        environ['CONTENT_TYPE'] = ''
        environ['CONTENT_LENGTH'] = ''
    seen = set()
    for name, value in _wire_headers(A):
        key = name.upper().replace('-', '_')
        if key in ('CONTENT_TYPE', 'CONTENT_LENGTH'):
            environ[key] = value
            continue
        key = 'HTTP_' + key
        if key in seen:
            environ[key] += ('; ' if key == 'HTTP_COOKIE' else ',') + value
        else:
            environ[key] = value
            seen.add(key)
    started = []

    def start_response(status, headers, exc_info=None):
        if started and exc_info is None:
            raise AssertionError('start_response called twice')
        started.append((status, headers))
        return lambda data: (_ for _ in ()).throw(AssertionError('write() is not used by this driver'))

    try:
        result = _tap_wsgi(app, tap)(environ, start_response)
        try:
            for _ in result:
                pass
        finally:
            if hasattr(result, 'close'):
                result.close()
    except Exception as e:  # noqa: BLE001
        return _observe(tap, {'raise': [type(e).__name__, str(e)[:200]]}, wsgi=True)
    return _observe(tap, wsgi=True)


# ---------------------------------------------------------------------------------------------------------------------
# driver 2: a minimal ASGI HTTP server, from the ASGI HTTP connection scope specification


def _cut(body, chunks):
    """The http.request events for a body: sizes in `chunks` (0 = an empty event with more_body), the rest in one event."""
    out = []
    pos = 0
    for n in chunks:
        if pos >= len(body) and n:
            break
        out.append(body[pos:pos + n])
        pos += n
    out.append(body[pos:])
    return out


def _drive_asgi(app, A):
    tap = _Tap()
    scope = {
        'type': 'http',
        'asgi': {'version': '3.0', 'spec_version': '2.3'},
        'http_version': A['http_version'],
        'method': A['method'].upper(),
        'scheme': A['scheme'],
        'path': unquote(A['path']),  # "percent-encoded sequences and UTF-8 byte sequences decoded into characters" (uvicorn: unquote(), errors='replace')
        'raw_path': A['path'].encode('ascii'),
        'query_string': A['query'].encode('ascii'),
        'root_path': A['root_path'],
        'headers': [(n.lower().encode('latin-1'), v.encode('latin-1')) for n, v in _wire_headers(A)],
        'server': (A['server'][0], A['server'][1]),
    }
    if A['remote_addr']:
        scope['client'] = (A['remote_addr'], 50000)
    elif A['client_none']:
        scope['client'] = None
    pieces = _cut(A['body'], A['chunks'])
    events = []
    for i, p in enumerate(pieces):
        ev = {'type': 'http.request', 'body': p, 'more_body': i < len(pieces) - 1}
        if not p and i % 2:
            del ev['body']  # "Optional; if missing defaults to b''"
        if i == len(pieces) - 1 and len(pieces) % 2:
            del ev['more_body']  # "Optional; if missing defaults to False"
        events.append(ev)
    events.reverse()

    async def receive():
        if events:
            return events.pop()
        return {'type': 'http.disconnect'}

    async def send(ev):
        return None

    try:
        _CTX['loop'].run_until_complete(_tap_asgi(app, tap)(scope, receive, send))
    except Exception as e:  # noqa: BLE001
        return _observe(tap, {'raise': [type(e).__name__, str(e)[:200]]}, body_sent=A['body'])
    return _observe(tap, body_sent=A['body'])


# ---------------------------------------------------------------------------------------------------------------------
# drivers 3 and 4: falcon.testing.simulate_request


def _result_view(result, tap, wsgi):
    """Errors of the PUBLIC view of the Result object against what the app emitted."""
    errs = []
    if result.status_code != tap.status:
        errs.append('status_code %r != emitted %r' % (result.status_code, tap.status))
    if wsgi and result.status != tap.status_line:
        errs.append('status %r != emitted %r' % (result.status, tap.status_line))
    if not wsgi and not str(result.status).startswith(str(tap.status)):
        errs.append('status %r does not start with %r' % (result.status, tap.status))
    body = b''.join(tap.chunks)
    if result.content != body:
        errs.append('content %r != emitted %r' % (result.content[:60], body[:60]))
    emitted = {}
    for n, v in tap.headers or ():
        emitted.setdefault(n.lower(), []).append(v)
    seen = {k.lower(): v for k, v in result.headers.items()}
    if set(seen) != set(emitted):
        errs.append('header names %r != emitted %r' % (sorted(seen), sorted(emitted)))
    for k, v in seen.items():
        if k in emitted and v not in emitted[k]:  # several lines of one name: "unspecified which value will win" (Result.headers docstring)
            errs.append('header %s: %r not among emitted %r' % (k, v, emitted[k]))
    jar = _http_cookies.SimpleCookie()
    for v in emitted.get('set-cookie', ()):
        try:
            jar.load(v)
        except _http_cookies.CookieError:
            pass
    want = {m.key: m.value for m in jar.values()}
    got = {k: c.value for k, c in result.cookies.items()}
    if want != got:
        errs.append('cookies %r != emitted %r' % (got, want))
    return errs


def _drive_sim(app, A, asgi, rnd, conductor=False):
    import falcon.testing as ft

    kw = _sim_kwargs(A, asgi)
    if kw is None:
        return None
    tap = _Tap()
    if asgi:
        dec = getattr(ft.ASGIRequestEventEmitter, '_branch_decider', None)
        if isinstance(dec, dict):  # shared between all emitters: make the variation a function of the case, not of the history
            for k in ('return_empty_chunk', 'explicit_empty_body_1', 'explicit_empty_body_2', 'set_more_body_false'):
                dec[k] = rnd.random() < 0.5
        tapped = _tap_asgi(app, tap)
    else:
        kw.pop('asgi_chunk_size', None)
        tapped = _tap_wsgi(app, tap)
    try:
        if conductor:
            kw.pop('wsgierrors')

            async def go():
                async with ft.ASGIConductor(tapped) as c:
                    return await c.simulate_request(**kw)

            result = _CTX['loop'].run_until_complete(go())
        else:
            result = ft.simulate_request(tapped, **kw)
    except Exception as e:  # noqa: BLE001
        return _observe(tap, {'raise': [type(e).__name__, str(e)[:200]], 'result_view': []}, wsgi=not asgi, body_sent=A['body'])
    return _observe(tap, {'result_view': _result_view(result, tap, not asgi)}, wsgi=not asgi, body_sent=A['body'])


# ---------------------------------------------------------------------------------------------------------------------
# comparison and classification


def _flat(o, pair):
    f = {k: o.get(k) for k in ('status', 'headers', 'body', 'protocol', 'closed', 'raise')}
    d = o['digest']
    if d is None:
        f['digest'] = None
    else:
        f['digest'] = 'present'
        for k, v in d.items():
            if pair == 'stack' and k == 'headers' and isinstance(v, dict):
                v = {n.lower(): x for n, x in v.items()}  # BD1
            f['digest.' + k] = v
    if pair == 'asgi-conductor':
        pair = 'asgi-client'
    if pair != 'stack':
        f['result_view'] = o.get('result_view', [])
        for k, v in o['raw'].items():
            f['raw.' + k] = v
        if pair == 'wsgi-client':
            f['status_line'] = o.get('status_line')  # BD2
    return f


def _diff(left, right, pair):
    a, b = _flat(left, pair), _flat(right, pair)
    return {k: [a.get(k, '<absent>'), b.get(k, '<absent>')] for k in sorted(set(a) | set(b)) if a.get(k, '<absent>') != b.get(k, '<absent>')}


def _forwarded_bad_port(A):
    for n, v in A['headers']:
        if n.lower() == 'forwarded' and re.search(r'for="?[^;,"]*:[^0-9;,"\]][^;,"]*"?', v):
            return True
    return False


_HOST_FIELDS = ('digest.host', 'digest.port', 'digest.netloc', 'digest.subdomain', 'digest.uri', 'digest.url', 'digest.prefix', 'digest.forwarded_host',
                'digest.forwarded_uri', 'digest.forwarded_prefix', 'digest.headers', 'digest.headers_lower', 'raw.headers')
_WSGIREF_METHODS = ('GET', 'HEAD', 'POST', 'OPTIONS', 'PATCH', 'PUT', 'DELETE', 'TRACE')


def _without(d, keys):
    return {k: v for k, v in d.items() if k not in keys} if isinstance(d, dict) else d


def _k_forwarded_port(A, S, E, L, R, diffs):
    # (ValueError on the first access of access_route; the aborted computation leaves the cache at [] so that a later remote_addr raises IndexError)
    return {'digest.remote_addr'} if (_forwarded_bad_port(A) and R['digest'] and R['digest']['remote_addr'] in (['raise', 'ValueError', None], ['raise', 'IndexError', None])
                                      and R['digest']['access_route'] == L['digest']['access_route'] == ['raise', 'ValueError', None]) else set()


def _k_client_none(A, S, E, L, R, diffs):
    if not (A['client_none'] and not A['remote_addr'] and R['digest']):
        return set()
    return {f for f in ('digest.remote_addr', 'digest.access_route') if R['digest'][f[7:]][:2] == ['raise', 'TypeError']}


def _k_empty_cgi(A, S, E, L, R, diffs):
    if not (A['wsgi_empty_vars'] and L['digest'] and R['digest']):
        return set()
    out = set()
    absent = {n for n in ('content-type', 'content-length') if n not in R['digest']['headers_lower']}
    for f in ('headers', 'headers_lower'):
        lv = {k.lower(): v for k, v in L['digest'][f].items()}
        if all(lv.get(n) == '' for n in absent) and _without(lv, absent) == {k.lower(): v for k, v in R['digest'][f].items()}:
            out.add('digest.' + f)
    if 'content-type' in absent and L['digest']['content_type'] == '' and R['digest']['content_type'] is None:
        out.add('digest.content_type')
    return out


def _k_path_info(A, S, E, L, R, diffs):
    raw = unquote_to_bytes(A['path'])
    try:
        raw.decode('utf-8')
        return set()
    except UnicodeDecodeError:
        pass
    if L['raw'].get('PATH_INFO') == raw.decode('utf-8', 'replace').encode('utf-8').decode('latin-1') and R['raw'].get('PATH_INFO') == raw.decode('latin-1'):
        return {'raw.PATH_INFO'}
    return set()


def _k_wsgiwarning(A, S, E, L, R, diffs):
    import falcon.constants as fc

    if L['raise'] and L['raise'][0] == 'WSGIWarning' and A['method'] in fc.COMBINED_METHODS and A['method'] not in _WSGIREF_METHODS and not L['raw']:
        return set(diffs)
    return set()


def _k_typeless_media(A, S, E, L, R, diffs):
    if (L['raise'] and L['raise'][0] == 'AssertionError' and 'Content-Type header found in a' in L['raise'][1] and R['status'] in (204, 304)
            and S['body'][0] == 'media' and S['content_type'] is None and any(n == 'content-type' for n, _ in R['headers'])):
        return {'raise'}
    return set()


def _asgi_client_exempt(A, L):
    """Header names whose value the ASGI test client is known to send differently for A: 'host' (appended default wins) / 'cookie' (UTF-8 instead of latin-1)."""
    ex = {}
    hh = _host_header(A)
    if A['http_version'] != '1.0' and hh is not None and hh != _derived_host(A):
        ex['host'] = ['bytes:host', 'bytes:' + _derived_host(A)]
    if _cookies_by_kwarg(A) and A['method'] != 'OPTIONS' and not _cookie_line(A['cookies']).isascii():
        ex['cookie'] = ['bytes:cookie', 'bytes:' + _cookie_line(A['cookies']).encode('utf-8').decode('latin-1')]
    return ex


def _asgi_client_fields(A, L, R, diffs, ex):
    """The differing fields fully accounted for by the exemptions `ex` (every other header line / header value must still agree)."""
    out = set()
    lh, rh = list(L['raw'].get('headers') or ()), list(R['raw'].get('headers') or ())
    if 'host' in ex and ex['host'] in lh:
        lh.reverse()
        lh.remove(ex['host'])  # the LAST host line is the one the client appended
        lh.reverse()
    if 'cookie' in ex:
        lh = [h for h in lh if h != ex['cookie']]
        rh = [h for h in rh if h[0] != 'bytes:cookie']
    if lh == rh:
        out.add('raw.headers')
    if L['digest'] and R['digest']:
        for f in ('headers', 'headers_lower'):
            if isinstance(L['digest'][f], dict) and _without(L['digest'][f], ex) == _without(R['digest'][f], ex):
                out.add('digest.' + f)
    if 'host' in ex:
        out |= {f for f in _HOST_FIELDS if f.startswith('digest.') and f not in ('digest.headers', 'digest.headers_lower')}
    if 'cookie' in ex:
        out |= {'digest.cookies', 'digest.cookie_values_a'}
    return out & set(diffs)


def _k_asgi_host(A, S, E, L, R, diffs):
    ex = _asgi_client_exempt(A, L)
    return _asgi_client_fields(A, L, R, diffs, ex) if 'host' in ex else set()


def _k_asgi_cookie(A, S, E, L, R, diffs):
    ex = _asgi_client_exempt(A, L)
    return _asgi_client_fields(A, L, R, diffs, ex) if 'cookie' in ex else set()


# (key, pair, explain(A, S, E, left, right, diffs) -> the differing fields this class accounts for)
_RULES = [
    ('stack:forwarded-node-port-not-a-number', 'stack', _k_forwarded_port),
    ('stack:asgi-scope-client-none', 'stack', _k_client_none),
    ('stack:wsgi-empty-content-variables-are-header-values', 'stack', _k_empty_cgi),
    ('wsgi-client:path-info-undecodable-bytes-replaced', 'wsgi-client', _k_path_info),
    ('wsgi-client:method-unknown-to-wsgiref-raises-wsgiwarning', 'wsgi-client', _k_wsgiwarning),
    ('wsgi-client:content-type-on-204-304-when-media-is-set', 'wsgi-client', _k_typeless_media),
    ('asgi-client:host-header-argument-overridden', 'asgi-client', _k_asgi_host),
    ('asgi-client:cookies-argument-encoded-as-utf8', 'asgi-client', _k_asgi_cookie),
]


def _classify(pair, A, S, E, diffs, left, right):
    keys, explained = [], set()
    listed = {k['key'] for k in KNOWN}  # a class is excused only while it is listed (and thereby reported) in KNOWN
    for key, p, explain in _RULES:
        if key in listed and (p == pair or (p == 'asgi-client' and pair == 'asgi-conductor')):
            try:
                hit = explain(A, S, E, left, right, diffs) & set(diffs)
            except (KeyError, TypeError, IndexError, AttributeError):  # an observation without the shape the class describes is not explained by it
                hit = set()
            if hit:
                keys.append(key)
                explained |= hit
    return keys, [f for f in diffs if f not in explained]


_RANK = ['raise', 'protocol', 'status', 'status_line', 'headers', 'body', 'closed', 'result_view', 'digest', 'digest.route_params'] + ['digest.' + n for n, _ in _FIELDS]


def _field_rank(f):
    return (_RANK.index(f) if f in _RANK else 5.5 if f.startswith('raw.') else len(_RANK), f)


def _req_view(A):
    v = dict(A)
    v['body'] = _j(A['body']) if len(A['body']) <= 200 else 'bytes:%d bytes, sha1 %s' % (len(A['body']), hashlib.sha1(A['body']).hexdigest()[:12])
    v['headers'] = [list(h) for h in A['headers']]
    v['cookies'] = None if A['cookies'] is None else [list(c) for c in A['cookies']]
    v['server'] = list(A['server'])
    v['chunks'] = list(A['chunks'])
    return v


def _spec_view(S):
    v = dict(S)
    v['body'] = _j(list(S['body']))
    v['status'] = _j(S['status'])
    v['props'] = _j(S['props'])
    v['set_cookies'] = _j(S['set_cookies'])
    return v


def _run_case(case):
    """-> list of (pair, outcome) with outcome in ('ok', None) / ('known', keys) / ('fail', record) / ('skip', None)."""
    idx, A, S, opts = case
    w, a = _CTX['apps'][opts]
    rnd = random.Random(idx * 7919 + 13)
    out = []

    def run(driver, *args):
        CUR.update(spec=S, digest=None, closed=None)
        return driver(*args)

    E = _effective(A)
    ow, oa = run(_drive_wsgi, w, A), run(_drive_asgi, a, A)
    if E is A:
        ew, ea = ow, oa
    else:
        ew, ea = run(_drive_wsgi, w, E), run(_drive_asgi, a, E)
    sw, sa = run(_drive_sim, w, A, False, rnd), run(_drive_sim, a, A, True, rnd)
    out.append(('stack', ('stat', (ow['digest'] is not None, ow['status'], bool(A['body']) and S['read'] != 'none' and ow['digest'] is not None,
                                   not unquote_to_bytes(A['path']).isascii()))))
    pairs = [('stack', ow, oa), ('wsgi-client', sw, ew), ('asgi-client', sa, ea)]
    if idx % 4 == 0:
        pairs.append(('asgi-conductor', run(_drive_sim, a, A, True, rnd, True), ea))
    for pair, left, right in pairs:
        if left is None:
            out.append((pair, ('skip', None)))
            continue
        diffs = _diff(left, right, pair)
        if not diffs:
            out.append((pair, ('ok', None)))
            continue
        keys, rest = _classify(pair, A, S, E, diffs, left, right)
        if not rest:
            out.append((pair, ('known', keys)))
            continue
        first = min(rest, key=_field_rank)
        names = {'stack': ('wsgi-spec-driver', 'asgi-spec-driver'), 'wsgi-client': ('simulate_request(wsgi)', 'wsgi-spec-driver'),
                 'asgi-client': ('simulate_request(asgi)', 'asgi-spec-driver'), 'asgi-conductor': ('ASGIConductor.simulate_request', 'asgi-spec-driver')}[pair]
        rec = {'obligation': 'C06.bounded#%s:%s' % (pair, 'raw.HTTP_*' if first.startswith('raw.HTTP_') else first), 'pair': pair, 'case': idx,
               'request': _req_view(A), 'responder': _spec_view(S),
               'req_options': dict(zip(('strip_url_path_trailing_slash', 'keep_blank_qs_values', 'auto_parse_qs_csv'), opts)),
               'sides': list(names), 'differs': {k: [_short(v[0]), _short(v[1])] for k, v in list(diffs.items())[:8] if k in rest},
               'all_differing_fields': sorted(diffs)[:40], 'known_classes_also_present': keys}
        out.append((pair, ('fail', rec)))
    return out


# ---------------------------------------------------------------------------------------------------------------------
# generators

_SEGS = ['42', 'a.b-c_d~e', 'caf%C3%A9', 'caf%c3%a9', '%E4%BD%A0%E5%A5%BD', '%F0%9F%98%80', 'a%FFb', '%E2%82', '%C0%AF', '%ED%A0%80', '%zz', 'a%', '%2',
         'a%2Fb', 'a%3Fb', 'a%23b', 'a%20b', 'a+b', 'a%2520b', 'a;b=c', 'a%00b', 'a%0Ab', '%7Bx%7D', 'A%2fB']
_TEMPLATES = ['/', '/items/{s}', '/items/{s}/', '/sink/{s}', '/sink', '/sink/', '/nope/{s}', '/items', '/items/', '//items/{s}', '/items/{s}/x', '/items//']
_QUERIES = ['', 'a=1', 'a=1&b=', 'a=1,2&a=3', 'a=,', 'q=caf%C3%A9', 'x=%FF', 'a=b=c', 'a', '&&', 'a=1&a=2&A=3', 'x=%zz', 'a=+b+', 'a=%2C', 't=true&n=-3',
            'a[]=1&a[]=2', 'a=1;b=2', '%E4%BD%A0=%E5%A5%BD', 'n=x&t=maybe', 'b', 'a=1&&b=2&', 'a=%00']
_FWD_SETS = [
    [], [('X-Forwarded-For', '203.0.113.9, 198.51.100.7')], [('X-Forwarded-For', '203.0.113.9'), ('x-forwarded-for', '198.51.100.7')],
    [('X-Forwarded-Proto', 'HTTPS'), ('X-Forwarded-Host', 'public.example')], [('Forwarded', 'for=192.0.2.43;proto=https;host=fw.example, for="[2001:db8::1]:47011"')],
    [('Forwarded', 'for=192.0.2.43'), ('FORWARDED', 'for=198.51.100.17;by=203.0.113.60')], [('Forwarded', 'for="1.2.3.4:_x"')], [('X-Real-IP', '203.0.113.77')],
    [('Forwarded', 'for=_hidden;proto=http'), ('X-Forwarded-For', '203.0.113.9')], [('X-Forwarded-Prefix', '/pre')], [('Forwarded', 'garbage;;=,')],
]
_COND_SETS = [
    [], [('Range', 'bytes=0-9')], [('Range', 'bytes=-5')], [('Range', 'items=1-2')], [('Range', 'bytes=9-1')], [('Range', 'bytes=0-4,7-9')],
    [('If-Match', '"abc", W/"def"')], [('If-None-Match', '*')], [('If-None-Match', '"a"'), ('if-none-match', 'W/"b"')],
    [('If-Modified-Since', 'Sun, 06 Nov 1994 08:49:37 GMT')], [('If-Modified-Since', 'yesterday')], [('If-Unmodified-Since', 'Sunday, 06-Nov-94 08:49:37 GMT')],
    [('If-Range', '"abc"')], [('Date', 'Sun, 06 Nov 1994 08:49:37 GMT')], [('Accept', 'application/xml;q=0.9, application/json')], [('Accept', 'text/*'), ('ACCEPT', '*/*;q=0.1')],
    [('Accept', 'application/xml')], [('Accept', '')], [('Accept', 'bogus')], [('Authorization', 'Basic dTpw')], [('Expect', '100-continue')],
    [('Referer', 'http://ref.example/x?y')], [('User-Agent', 'curl/8.0')], [('X-Multi', 'a'), ('x-multi', 'b'), ('X-MULTI', 'c')], [('X-Latin', 'caf\xe9')],
    [('Accept-Language', 'da, en;q=0.8')], [('Content-Type', _JSON)], [('X-Empty', '')],
]
_HOSTS = [  # (scheme, server, host_header, http_version)
    ('http', ('falconframework.org', 80), _DERIVE, '1.1'), ('https', ('falconframework.org', 443), _DERIVE, '1.1'), ('http', ('api.example.com', 8080), _DERIVE, '1.1'),
    ('https', ('api.example.com', 80), _DERIVE, '1.1'), ('http', ('10.0.0.1', 80), 'www.example.com', '1.1'), ('http', ('10.0.0.1', 8000), 'www.example.com:8080', '1.1'),
    ('https', ('10.0.0.1', 443), 'www.example.com:443', '1.1'), ('http', ('falconframework.org', 80), 'a:b', '1.1'), ('http', ('falconframework.org', 80), '[::1]:8080', '1.1'),
    ('http', ('falconframework.org', 80), _DERIVE, '1.0'), ('http', ('falconframework.org', 80), 'old.example', '1.0'), ('http', ('falconframework.org', 80), None, '1.1'),
    ('http', ('falconframework.org', 80), '', '1.1'), ('https', ('falconframework.org', 8443), _DERIVE, '2'),
]
_COOKIES = [None, [('a', '1')], [('a', '1'), ('b', 'x y')], [('a', '1'), ('a', '2')], [('sid', 'caf\xe9')], [('a', '"q"'), ('c', '')]]
_BODIES = [b'', b'{"a": 1}', b'a=1&b=2&a=3', b'\xff\x00binary', b'{"k": "' + b'v' * 5000 + b'"}', b'[1, 2', b'null', '{"u": "café"}'.encode(), b'a=%FF&b']
_CTYPES = [None, _JSON, _FORM, 'text/plain', _JSON + '; charset=utf-8', 'APPLICATION/JSON', 'application/x-msgpack-not-installed', _FORM + '; charset=x']
_CHUNKS = [(), (1, 1, 1), (0, 3, 0, 0, 2), (3,), (4096,), (0,), (1, 0, 1, 0, 1, 0, 7)]
_READS = ['none', 'all', 'split', 'media', 'media_default', 'media!']
_STATUSES = [None, 200, '201 Created', 201, 204, 304, 404, '204 Custom', '200 OK', 299, '404 Nope', 500, 418, 'HTTPStatus:202', 205, 'HTTPStatus:205', 206, 301, 599]
_BODY_FORMS = [('none',), ('text', 'héllo'), ('text', ''), ('data', b'\x00\xffraw'), ('data', b''), ('media', {'k': [1, 'café', None]}), ('media', []),
               ('stream', [b'ab', b'', b'cde']), ('stream', []), ('stream_len', [b'ab', b'cde']), ('file', b'0123456789' * 900), ('file', b'')]
_RESP_CTYPES = [None, 'text/plain; charset=utf-8', 'application/yaml']
_RESP_EXTRAS = [
    dict(),
    dict(set_headers=[('X-A', '1'), ('x-b', 'two words'), ('X-Latin', 'caf\xe9')], append_headers=[('X-L', 'a'), ('x-l', 'b'), ('Link', '<x>; rel=next')]),
    dict(set_cookies=[dict(name='sid', value='abc', max_age=60, path='/p', secure=False, http_only=True), dict(name='t', value='café')], unset_cookies=['old']),
    dict(props=[('etag', 'abc'), ('cache_control', ['no-store', 'max-age=0']), ('vary', ['Accept', 'X-A']), ('location', '/x y?z=é')]),
    dict(props=[('downloadable_as', 'résumé.txt'), ('retry_after', 5), ('content_length', 3)], set_headers=[('Content-Length', '999')]),
    dict(set_cookies=[dict(name='a', value='1'), dict(name='b', value='2', domain='example.com', same_site='Lax')], append_headers=[('X-L', 'only'), ('Set-Cookie', 'raw=1; Path=/')]),
]
_ERRORS = ['bad_request', 'not_found', 'not_found_desc', 'method_not_allowed', 'range', 'unavailable', 'unavailable_dt', 'too_many', 'unauthorized', 'teapot',
           'status_202', 'status_204', 'status_custom', 'found', 'moved', 'see_other', 'temporary', 'permanent', 'crash']
_OPTS = list(itertools.product((False, True), repeat=3))
_PCHAR = "abcdefghijklmnopqrstuvwxyzABCDEFGHIJKLMNOPQRSTUVWXYZ0123456789-._~!$&'()*+,;=:@"  # RFC 3986 pchar without pct-encoded
_METHODS = ['GET', 'HEAD', 'POST', 'PUT', 'OPTIONS', 'DELETE', 'PATCH', 'CONNECT', 'BREW']


def _typeless_ok(S):
    """wsgiref.validate (used by simulate_request) asserts that a 204 / 304 carries no Content-Type: not generated (responder-side error, not falcon's)."""
    st = S['status']
    code = 200 if st is None else int(str(st)[11:] if str(st).startswith('HTTPStatus:') else str(st)[:3])
    if S['kind'] == 'error' and S['error'] == 'status_204':
        code = 204
    return not (code in (204, 304) and (S['content_type'] is not None))


def _enumerate(tier):
    """The exhaustive part: full cross products over a few dimensions at a time, the other dimensions at their defaults.

    -> (cases, blocks): cases = [(request, responder spec, request options)], blocks = [(description, number of cases before the options factor)]."""
    cases, blocks = [], []

    def block(text, items):
        items = list(items)
        blocks.append((text, len(items)))
        cases.extend(items)

    ok = _spec(body=('text', 'ok'))
    block('R1 request line and routing: methods GET/HEAD/POST/OPTIONS/DELETE x {the 4 templates /items/{s}, /items/{s}/, /sink/{s}, /nope/{s} with the first 14 '
          'path segments (ASCII; percent-encoded UTF-8 of 2, 3, 4 bytes, lower-case hex; invalid byte, truncated, overlong, surrogate sequences; malformed '
          'escapes %zz, a%, %2; encoded "/"), and the fixed paths /, /sink, /sink/, /items, /items/} x queries {"", a=1&b=, a=1,2&a=,}',
          ((_req(method=m, path=t.replace('{s}', s), query=q), ok, None)
           for m, t, s, q in itertools.product(['GET', 'HEAD', 'POST', 'OPTIONS', 'DELETE'], _TEMPLATES[:9], _SEGS[:14], ['', 'a=1&b=', 'a=1,2&a=,'])
           if '{s}' in t or s == _SEGS[0]))
    block('R2 templates /items/{s}, /items/{s}/, /sink/{s} x all %d path segments (adds encoded "?", "#", space, "+", double encoding, ";", NUL, LF, braces) x all '
          '%d query strings (blank values, repeated and case-differing keys, commas, encoded commas, percent-encoded UTF-8 / invalid bytes / NUL, malformed '
          'escapes, "&&", ";", "[]", key without "=")' % (len(_SEGS), len(_QUERIES)),
          ((_req(path=t.replace('{s}', s), query=q), _spec(body=('media', {'ok': True})), None)
           for t, s, q in itertools.product(['/items/{s}', '/items/{s}/', '/sink/{s}'], _SEGS, _QUERIES)))
    block('R3 methods %s x paths /items/1, /sink/x, /nope' % '/'.join(_METHODS),
          ((_req(method=m, path=p), ok, None) for m, p in itertools.product(_METHODS, ['/items/1', '/sink/x', '/nope'])))
    block('R4 all 8 combinations of strip_url_path_trailing_slash / keep_blank_qs_values / auto_parse_qs_csv x paths /items/42, /items/42/, /sink/a/, /, '
          '/items/caf%%C3%%A9/ x all %d query strings (options factor not applied again)' % len(_QUERIES),
          ((_req(path=p, query=q), ok, o) for o, p, q in itertools.product(_OPTS, ['/items/42', '/items/42/', '/sink/a/', '/', '/items/caf%C3%A9/'], _QUERIES)))
    block('H1 %d scheme / listening address / Host line / HTTP version settings (default and non-default ports, Host differing from the listening address, '
          'Host with a non-numeric port, IPv6 literal, empty Host, no Host, HTTP/1.0 with and without Host, HTTP/2) x root paths {"", /api} x peers {none, '
          '10.0.0.9} x %d forwarding header sets (X-Forwarded-For in one line / two lines of differently-cased names, X-Forwarded-Proto + -Host, Forwarded with '
          'proto / host / quoted IPv6 node, two Forwarded lines, Forwarded with a non-numeric node port, obfuscated node, X-Real-IP, X-Forwarded-Prefix, '
          'malformed Forwarded)' % (len(_HOSTS), len(_FWD_SETS)),
          ((_req(scheme=sch, server=srv, host_header=hh, http_version=hv, root_path=rp, remote_addr=ra, headers=list(fw), query='x=1'), ok, None)
           for (sch, srv, hh, hv), rp, ra, fw in itertools.product(_HOSTS, ['', '/api'], [None, '10.0.0.9'], _FWD_SETS)))
    block('H2 peers {none, ::1, 10.0.0.9} x scope client {missing, None} x CONTENT_TYPE / CONTENT_LENGTH {absent, empty} x root paths {"", /api, /a/b} x paths '
          '{/items/1, /, ""} (empty path only under a root path)',
          ((_req(remote_addr=ra, client_none=cn, wsgi_empty_vars=ev, root_path=rp, path=p), ok, None)
           for ra, cn, ev, rp, p in itertools.product([None, '::1', '10.0.0.9'], [False, True], [False, True], ['', '/api', '/a/b'], ['/items/1', '/', ''])
           if p or rp))
    block('C1 %d conditional / range / negotiation / credential header sets (Range forms incl. unsatisfiable order and multi-range, If-Match, If-None-Match in one '
          'and two lines, HTTP dates valid / invalid / obsolete format, If-Range, Date, Accept variants incl. empty and malformed and two lines, Authorization, '
          'Expect, Referer, User-Agent, a custom field in three differently-cased lines, a latin-1 value, an empty value, Content-Type on GET) x %d cookie sets '
          '(none, one, two, repeated name, latin-1 value, quoted / empty values) x cookies passed by cookies= or as a Cookie line x methods GET/OPTIONS x routes '
          '/items/1, /sink/1 (OPTIONS on the resource route only without extra headers)' % (len(_COND_SETS), len(_COOKIES)),
          ((_req(method=m, path=pth, headers=list(hs), cookies=ck, cookie_via=via), ok, None)
           for hs, ck, via, m, pth in itertools.product(_COND_SETS, _COOKIES, ['kwarg', 'header'], ['GET', 'OPTIONS'], ['/items/1', '/sink/1'])
           if not (m == 'OPTIONS' and pth == '/items/1' and hs)))

    def bodies():
        for m, ct, b, ch, rd in itertools.product(['POST', 'PUT', 'GET'], _CTYPES, _BODIES, _CHUNKS[:4], _READS):
            if m == 'GET' and ch != ():
                continue
            hs = [] if ct is None else [('Content-Type', ct)]
            yield (_req(method=m, headers=hs, body=b, declare_length=bool(ch), chunks=ch, sim_chunk=(ch[0] or 1) if ch else 4096, ct_kwarg=ch == (3,),
                        json_kwarg=ch == (1, 1, 1)), _spec(body=('text', 'ok'), read=rd), None)

    block('B1 methods POST/PUT x %d request content types (none, JSON, JSON with charset, upper-case, urlencoded, urlencoded with parameter, text/plain, one '
          'without handler) x %d bodies (empty, JSON object / null / truncated / non-ASCII / 5 kB, urlencoded incl. an invalid escape, binary) x 4 chunkings '
          '(one event; 1-byte events; empty events interleaved; 3 bytes then the rest -- the test client uses asgi_chunk_size 4096 / 1 / 1 / 3; with the 3rd '
          'chunking the Content-Type goes through content_type=, with the 2nd through json= when the body is what json= would produce) x %d read modes (none, '
          'read(), read(3)+read(), get_media() twice, get_media(default_when_empty=None), get_media() with the error propagating); the same with GET and one '
          'event; a declared Content-Length: 0 for an empty body with the last three chunkings' % (len(_CTYPES), len(_BODIES), len(_READS)), bodies())
    block('S1 methods GET/HEAD x %d statuses (unset, int and "NNN Reason" forms of 200 / 201 / 204 / 304 / 404, "204 Custom", 299, 418, 500, http.HTTPStatus(202); '
          'no 1xx) x %d body forms (none; text non-ASCII / empty; data / empty; media dict / empty list; iterable resp. async generator with an empty chunk / '
          'empty; set_stream with length; file-like 9 kB / empty) x content type {unset, text/plain; charset=utf-8} x %d header sets (none; set_header + '
          'append_header incl. a latin-1 value and Link; set_cookie with attributes + non-ASCII value + unset_cookie; etag / cache_control / vary / location; '
          'downloadable_as / retry_after / content_length / a wrong Content-Length; two cookies + append_header(Set-Cookie)); 204 / 304 with an explicit '
          'content type are left out (wsgiref.validate rejects them)' % (len(_STATUSES), len(_BODY_FORMS), len(_RESP_EXTRAS)),
          ((_req(method=m), S, None) for m, S in ((m, _spec(status=st, body=bf, content_type=ct, **_RESP_EXTRAS[ex])) for m, st, bf, ct, ex in itertools.product(
              ['GET', 'HEAD'], _STATUSES, _BODY_FORMS, _RESP_CTYPES[:2], range(len(_RESP_EXTRAS)))) if _typeless_ok(S)))
    block('S2 methods GET/HEAD/POST x %d raised outcomes (HTTPBadRequest, HTTPNotFound plain / with description and headers, HTTPMethodNotAllowed with Allow, '
          'HTTPRangeNotSatisfiable, HTTPServiceUnavailable with retry_after int / datetime, HTTPTooManyRequests, HTTPUnauthorized with challenges, HTTPError 418 '
          'with code and headers, HTTPStatus 202 with headers and text / 204 / "299 Odd", HTTPFound, HTTPMovedPermanently with headers, HTTPSeeOther, '
          'HTTPTemporaryRedirect, HTTPPermanentRedirect, RuntimeError) x Accept {none, application/xml, text/html + JSON q=0.5, image/png} x raised before / '
          'after the responder wrote status 201, headers and a text body' % len(_ERRORS),
          ((_req(method=m, headers=[] if acc is None else [('Accept', acc)]),
            _spec(kind='error', error=er, raise_after=after, **(dict(_RESP_EXTRAS[1], body=('text', 'partial'), status=201) if after else {})), None)
           for m, er, acc, after in itertools.product(['GET', 'HEAD', 'POST'], _ERRORS, [None, 'application/xml', 'text/html, application/json;q=0.5', 'image/png'],
                                                      [False, True])))
    d = _OPTS if tier == 'thorough' else [_OPTS[0], _OPTS[7]]
    full = []
    for i, (A, S, o) in enumerate(cases):
        for oo in ([o] if o is not None else d if tier == 'thorough' else [d[i % 2]]):
            full.append((A, S, oo))
    return full, blocks


def _rand_seg(rnd):
    r = rnd.random()
    if r < 0.45:
        return rnd.choice(_SEGS)
    raw = bytes(rnd.randrange(256) for _ in range(rnd.randint(1, 5))) if r < 0.7 else ''.join(
        rnd.choice('aé你\U0001f600/? %') for _ in range(rnd.randint(1, 4))).encode()
    return ''.join(chr(b) if (chr(b) in _PCHAR and rnd.random() < 0.7) else '%%%02X' % b for b in raw)


def _random_case(rnd):
    A = _req()
    A['method'] = rnd.choice(_METHODS[:5]) if rnd.random() < 0.85 else rnd.choice(_METHODS)
    A['path'] = rnd.choice(_TEMPLATES).replace('{s}', _rand_seg(rnd))
    A['query'] = rnd.choice(_QUERIES) if rnd.random() < 0.7 else '&'.join(rnd.choice(['a', 'b', 'n', 't', 'q']) + rnd.choice(['', '=', '=1', '=1,2', '=%s' % _rand_seg(rnd)])
                                                                        for _ in range(rnd.randint(1, 4)))
    A['query_in_path'] = rnd.random() < 0.3
    hs = []
    for pool in (_FWD_SETS, _COND_SETS, _COND_SETS):
        if rnd.random() < 0.5:
            hs.extend(rnd.choice(pool))
    # one line per singleton field (ASSUMPTIONS): keep the first
    seen, out = set(), []
    for n, v in hs:
        ln = n.lower()
        if ln in ('content-type', 'user-agent', 'referer', 'expect', 'authorization', 'date', 'if-range', 'range', 'if-modified-since', 'if-unmodified-since'):
            if ln in seen:
                continue
            seen.add(ln)
        out.append((n, v))
    rnd.shuffle(out)
    # shuffling must not reorder lines of one field: restore their relative order
    by = {}
    for n, v in hs:
        by.setdefault(n.lower(), []).append((n, v))
    fixed = []
    for n, v in out:
        fixed.append(by[n.lower()].pop(0))
    A['headers'] = fixed
    A['scheme'], A['server'], A['host_header'], A['http_version'] = rnd.choice(_HOSTS)
    A['root_path'] = rnd.choice(['', '', '/api', '/a/b'])
    A['remote_addr'] = rnd.choice([None, '10.0.0.9', '::1', '203.0.113.5'])
    A['client_none'] = rnd.random() < 0.15
    A['wsgi_empty_vars'] = rnd.random() < 0.15
    A['cookies'] = rnd.choice(_COOKIES)
    A['cookie_via'] = rnd.choice(['kwarg', 'header'])
    if A['method'] in ('POST', 'PUT', 'PATCH') or rnd.random() < 0.15:
        A['body'] = rnd.choice(_BODIES) if rnd.random() < 0.8 else bytes(rnd.randrange(256) for _ in range(rnd.randint(1, 9000)))
        if not _has_header(A, 'content-type'):
            ct = rnd.choice(_CTYPES)
            if ct is not None:
                A['headers'] = A['headers'] + [('Content-Type', ct)]
        A['declare_length'] = rnd.random() < 0.7
        A['chunks'] = rnd.choice(_CHUNKS) if rnd.random() < 0.7 else tuple(rnd.randint(0, 64) for _ in range(rnd.randint(1, 6)))
        A['sim_chunk'] = rnd.choice([1, 2, 3, 7, 64, 4096])
    A['ct_kwarg'] = rnd.random() < 0.3
    A['json_kwarg'] = rnd.random() < 0.3
    S = _spec(read=rnd.choice(_READS))
    if rnd.random() < 0.25:
        S.update(kind='error', error=rnd.choice(_ERRORS), raise_after=rnd.random() < 0.3)
    if S['kind'] == 'normal' or S['raise_after']:
        S.update(_RESP_EXTRAS[rnd.randrange(len(_RESP_EXTRAS))])
        S['status'] = rnd.choice(_STATUSES)
        S['body'] = rnd.choice(_BODY_FORMS)
        S['content_type'] = rnd.choice(_RESP_CTYPES)
        if not _typeless_ok(S):
            S['content_type'] = None
    return A, S, rnd.choice(_OPTS)


# ---------------------------------------------------------------------------------------------------------------------
# orchestration


def _setup(overlay_dir):
    global _UA
    if overlay_dir and overlay_dir not in sys.path:
        sys.path.insert(0, overlay_dir)
    import falcon

    _UA = 'falcon-client/' + falcon.__version__
    _CTX['apps'] = _build_apps()


def _worker_init():
    import logging

    logging.getLogger('falcon').setLevel(logging.CRITICAL + 10)
    import warnings
    import wsgiref.validate

    # appended: consulted AFTER the filter falcon.testing.client installs itself, which therefore behaves as for any user
    warnings.filterwarnings('ignore', category=wsgiref.validate.WSGIWarning, append=True)
    try:  # a module-wide asyncio.Runner of the parent must not be shared by forked children
        from falcon.util import sync

        sync._active_runner._runner = sync._active_runner._runner_cls()
    except Exception:  # noqa: BLE001
        pass
    _CTX['loop'] = asyncio.new_event_loop()


def _work(args):
    kind, lo, hi, seed = args
    res = []
    for i in range(lo, hi):
        if kind == 'enum':
            A, S, o = _CTX['enum'][i]
            case = (i, A, S, o)
        else:
            A, S, o = _random_case(random.Random((seed * 1000003 + i) & 0xFFFFFFFF))
            case = (1000000 + i, A, S, o)
        try:
            res.extend(_run_case(case))
        except Exception:  # noqa: BLE001 -- a crash of the stand-in itself is reported, never swallowed
            res.append(('stack', ('crash', {'case': case[0], 'request': _req_view(A), 'responder': _spec_view(S), 'traceback': traceback.format_exc()[-1500:]})))
    return res


_PAIR_NAMES = {
    'stack': 'C06.bounded (stack equivalence: WSGI spec driver vs ASGI spec driver, same application logic, same abstract request)',
    'wsgi-client': 'C06.bounded (test client faithfulness, WSGI: falcon.testing.simulate_request vs a PEP 3333 server driver)',
    'asgi-client': 'C06.bounded (test client faithfulness, ASGI: falcon.testing.simulate_request vs an ASGI HTTP server driver)',
    'asgi-conductor': 'C06.bounded (test client faithfulness, ASGI: falcon.testing.ASGIConductor.simulate_request vs an ASGI HTTP server driver; every 4th case)',
}


def bounded(tier, seed, overlay_dir):
    import logging
    import multiprocessing as mp

    t0 = time.time()
    tier = 'thorough' if tier == 'thorough' else 'quick'
    seed = int(seed or 0)
    _setup(overlay_dir)
    _CTX['enum'], blocks = _enumerate(tier)
    n_enum = len(_CTX['enum'])
    n_rand = 60000 if tier == 'thorough' else 3000
    jobs = []
    step = 200
    for lo in range(0, n_enum, step):
        jobs.append(('enum', lo, min(n_enum, lo + step), seed))
    for lo in range(0, n_rand, step):
        jobs.append(('rand', lo, min(n_rand, lo + step), seed))
    nproc = max(1, min(os.cpu_count() or 1, int(os.environ.get('VERIF_JOBS', '16') or 16), len(jobs)))
    results = []
    if nproc > 1:
        try:
            with mp.get_context('fork').Pool(nproc, initializer=_worker_init) as pool:
                for r in pool.map(_work, jobs, chunksize=1):
                    results.extend(r)
        except (OSError, ValueError):
            nproc, results = 1, []
    if nproc == 1:
        lg = logging.getLogger('falcon')
        old = lg.level
        _worker_init()
        try:
            for jb in jobs:
                results.extend(_work(jb))
        finally:
            lg.setLevel(old)
            _CTX.pop('loop').close()
    by = {p: {'cases': 0, 'skipped': 0, 'failures': [], 'n_fail': 0, 'known': {}, 'by_ob': {}} for p in _PAIR_NAMES}
    crashes = []
    stat = {'responder_reached': 0, 'statuses': set(), 'request_body_read_by_responder': 0, 'non_ascii_paths': 0}
    for pair, (kind, val) in results:
        b = by[pair]
        if kind == 'stat':
            stat['responder_reached'] += val[0]
            stat['statuses'].add(val[1])
            stat['request_body_read_by_responder'] += val[2]
            stat['non_ascii_paths'] += val[3]
            continue
        if kind == 'crash':
            crashes.append(val)
            continue
        if kind == 'skip':
            b['skipped'] += 1
            continue
        b['cases'] += 1
        if kind == 'known':
            for k in val:
                b['known'][k] = b['known'].get(k, 0) + 1
        elif kind == 'fail':
            b['n_fail'] += 1
            ob = val['obligation']
            b['by_ob'][ob] = b['by_ob'].get(ob, 0) + 1
            if sum(1 for f in b['failures'] if f['obligation'] == ob) < 2 and len(b['failures']) < 5:
                b['failures'].append(val)
    bound = ('EXHAUSTIVE PART, %d cases: full cross products over a few dimensions at a time, every other dimension at its default (GET /items/42, no query, '
             'no extra headers, http://falconframework.org:80 with the derived Host line, no peer address, no body, responder answers 200 with a text body): %s. '
             'Each case runs under %s, except R4. RANDOM PART, %d cases, seed %d: request and responder drawn independently per dimension from the same value pools, '
             'plus path segments made of 1-5 random bytes or 1-4 characters of "a\u00e9\u4f60\U0001f600/? %%" percent-encoded at random, query strings of 1-4 '
             'random pairs, random bodies of up to 9000 bytes, random chunkings of up to 6 events of 0-64 bytes, query passed inside path, content_type= / json= '
             'conveniences, one random request-option combination. Every case runs the WSGI spec driver, the ASGI spec driver, simulate_request(wsgi app) and '
             'simulate_request(asgi app) (every 4th case also ASGIConductor); a spec driver runs a second time when the test client is documented to send a '
             'different request (BD4, BD5, BD9). %d worker processes'
             % (n_enum, '; '.join('%s [%d]' % b for b in blocks),
                'all 8 request-option combinations' if tier == 'thorough' else 'one of two request-option combinations (none set / all three set, alternating)',
                n_rand, seed, nproc))
    out = []
    kdesc = {k['key']: k for k in KNOWN}
    for pair, name in _PAIR_NAMES.items():
        b = by[pair]
        # a divergence class of the catalogue is a FAILURE of this stand-in like any other, under the stable obligation id 'C06.bounded#<key>':
        # whether it is a recorded finding (KNOWN-FINDING line, exit 0) or a violation is decided by /verif/known_findings.json, not here
        for k in sorted(b['known']):
            b['failures'].append({'obligation': 'C06.bounded#%s' % k, 'pair': pair, 'divergence_class': k, 'cases_in_this_run': b['known'][k],
                                  'what': kdesc[k]['what'], 'witness': kdesc[k]['witness']})
        rec = {'name': name, 'bound': bound + ('' if pair == 'stack' else '; %d cases not expressible as simulate_request arguments (no Host line on HTTP/1.1, empty path) skipped'
                                               % b['skipped']),
               'cases': b['cases'], 'skipped': b['skipped'], 'failures': b['failures'], 'failing_cases': b['n_fail'], 'failing_by_obligation': b['by_ob'], 'known': sorted(b['known']), 'known_counts': b['known'],
               'by_design': [s.split(' ', 1)[0] for s in BY_DESIGN],
               'observed': dict(stat, statuses=sorted(x for x in stat['statuses'] if x is not None)), 'seconds': round(time.time() - t0, 1), 'label': 'bounded -- not counted as proved'}
        if crashes and pair == 'stack':
            rec['error'] = 'the stand-in crashed on %d cases; first: %s' % (len(crashes), json.dumps(crashes[0], default=repr)[:3000])
        out.append(rec)
    return out


# (file, old, new, what failed) -- documentation of the self-test of this stand-in: each edit applied ALONE to a scratch copy of the sources and
# `bounded('quick', 0, <scratch>)` run on it (2026-10-01); every edit produced failures, the last one (a harmless refactoring) none
KILLS_BOUNDED = [
    ('falcon/testing/helpers.py', '    raw_path = path\n    path = uri.decode(path, unquote_plus=False)\n', '    raw_path = path\n',
     'wsgi-client: raw.PATH_INFO (2790 cases), status (134)'),
    ('falcon/testing/helpers.py', "    if content_length != 0:\n        env['CONTENT_LENGTH'] = str(content_length)\n", "    if content_length is not None:\n        env['CONTENT_LENGTH'] = str(content_length)\n",
     'wsgi-client: raw.CONTENT_LENGTH (10695 cases)'),
    ('falcon/testing/helpers.py', "        else:\n            if port_str != '80':\n                host_header += ':' + port_str\n\n        env['HTTP_HOST'] = host_header\n", "        env['HTTP_HOST'] = host_header\n",
     'wsgi-client: raw.HTTP_* [HTTP_HOST] (230 cases)'),
    ('falcon/testing/helpers.py', "            n = name.lower().encode('latin1')\n", "            n = name.encode('latin1')\n",
     'asgi-client + conductor: protocol "scope header name is not lower-cased" (8027 cases)'),
    ('falcon/testing/helpers.py', "        'query_string': query_string_bytes,\n", "        'query_string': query_string,\n",
     'asgi-client + conductor: raise (TypeError from create_scope, every case)'),
    ('falcon/testing/helpers.py', "        'raw_path': raw_path.encode(),\n", '',
     'asgi-client + conductor: raw.raw_path (every case)'),
    ('falcon/testing/helpers.py', "    raw_path, _, _ = path.partition('?')\n    path = uri.decode(path, unquote_plus=False)\n", "    raw_path, _, _ = path.partition('?')\n    path = uri.decode(path, unquote_plus=True)\n",
     'asgi-client: raw.path (100 cases: paths with "+")'),
    ('falcon/asgi/app.py', "            resp._headers['content-length'] = str(len(data))\n\n            await send(\n", "            resp._headers['content-length'] = str(len(data) + 1)\n\n            await send(\n",
     'stack: headers [content-length] (11409 cases)'),
    ('falcon/asgi/app.py', "                                'body': data,\n                                'more_body': True,\n", "                                'body': data,\n                                'more_body': False,\n",
     'stack: protocol "send after the final body event" / body (317 cases)'),
    ('falcon/asgi/response.py', "        if self._extra_headers:\n            items += [\n                (n.encode('ascii'), v.encode('ascii')) for n, v in self._extra_headers\n            ]\n", '',
     'stack: headers [set-cookie from append_header] (778 cases)'),
    ('falcon/asgi/app.py', "        stream = resp.stream\n        if not stream:\n            resp._headers['content-length'] = '0'\n", '        stream = resp.stream\n',
     'stack: headers [content-length: 0 missing] (571 cases)'),
    ('falcon/app.py', '        return [], 0\n', '        return [], None\n',
     'stack: headers [content-length: 0 missing on WSGI] (594 cases)'),
    ('falcon/asgi/request.py', "            else:\n                if port != 80:\n                    netloc_value = f'{netloc_value}:{port}'\n\n        return netloc_value\n", "            else:\n                if port != 8080:\n                    netloc_value = f'{netloc_value}:{port}'\n\n        return netloc_value\n",
     'stack: digest.netloc (311 cases)'),
    ('falcon/asgi/request.py', "        try:\n            return self.scope['root_path']\n        except KeyError:\n            pass\n\n        return ''\n", "        return ''\n",
     'stack: digest.uri / root_path / prefix (1161 cases)'),
    ('falcon/testing/helpers.py', '        self._body = self._body[self._chunk_size :] or None\n', '        self._body = self._body[self._chunk_size :][:-1] or None\n',
     'asgi-client + conductor: digest.body / digest.media / digest.body_tail, status (1571 cases)'),
    ('falcon/testing/helpers.py', "                self.headers.append((name_decoded, value.decode('latin1')))\n", "                self.headers.append((name_decoded, value.decode('utf-8', 'replace')))\n",
     'asgi-client: result_view [latin-1 header value of Result.headers] (995 cases)'),
    ('falcon/testing/helpers.py', "            self.body_chunks.append(chunk)\n\n            self.more_body = event.get('more_body', False)\n", "            self.more_body = event.get('more_body', False)\n            if self.more_body:\n                self.body_chunks.append(chunk)\n",
     'asgi-client + conductor: result_view [Result.content misses the final chunk] (10934 cases)'),
    ('falcon/request.py', "        if not path.isascii():\n            path = path.encode('iso-8859-1').decode('utf-8', 'replace')\n", "        if not path.isascii():\n            path = path.encode('iso-8859-1').decode('utf-8', 'ignore')\n",
     'stack and wsgi-client: digest.route_params / digest.path / status (542 + 525 cases)'),
    ('falcon/testing/helpers.py', "    if remote_addr:\n        env['REMOTE_ADDR'] = remote_addr\n", '',
     'wsgi-client: raw.REMOTE_ADDR (2382 cases)'),
    ('falcon/testing/helpers.py', "        if (scheme or 'http') in {'http', 'ws'}:\n            port = 80\n        else:\n            port = 443\n", '        port = 80\n',
     'asgi-client: raw.headers [host line gets :443] (546 cases)'),
    ('falcon/testing/client.py', '        remote_addr=remote_addr,\n        root_path=root_path,\n        content_length=content_length,\n', '        remote_addr=remote_addr,\n        content_length=content_length,\n',
     'asgi-client: raw.root_path (1757 cases)'),
    ('falcon/app.py', "        if req.method == 'HEAD' or resp_status_code in _BODILESS_STATUS_CODES:\n            body = []\n", '        if resp_status_code in _BODILESS_STATUS_CODES:\n            body = []\n',
     'stack: body / headers / closed on HEAD (1872 cases)'),
    ('falcon/asgi/app.py', "                resp._headers['content-length'] = str(len(data)) if data else '0'\n", "                resp._headers['content-length'] = str(len(data)) if data else '1'\n",
     'stack: headers [content-length of HEAD] (486 cases)'),
    ('falcon/testing/client.py', "        path, query_string = path.split('?', 1)\n", "        path, query_string = path.split('?', 1)[0], ''\n",
     'wsgi-client raw.QUERY_STRING (765), asgi-client raw.query_string (775)'),
    ('falcon/testing/helpers.py', "    if scheme:\n        if scheme not in {'http', 'https', 'ws', 'wss'}:", "    if scheme and scheme != 'https':\n        if scheme not in {'http', 'https', 'ws', 'wss'}:",
     'asgi-client: raw.scheme (1063 cases)'),
    ('falcon/testing/helpers.py', "            if name_wsgi not in env or name.lower() in SINGLETON_HEADERS:\n                env[name_wsgi] = value\n            else:\n                env[name_wsgi] += ',' + value\n", '            env[name_wsgi] = value\n',
     'wsgi-client: raw.HTTP_* [repeated lines not folded] (736 cases)'),
    ('falcon/testing/helpers.py', "            v = b'' if value is None else value.strip().encode('latin1')\n", "            v = b'' if value is None else value.strip().encode('utf-8')\n",
     'asgi-client: raw.headers [latin-1 value sent as UTF-8] (424 cases)'),
    ('falcon/asgi/request.py', "                req_headers[header_name] += b',' + header_value\n", "                req_headers[header_name] += b', ' + header_value\n",
     'stack: digest.headers [folding with ", "] (519 cases)'),
    ('falcon/testing/helpers.py', "        'method': method.upper(),\n        'path': path,\n", "        'method': method.upper(),\n        'path': raw_path,\n",
     'asgi-client: raw.path (2949 cases)'),
    ('falcon/testing/helpers.py', "        'SCRIPT_NAME': (root_path or ''),\n", "        'SCRIPT_NAME': '',\n",
     'wsgi-client: raw.SCRIPT_NAME (1730 cases)'),
    ('falcon/testing/client.py', '        body = json_module.dumps(json, ensure_ascii=False)\n', '        body = json_module.dumps(json)\n',
     'wsgi-client raw.CONTENT_LENGTH (14), asgi-client protocol / raw.headers (14): json= body with non-ASCII text'),
    ('falcon/testing/helpers.py', "    root_path = root_path or app or ''\n", '    root_path = root_path or app or str()\n',
     'nothing (harmless refactoring: stays green)'),
]

if __name__ == '__main__':
    _ov = sys.argv[1]
    _tier = sys.argv[2] if len(sys.argv) > 2 else 'quick'
    _seed = int(sys.argv[3]) if len(sys.argv) > 3 else 0
    sys.path.insert(0, _ov)
    _t = time.time()
    _res = bounded(_tier, _seed, _ov)
    _bad = 0
    for _r in _res:
        print('%s\n   cases=%d failing_cases=%d skipped=%s known=%s seconds=%s' % (_r['name'], _r['cases'], _r['failing_cases'], _r['skipped'], json.dumps(_r['known_counts']), _r['seconds']))
        if _r.get('error'):
            print('   ERROR', _r['error'])
            _bad += 1
        for _k, _n in sorted(_r['failing_by_obligation'].items()):
            print('   %6d  %s' % (_n, _k))
        _dA, _dS = _req(), _spec_view(_spec())
        for _f in _r['failures']:
            _bad += 1
            _f = dict(_f, request={k: v for k, v in _f['request'].items() if v != _req_view(_dA).get(k)}, responder={k: v for k, v in _f['responder'].items() if v != _dS.get(k)})
            print('   FAIL', json.dumps(_f, default=repr)[:2500])
    print('observed:', json.dumps(_res[0]['observed']))
    print('bound:', _res[0]['bound'])
    print('wall %.1fs' % (time.time() - _t))
    sys.exit(1 if _bad else 0)
