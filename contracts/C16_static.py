"""C16 -- static routes: containment and exact bytes.

Contracts on falcon/routing/static.py: _set_range, _BoundedFile.read,
StaticRoute.__call__ (call-site containment obligation at every _open_file),
StaticRoute.match.
"""
from __future__ import annotations

import os

from pyvc.core import And, Iff, Implies, Ite, Len, Max, Min, Not, Or
from pyvc.harness import harness, stubclass

PROP = 'C16'
M = 'falcon.routing.static'


# ---------------------------------------------------------------------------
# ghost file: what the operating system's file object does, as far as the
# property needs it (position, closed flag, content)


@stubclass
class GhostFile:
    """An open regular file of `size` bytes with content `data` (ghost) and a cursor."""

    def __init__(self, v, size, data=None):
        self.v = v
        self.size = size
        self.data = data
        self.pos = 0
        self.closed = False
        self.closes = 0
        self.max_request_ok = True  # every read(n) had n <= the budget handed over
        self.budget = None

    def seek(self, off, whence=0):
        # io.IOBase.seek: SEEK_SET -> off; SEEK_END -> size + off (off usually negative)
        if whence == os.SEEK_END:
            self.pos = self.size + off
        else:
            self.pos = off
        return self.pos

    def close(self):
        self.closed = True
        self.closes += 1

    def read(self, n=-1):
        v = self.v
        # the file object returns at most n bytes, fewer only at end of file
        # (regular files; short reads allowed by the io contract are included)
        avail = Max(self.size - self.pos, 0)
        k = v.int('nread', 0)
        v.assume(k <= avail)
        v.assume(Implies(n >= 0, k <= n))
        self.last_request = n
        if self.budget is not None:
            v.check('never-requests-more-than-remaining', And(n >= 0, n <= self.budget))
        chunk = self.data[self.pos : self.pos + k] if self.data is not None else None
        self.pos = self.pos + k
        self.last_k = k
        return chunk if chunk is not None else _Blob(k)


@stubclass
class _Blob:
    """An opaque bytes object of known length."""

    def __init__(self, n):
        self.n = n

    def __pyvc_len__(self):
        return self.n

    def __len__(self):
        return self.n


def range_wf(f, l):
    """Post-condition of Request.range (proved in C09): the three RFC 9110 forms."""
    return Or(And(f >= 0, l >= f), And(f >= 0, l == -1), And(f < 0, l == -1))


# ---------------------------------------------------------------------------


@harness(PROP, M + ':_set_range', inline=[M + ':_BoundedFile.__init__'])
def set_range(v):
    size = v.int('size', 0)
    fh = GhostFile(v, size)
    st = _Stat(size)
    has_range = v.choose(2, 'req_range?')
    if has_range:
        f = v.int('first')
        l = v.int('last')
        v.assume(range_wf(f, l))
        rr = (f, l)
    else:
        f = l = None
        rr = None
    out = v.call(fh, st, rr)

    BoundedFile = v.real(M + ':_BoundedFile')
    HTTPRangeNotSatisfiable = v.real('falcon:HTTPRangeNotSatisfiable')

    def is_bounded(stream):
        if v.concrete:
            return isinstance(stream, BoundedFile)
        return getattr(stream, '_cls', None) is BoundedFile

    # --- which outcome -------------------------------------------------------
    unsat = And(size > 0, f >= 0, f >= size) if has_range else False
    v.check('416-iff-first-beyond-size', Iff(out.exc is not None, unsat))
    if out.exc is not None:
        v.check('only-416-escapes', out.exc.isa(HTTPRangeNotSatisfiable))
        if out.exc.isa(HTTPRangeNotSatisfiable):
            v.check('416-carries-size', _first_arg(out.exc) == size)
            v.check('416-closes-file', fh.closed)
        return
    stream, length, cr = out.value
    v.check('file-left-open', Not(fh.closed))
    if not has_range:
        v.check('whole-file', And(stream is fh, length == size, cr is None, fh.pos == 0))
        return
    if size == 0:
        v.check('zero-byte-file-ignores-range', And(stream is fh, length == 0, cr is None))
        return
    # a satisfiable range over a non-empty file: the slice [start, start+n)
    suffix = f < 0
    start = Ite(suffix, size - Min(-f, size), f)
    end = Ite(suffix, size - 1, Ite(l == -1, size - 1, Min(l, size - 1)))
    v.check('content-range-present', cr is not None)
    if cr is None:
        return
    v.check('content-range-is-requested-slice', And(cr[0] == start, cr[1] == end, cr[2] == size))
    v.check('slice-in-bounds', And(0 <= cr[0], cr[0] <= cr[1], cr[1] < size))
    v.check('length-matches-content-range', length == cr[1] - cr[0] + 1)
    v.check('file-positioned-at-start', fh.pos == cr[0])
    v.check('stream-bounded-to-length', is_bounded(stream))
    if is_bounded(stream):
        v.check('bounded-remaining-is-length', And(v.get(stream, 'fh') is fh, v.get(stream, 'remaining') == length))


def _first_arg(exc):
    if exc.real is not None:
        return getattr(exc.real, 'resource_length', None) if hasattr(exc.real, 'resource_length') else _cr_size(exc.real)
    return exc.args[0] if exc.args else exc.kwargs.get('resource_length')


def _cr_size(real):
    # HTTPRangeNotSatisfiable(resource_length) renders Content-Range: bytes */<n>
    h = dict(real.headers or {})
    val = h.get('Content-Range', '')
    return int(val.rpartition('/')[2]) if '/' in val else None


class _Stat:
    __pyvc_symbolic__ = True

    def __init__(self, size):
        self.st_size = size
        self.st_mtime = 0


# ---------------------------------------------------------------------------


@harness(PROP, M + ':_BoundedFile.read')
def bounded_read(v):
    fsize = v.int('fsize', 0)
    data = v.bytes('file')
    v.assume(Len(data) == fsize)
    fh = GhostFile(v, fsize, data)
    pos0 = v.int('pos0', 0)
    v.assume(pos0 <= fsize)
    fh.pos = pos0
    rem0 = v.int('remaining', 0)
    fh.budget = rem0
    bf = v.obj(M + ':_BoundedFile', fh=fh, close=fh.close, remaining=rem0)
    kind = v.choose(3, 'size-kind')
    if kind == 0:
        size = None
    elif kind == 1:
        size = v.int('size', 0)
    else:
        size = v.int('size')
        v.assume(size < 0)
    out = v.call(bf, size)
    v.check('no-exception', out.exc is None)
    if out.exc is not None:
        return
    r = out.value
    n = Len(r)
    rem1 = v.get(bf, 'remaining')
    v.check('returns-file-bytes-in-order', r == data[pos0 : pos0 + n])
    v.check('budget-deducts-returned', rem1 == rem0 - n)
    v.check('budget-never-negative', rem1 >= 0)
    if kind == 1:
        v.check('sized-read-bounded', n <= size)
    v.check('never-beyond-slice', n <= rem0)
    v.check('cursor-advances-by-returned', fh.pos == pos0 + n)
    v.cover('read-returns')


KILLS = [
    ('falcon/routing/static.py', '    end = min(end, size - 1)\n', '    end = min(end, size)\n', '_set_range#content-range-is-requested-slice'),
    ('falcon/routing/static.py', '    if start >= size:\n', '    if start > size:\n', '_set_range#416-iff-first-beyond-size'),
    ('falcon/routing/static.py', '    length = end - start + 1\n', '    length = end - start\n', '_set_range#length-matches-content-range'),
    ('falcon/routing/static.py', '        start = max(start, -size)\n', '        start = max(start, -size + 1)\n', '_set_range#content-range-is-requested-slice'),
    ('falcon/routing/static.py', '        self.remaining -= len(data)\n', '        self.remaining -= size\n', '_BoundedFile.read#budget-deducts-returned'),
    ('falcon/routing/static.py', '            size = min(size, self.remaining)\n', '            size = max(size, self.remaining)\n', '_BoundedFile.read#never-requests-more-than-remaining'),
]
HARMLESS = [
    ('falcon/routing/static.py', '    size = st.st_size\n    if req_range is None:\n        return fh, size, None\n',
     '    file_size = st.st_size\n    size = file_size\n    if req_range is None:\n        return fh, file_size, None\n'),
]
