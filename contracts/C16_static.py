"""C16 -- static routes: containment and exact bytes.

Contracts on falcon/routing/static.py: _set_range, _BoundedFile.read,
StaticRoute.__call__ (call-site containment obligation at every _open_file),
StaticRoute.match, StaticRoute.__init__ (normal form), _open_file (operating-system
model), StaticRouteAsync.__call__ / _AsyncFileReader (ASGI adapter).
"""
from __future__ import annotations

import os

from pyvc.core import And, Iff, Implies, Ite, Len, Max, Min, Not, Or
from pyvc.harness import harness, stubclass

PROP = 'C16'
M = 'falcon.routing.static'


# ---------------------------------------------------------------------------
# ghost file: what the operating system's file object does, as far as the
# property needs it (position, closed flag, content)


@stubclass
class GhostFile:
    """An open regular file of `size` bytes with content `data` (ghost) and a cursor."""

    def __init__(self, v, size, data=None):
        self.v = v
        self.size = size
        self.data = data
        self.pos = 0
        self.closed = False
        self.closes = 0
        self.max_request_ok = True  # every read(n) had n <= the budget handed over
        self.budget = None

    def seek(self, off, whence=0):
        if getattr(self, 'io_errors', False) and self.v.choose(2, 'seek-fails?') == 1:
            self.v.ctx.raise_py(IOError, 'seek failed')
        # io.IOBase.seek: SEEK_SET -> off; SEEK_END -> size + off (off usually negative)
        if whence == os.SEEK_END:
            self.pos = self.size + off
        else:
            self.pos = off
        return self.pos

    def close(self):
        self.closed = True
        self.closes += 1

    def read(self, n=-1):
        v = self.v
        # the file object returns at most n bytes, fewer only at end of file
        # (regular files; short reads allowed by the io contract are included)
        avail = Max(self.size - self.pos, 0)
        k = v.int('nread', 0)
        v.assume(k <= avail)
        v.assume(Implies(n >= 0, k <= n))
        self.last_request = n
        if self.budget is not None:
            v.check('never-requests-more-than-remaining', And(n >= 0, n <= self.budget))
        chunk = self.data[self.pos : self.pos + k] if self.data is not None else None
        self.pos = self.pos + k
        self.last_k = k
        return chunk if chunk is not None else _Blob(k)


@stubclass
class _Blob:
    """An opaque bytes object of known length."""

    def __init__(self, n):
        self.n = n

    def __pyvc_len__(self):
        return self.n

    def __len__(self):
        return self.n


def range_wf(f, l):
    """Post-condition of Request.range (proved in C09): the three RFC 9110 forms."""
    return Or(And(f >= 0, l >= f), And(f >= 0, l == -1), And(f < 0, l == -1))


# ---------------------------------------------------------------------------


@harness(PROP, M + ':_set_range', inline=[M + ':_BoundedFile.__init__'])
def set_range(v):
    size = v.int('size', 0)
    fh = GhostFile(v, size)
    st = _Stat(size)
    has_range = v.choose(2, 'req_range?')
    if has_range:
        f = v.int('first')
        l = v.int('last')
        v.assume(range_wf(f, l))
        rr = (f, l)
    else:
        f = l = None
        rr = None
    out = v.call(fh, st, rr)

    BoundedFile = v.real(M + ':_BoundedFile')
    HTTPRangeNotSatisfiable = v.real('falcon:HTTPRangeNotSatisfiable')

    def is_bounded(stream):
        if v.concrete:
            return isinstance(stream, BoundedFile)
        return getattr(stream, '_cls', None) is BoundedFile

    # --- which outcome -------------------------------------------------------
    unsat = And(size > 0, f >= 0, f >= size) if has_range else False
    v.check('416-iff-first-beyond-size', Iff(out.exc is not None, unsat))
    if out.exc is not None:
        v.check('only-416-escapes', out.exc.isa(HTTPRangeNotSatisfiable))
        if out.exc.isa(HTTPRangeNotSatisfiable):
            v.check('416-carries-size', _first_arg(out.exc) == size)
            v.check('416-closes-file', fh.closed)
        return
    stream, length, cr = out.value
    v.check('file-left-open', Not(fh.closed))
    if not has_range:
        v.check('whole-file', And(stream is fh, length == size, cr is None, fh.pos == 0))
        return
    if size == 0:
        v.check('zero-byte-file-ignores-range', And(stream is fh, length == 0, cr is None))
        return
    # a satisfiable range over a non-empty file: the slice [start, start+n)
    suffix = f < 0
    start = Ite(suffix, size - Min(-f, size), f)
    end = Ite(suffix, size - 1, Ite(l == -1, size - 1, Min(l, size - 1)))
    v.check('content-range-present', cr is not None)
    if cr is None:
        return
    v.check('content-range-is-requested-slice', And(cr[0] == start, cr[1] == end, cr[2] == size))
    v.check('slice-in-bounds', And(0 <= cr[0], cr[0] <= cr[1], cr[1] < size))
    v.check('length-matches-content-range', length == cr[1] - cr[0] + 1)
    v.check('file-positioned-at-start', fh.pos == cr[0])
    v.check('stream-bounded-to-length', is_bounded(stream))
    if is_bounded(stream):
        v.check('bounded-remaining-is-length', And(v.get(stream, 'fh') is fh, v.get(stream, 'remaining') == length))


def _first_arg(exc):
    if exc.real is not None:
        return getattr(exc.real, 'resource_length', None) if hasattr(exc.real, 'resource_length') else _cr_size(exc.real)
    return exc.args[0] if exc.args else exc.kwargs.get('resource_length')


def _cr_size(real):
    # HTTPRangeNotSatisfiable(resource_length) renders Content-Range: bytes */<n>
    h = dict(real.headers or {})
    val = h.get('Content-Range', '')
    return int(val.rpartition('/')[2]) if '/' in val else None


class _Stat:
    __pyvc_symbolic__ = True

    def __init__(self, size, mtime=0):
        self.st_size = size
        self.st_mtime = mtime


# ---------------------------------------------------------------------------


@harness(PROP, M + ':_BoundedFile.read')
def bounded_read(v):
    fsize = v.int('fsize', 0)
    data = v.bytes('file')
    v.assume(Len(data) == fsize)
    fh = GhostFile(v, fsize, data)
    pos0 = v.int('pos0', 0)
    v.assume(pos0 <= fsize)
    fh.pos = pos0
    rem0 = v.int('remaining', 0)
    fh.budget = rem0
    bf = v.obj(M + ':_BoundedFile', fh=fh, close=fh.close, remaining=rem0)
    # every way the size argument is given: None, a count, a negative number, or omitted (the default)
    kind = v.choose(4, 'size-kind')
    if kind == 0:
        size = None
    elif kind == 1:
        size = v.int('size', 0)
    elif kind == 2:
        size = v.int('size')
        v.assume(size < 0)
    out = v.call(bf) if kind == 3 else v.call(bf, size)
    v.check('no-exception', out.exc is None)
    if out.exc is not None:
        return
    r = out.value
    n = Len(r)
    rem1 = v.get(bf, 'remaining')
    # "within the specified bounds": the file is asked for min(size, what is left of the slice); an unsized read
    # (None, negative, omitted) asks for all that is left -- a server that reads until the empty string gets the whole slice
    if kind == 1:
        v.check('sized-read-asks-the-file-for-min-of-size-and-remaining', fh.last_request == Min(size, rem0))
    elif kind == 3:
        v.check('read-without-argument-asks-the-file-for-the-whole-remaining-slice', fh.last_request == rem0)
    else:
        v.check('unsized-read-asks-the-file-for-the-whole-remaining-slice', fh.last_request == rem0)
    v.check('returns-file-bytes-in-order', r == data[pos0 : pos0 + n])
    v.check('budget-deducts-returned', rem1 == rem0 - n)
    v.check('budget-never-negative', rem1 >= 0)
    if kind == 1:
        v.check('sized-read-bounded', n <= size)
    v.check('never-beyond-slice', n <= rem0)
    v.check('cursor-advances-by-returned', fh.pos == pos0 + n)
    v.check('wrapper-keeps-its-file-and-never-closes-it', And(v.get(bf, 'fh') is fh, Not(fh.closed)))
    v.cover('read-returns')


KILLS = [
    ('falcon/routing/static.py', '    end = min(end, size - 1)\n', '    end = min(end, size)\n', '_set_range#content-range-is-requested-slice'),
    ('falcon/routing/static.py', '    if start >= size:\n', '    if start > size:\n', '_set_range#416-iff-first-beyond-size'),
    ('falcon/routing/static.py', '    length = end - start + 1\n', '    length = end - start\n', '_set_range#length-matches-content-range'),
    ('falcon/routing/static.py', '        start = max(start, -size)\n', '        start = max(start, -size + 1)\n', '_set_range#content-range-is-requested-slice'),
    ('falcon/routing/static.py', '        self.remaining -= len(data)\n', '        self.remaining -= size\n', '_BoundedFile.read#budget-deducts-returned'),
    ('falcon/routing/static.py', '            size = min(size, self.remaining)\n', '            size = max(size, self.remaining)\n', '_BoundedFile.read#never-requests-more-than-remaining'),
]
HARMLESS = [
    ('falcon/routing/static.py', '    size = st.st_size\n    if req_range is None:\n        return fh, size, None\n',
     '    file_size = st.st_size\n    size = file_size\n    if req_range is None:\n        return fh, file_size, None\n'),
]


# ---------------------------------------------------------------------------
# StaticRoute.__call__: containment as a call-site obligation at every
# _open_file(p); everything else is a 404; 304 / 206 / Content-Length wiring.

import datetime as _dt
import os.path as _osp
import re as _re

import z3 as _z3

from pyvc.core import SStr, mk_bool, mk_str, _s, Unreached

SR = M + ':StaticRoute'
SEP = '/'


def _posix_join(a, b):
    """posixpath.join(a, b) for two arguments, exactly as in the stdlib source."""
    a_t, b_t = _s(a), _s(b)
    sep = _z3.StringVal(SEP)
    return mk_str(_z3.If(_z3.PrefixOf(sep, b_t), b_t,
                         _z3.If(_z3.Or(_z3.Length(a_t) == 0, _z3.SuffixOf(sep, a_t)), _z3.Concat(a_t, b_t), _z3.Concat(a_t, sep, b_t))), 'str')


NORMPATH = _z3.Function('os.path.normpath', _z3.StringSort(), _z3.StringSort())


@stubclass
class _OpenFile:
    """Stub of _open_file: the containment obligation lives at every call site."""

    def __init__(self, v, directory, fallback):
        self.v, self.directory, self.fallback = v, directory, fallback
        self.opened = []
        self.fh = None
        self.stop_after_open = False
        self.mtime = 0

    def __call__(self, path):
        v = self.v
        d = self.directory
        # inside: below directory + separator (the root directory already ends with it), no ".." anywhere
        below = Or(path.startswith(d + SEP), And(d.endswith(SEP), path.startswith(d)))
        inside = And(below, Not(_contains(path, '..')))
        is_fallback = (self.fallback is not None) and (path is self.fallback or path == self.fallback)
        v.check('only-opens-files-inside-the-directory-or-the-fallback', Or(is_fallback, inside))
        self.opened.append(path)
        if self.stop_after_open and (self.fallback is None or len(self.opened) == 2):
            v.ctx.done()  # containment harness: nothing after the last possible open matters
        if v.choose(2, 'file-exists?') == 0 or self.stop_after_open:
            v.ctx.raise_py(v.real('falcon:HTTPNotFound'))
        size = v.int('st_size', 0)
        self.fh = GhostFile(v, size)
        self.fh.io_errors = True  # the operating system may fail a seek: answered with a 404 and a closed file
        return self.fh, _Stat(size, self.mtime)


def _contains(s, sub):
    if isinstance(s, SStr):
        return s.contains(sub)
    return sub in s


def _http_date_of(mtime):
    """The file's modification time as an HTTP date can express it: whole seconds, UTC."""
    return _dt.datetime.fromtimestamp(int(mtime // 1), _dt.timezone.utc)


@stubclass
class _SReq:
    """What StaticRoute.__call__ reads of a request.  The three header accessors are properties of the real
    Request that either return a value or raise HTTPInvalidHeader (a 400) for a malformed header:
      if_modified_since: absent / malformed / one second before, equal to, one second after the file's HTTP date / far future;
      Range header: absent / without a unit separator (range_unit and range raise) / `<unit>=<value>` with an arbitrary unit,
      where the value is one of the three well-formed shapes (C09) or malformed (range raises).
    Whether the value of a `<unit>=<value>` header is well-formed is decided when `range` is first read."""

    def __init__(self, v, path, method, plain=False, mtime=0):
        self.v = v
        self.path = path
        self.method = method
        self.invalid = None  # name of the header whose accessor raised a 400
        self.range_was_read = False
        self._range = None
        self._range_shape = None
        if plain:
            self.ims_kind = self.header = 0
            self._ims = None
            return
        lm = _http_date_of(mtime)
        self.ims_kind = v.choose(6, 'if-modified-since')
        self._ims = [None, None, lm - _dt.timedelta(seconds=1), lm, lm + _dt.timedelta(seconds=1), _dt.datetime(2100, 1, 1, tzinfo=_dt.timezone.utc)][self.ims_kind]
        self.header = v.choose(3, 'range-header')
        self.unit = v.str('range_unit') if self.header == 2 else None

    def _raise_400(self, header):
        self.invalid = header
        self.v.ctx.raise_py(self.v.real('falcon:HTTPInvalidHeader'), 'malformed', header)

    @property
    def if_modified_since(self):
        if self.ims_kind == 1:
            self._raise_400('If-Modified-Since')
        return self._ims

    @property
    def range_unit(self):
        if self.header == 1:
            self._raise_400('Range')
        return self.unit if self.header == 2 else None

    @property
    def range(self):
        self.range_was_read = True
        if self.header == 0:
            return None
        if self.header == 1:
            self._raise_400('Range')
        v = self.v
        if self._range_shape is None:
            self._range_shape = 1 + v.choose(2, 'range-value-malformed?')
            if self._range_shape == 1:
                f, l = v.int('first'), v.int('last')
                v.assume(range_wf(f, l))
                self._range = (f, l)
        if self._range_shape == 2:
            self._raise_400('Range')
        return self._range


@stubclass
class _SResp:
    def __init__(self, v):
        self.v = v
        self.status = '200 OK'
        self.stream = None
        self.stream_length = None
        self.headers_set = {}
        self.content_range = None
        self.last_modified = None
        self.content_type = None
        self.accept_ranges = None
        self.downloadable_as = None
        self.options = self

        @stubclass
        class _Types:
            def get(self_, suffix, default=None):
                return v.str('media_type')

        self.static_media_types = _Types()

    def set_header(self, name, value):
        self.headers_set[name] = value

    def set_stream(self, stream, length):
        self.stream, self.stream_length = stream, length


def _static_setup(reg, ex):
    import os

    reg.add_model(os.path.normpath, lambda I, p: mk_str(NORMPATH(_s(p)), 'str') if isinstance(p, SStr) else os.path.normpath(p))
    reg.add_model(os.path.join, lambda I, a, b: _posix_join(a, b))
    reg.add_model(os.path.splitext, lambda I, p: (I.ctx.fresh_str('root'), I.ctx.fresh_str('ext')))
    reg.add_model(os.path.basename, lambda I, p: I.ctx.fresh_str('basename'))
    SRcls = __import__('falcon.routing.static', fromlist=['StaticRoute']).StaticRoute
    pat = SRcls._DISALLOWED_CHARS_PATTERN

    def search(I, s):
        # a regular expression search is an opaque predicate of its argument
        return object() if I.ctx.choose(2, 'disallowed-chars?') == 1 else None

    reg.add_method_model(pat, 'search', search)
    # str.strip / str.rstrip are total functions returning a str (uninterpreted)
    reg.inline.update([M + ':_set_range', M + ':_BoundedFile.__init__'])


def _static_containment(v):
    """All request paths (symbolic strings): every _open_file call site is dominated by the containment facts."""
    v.expect_covers('rejected', 'options')
    directory = v.str('directory')
    # __init__ normal form: normpath'ed absolute directory: starts with the separator and no '..' survives
    v.assume(directory.startswith(SEP))
    v.assume(Not(_contains(directory, '..')))
    has_fb = v.choose(2, 'fallback?')
    fallback = v.str('fallback_filename') if has_fb else None
    prefix = v.str('prefix')
    v.assume(And(prefix.startswith(SEP), prefix.endswith(SEP)))
    path = v.str('path')
    # containment holds for every HTTP method and whatever the downloadable flag is (neither is fixed: code that
    # consults one of them before the last possible open is explored for every value)
    method = v.str('method')
    route = v.obj(SR, _directory=directory, _fallback_filename=fallback, _prefix=prefix, _downloadable=v.bool('downloadable'))
    if v.concrete:
        return  # the file system is a stub in this harness; concrete replay is not meaningful
    req = _SReq(v, path, method, plain=True)
    resp = _SResp(v)
    opener = _OpenFile(v, directory, fallback)
    opener.stop_after_open = True
    v.registry.stubs[M + ':_open_file'] = lambda I, p: opener(p)
    out = v.call(route, req, resp)
    if method == 'OPTIONS':
        v.check('options-answers-allow-get-without-opening-anything',
                out.exc is None and resp.headers_set.get('Allow') == 'GET' and not opener.opened and resp.stream is None)
        v.cover('options')
        return
    # only reached when no file was opened at all
    v.check('rejected-paths-are-404', out.exc is not None and out.exc.isa(v.real('falcon:HTTPNotFound')) and not opener.opened)
    v.cover('rejected')


def _static_harness(v):
    """After a file is opened: 304 / 206 / Content-Length wiring, for a concrete well-formed path."""
    v.expect_covers('served', 'not-modified', 'malformed-header-400', 'options')
    directory = '/srv/static'
    has_fb = v.choose(2, 'fallback?')
    fallback = '/srv/static/index.html' if has_fb else None
    prefix = '/files/'
    path = '/files/docs/report.txt'
    method = v.str('method')
    # the file's modification time: on a second boundary / with a sub-second part (HTTP dates carry whole seconds)
    mtime = v.one_of('st_mtime', 0, 86400.75)
    route = v.obj(SR, _directory=directory, _fallback_filename=fallback, _prefix=prefix, _downloadable=bool(v.choose(2, 'downloadable?')))
    req = _SReq(v, path, method, mtime=mtime)
    resp = _SResp(v)
    if v.concrete:
        return  # the file system is a stub in this harness; concrete replay is not meaningful
    opener = _OpenFile(v, directory, fallback)
    opener.mtime = mtime
    v.registry.stubs[M + ':_open_file'] = lambda I, p: opener(p)
    HTTPNotFound = v.real('falcon:HTTPNotFound')
    H416 = v.real('falcon:HTTPRangeNotSatisfiable')
    H400 = v.real('falcon:HTTPInvalidHeader')
    out = v.call(route, req, resp)
    v.check('route-configuration-untouched', v.get(route, '_directory') == directory and v.get(route, '_fallback_filename') == fallback
            and v.get(route, '_prefix') == prefix)
    if method == 'OPTIONS':
        v.check('options-answers-allow-get-without-opening-anything',
                out.exc is None and resp.headers_set.get('Allow') == 'GET' and not opener.opened and resp.stream is None)
        v.cover('options')
        return
    # "a not-modified precondition": the file's HTTP date (whole seconds) is not later than If-Modified-Since
    not_modified = req._ims is not None and _http_date_of(mtime) <= req._ims
    if out.exc is not None and out.exc.isa(H400):
        # the only 400s are the ones of the request's own header accessors: a malformed If-Modified-Since, a Range header
        # without a unit, or a malformed value of a *bytes* range that has to be looked at (other units are ignored)
        v.check('a-400-escapes-only-from-a-malformed-header-that-had-to-be-read',
                (req.invalid == 'If-Modified-Since' and req.ims_kind == 1)
                or (req.invalid == 'Range' and not not_modified and (req.header == 1 or (req.header == 2 and req.unit == 'bytes' and req._range_shape == 2))))
        v.check('failure-sets-no-stream', resp.stream is None)
        v.cover('malformed-header-400')
        return
    if out.exc is not None:
        v.check('anything-else-is-a-404-or-a-416', out.exc.isa(HTTPNotFound) or out.exc.isa(H416))
        v.check('failure-sets-no-stream', resp.stream is None)
        if opener.fh is not None and v.ctx.choices and v.ctx.labels and any(l.startswith('seek-fails?=1') for l in v.ctx.labels):
            v.check('io-failure-closes-the-file', opener.fh.closed)
        if out.exc.isa(H416):
            v.check('416-only-for-a-bytes-range', req.unit == 'bytes')
        return
    v.check('a-file-was-opened', len(opener.opened) >= 1)
    if not_modified:
        v.check('not-modified-yields-304-without-a-body', resp.status == v.real('falcon:HTTP_304') and resp.stream is None)
        v.cover('not-modified')
        return
    v.check('modified-or-unconditional-serves-the-file', resp.stream is not None and resp.status != v.real('falcon:HTTP_304'))
    bytes_unit = (req.header == 2) and (req.unit == 'bytes')
    if not bytes_unit:
        # no Range header, or another unit: the value is not even looked at (a malformed `items=...` is not an error)
        v.check('range-ignored-unless-unit-is-bytes', resp.stream is opener.fh and resp.content_range is None and resp.status == '200 OK')
        v.check('content-length-is-file-size', resp.stream_length == opener.fh.size)
    else:
        v.check('bytes-range-value-was-consulted', req.range_was_read and req._range_shape == 1)
        partial = resp.content_range is not None
        v.check('206-iff-a-content-range-was-produced', (resp.status == v.real('falcon:HTTP_206')) == partial)
        if not partial:
            # no 416 escaped, so the range is satisfiable: only the empty file has no slice to express
            v.check('a-satisfiable-bytes-range-is-served-whole-only-from-an-empty-file', opener.fh.size == 0)
        if partial:
            cr = resp.content_range
            v.check('content-length-matches-content-range', resp.stream_length == cr[1] - cr[0] + 1)
    v.check('accept-ranges-advertised', resp.accept_ranges == 'bytes')
    v.cover('served')


for _fb in (0, 1):
    harness(PROP, SR + '.__call__', name='static_containment[fallback=%d]' % _fb, setup=_static_setup, fix={'fallback?': _fb})(_static_containment)
for _fb in (0, 1):
    harness(PROP, SR + '.__call__', name='static_call[fallback=%d]' % _fb, setup=_static_setup, fix={'fallback?': _fb}, max_paths=60000)(_static_harness)


@harness(PROP, SR + '.match')
def static_match(v):
    prefix = v.str('prefix')
    path = v.str('path')
    has_fb = v.choose(2, 'fallback?')
    route = v.obj(SR, _prefix=prefix, _fallback_filename=(v.str('fb') if has_fb else None))
    if not v.concrete:
        v.assume(prefix.endswith(SEP))
    elif not prefix.endswith(SEP):
        return
    out = v.call(route, path)
    v.check('no-exception', out.exc is None)
    if out.exc is None:
        under = path.startswith(prefix) if isinstance(path, SStr) else path.startswith(prefix)
        bare = (path == prefix[:-1])
        v.check('matches-exactly-paths-under-the-prefix', Iff(out.value, Or(under, And(bool(has_fb), bare))))


# ---------------------------------------------------------------------------
# StaticRoute.__init__: the normal form that the __call__ / match harnesses start from (they build the route with
# v.obj, without running __init__) is established here, for every way of giving the optional arguments.


def _init_setup(reg, ex):
    import os

    reg.add_model(os.path.normpath, lambda I, p: mk_str(NORMPATH(_s(p)), 'str') if isinstance(p, SStr) else os.path.normpath(p))
    reg.add_model(os.path.join, lambda I, a, b: _posix_join(a, b))
    reg.add_model(os.path.isabs, lambda I, p: p.startswith(SEP))  # posixpath.isabs
    # whether the fallback path names an existing regular file is a fact of the file system: opaque
    reg.add_model(os.path.isfile, lambda I, p: I.ctx.choose(2, 'fallback-is-a-file?') == 1)


def _norm(x):
    return mk_str(NORMPATH(_s(x)), 'str') if isinstance(x, SStr) else _osp.normpath(x)


@harness(PROP, SR + '.__init__', setup=_init_setup)
def static_init(v):
    v.expect_covers('constructed', 'refused')
    prefix = v.str('prefix')
    directory = v.str('directory')
    kw = {}
    # optional arguments: omitted (the default applies) or given, each value
    downloadable = False
    if v.choose(2, 'downloadable-given?'):
        downloadable = kw['downloadable'] = v.bool('downloadable')
    fb_kind = v.choose(3, 'fallback-argument')  # omitted / None / a file name
    fb = None
    if fb_kind == 1:
        kw['fallback_filename'] = None
    elif fb_kind == 2:
        fb = kw['fallback_filename'] = v.str('fallback_filename')
    route = v.obj(SR)
    if v.concrete and fb is not None:
        return  # os.path.isfile asks the real file system; not meaningful for a model's file name
    out = v.call(route, prefix, directory, **kw)
    ndir = _norm(directory)
    is_file = any(l.startswith('fallback-is-a-file?=1') for l in (getattr(v.ctx, 'labels', None) or []))
    refused = Or(Not(prefix.startswith(SEP)), Not(ndir.startswith(SEP)))
    if fb is not None and not is_file:
        refused = True
    v.check('refuses-exactly-a-relative-prefix-a-relative-directory-or-a-fallback-that-is-no-file', Iff(out.exc is not None, refused))
    if out.exc is not None:
        v.check('only-ValueError-escapes', out.exc.isa(ValueError))
        v.cover('refused')
        return
    g = lambda n: v.get(route, n)
    v.check('directory-stored-normalized', g('_directory') == ndir)
    v.check('prefix-stored-with-a-trailing-separator-added-only-when-missing',
            g('_prefix') == Ite(prefix.endswith(SEP), prefix, prefix + SEP))
    # what StaticRoute.__call__ / match rely on (assumed by their harnesses)
    v.check('normal-form-absolute-directory-and-prefix-between-separators',
            And(g('_directory').startswith(SEP), g('_prefix').startswith(SEP), g('_prefix').endswith(SEP)))
    if fb is None:
        v.check('no-fallback-unless-one-was-given', g('_fallback_filename') is None)
    else:
        v.check('fallback-stored-as-normalized-path-relative-to-the-directory',
                g('_fallback_filename') is not None and g('_fallback_filename') == _norm(_posix_join(ndir, fb) if isinstance(fb, SStr) else _osp.join(ndir, fb)))
    dl = g('_downloadable')
    v.check('downloadable-flag-stored-as-given-and-off-by-default', Iff(dl, downloadable) if not isinstance(dl, bool) or not isinstance(downloadable, bool) else dl is downloadable)
    v.cover('constructed')


# ---------------------------------------------------------------------------
# _open_file: the only place that touches the file system.  Anything the operating system refuses is a 404,
# and a file that was opened but cannot be stat'ed is closed again.


@stubclass
class _OsFile:
    def __init__(self, v):
        self.v = v
        self.closes = 0

    def fileno(self):
        return 7

    def close(self):
        self.closes += 1


def _open_setup(reg, ex):
    import io
    import os

    def m_open(I, path, mode='r', *a, **k):
        st = I.ctx.ghost  # per-path ghost state
        st['calls'] = st.get('calls', []) + [(path, mode, a, k)]
        if I.ctx.choose(2, 'open-fails?') == 1:
            I.ctx.raise_py(one_of_os_errors(I), 'open failed')
        st['fh'] = _OsFile(None)
        return st['fh']

    def one_of_os_errors(I):
        return [FileNotFoundError, PermissionError, IsADirectoryError, OSError][I.ctx.choose(4, 'errno')]

    def m_fstat(I, fd):
        st = I.ctx.ghost
        if I.ctx.choose(2, 'fstat-fails?') == 1:
            I.ctx.raise_py(OSError, 'fstat failed')
        st['stat'] = _Stat(I.ctx.fresh_int('st_size'))
        return st['stat']

    reg.add_model(io.open, m_open)
    reg.add_model(os.fstat, m_fstat)


@harness(PROP, M + ':_open_file', setup=_open_setup)
def open_file(v):
    v.expect_covers('opened', 'open-failed', 'stat-failed')
    path = v.str('file_path')
    if v.concrete:
        return  # the operating system is a model in this harness
    out = v.call(path)
    st = v.ctx.ghost
    calls = st.get('calls', [])
    v.check('opens-exactly-the-given-path-once-for-binary-reading',
            len(calls) == 1 and calls[0][0] is path and calls[0][1] == 'rb' and not calls[0][2] and not calls[0][3])
    fh = st.get('fh')
    if out.exc is not None:
        v.check('every-operating-system-refusal-is-a-404', out.exc.isa(v.real('falcon:HTTPNotFound')))
        if fh is not None:
            v.check('file-closed-again-when-it-cannot-be-stat-ed', fh.closes == 1)
            v.cover('stat-failed')
        else:
            v.cover('open-failed')
        return
    v.check('returns-the-open-file-and-its-own-stat', out.value[0] is fh and out.value[1] is st.get('stat') and fh.closes == 0)
    v.cover('opened')


# ---------------------------------------------------------------------------
# ASGI: StaticRouteAsync.__call__ is the synchronous responder (contract above, used here as a callee contract)
# plus a non-blocking adapter around the stream; the adapter hands reads and close through unchanged.

from pyvc.harness import Ready

SRA = M + ':StaticRouteAsync'
AFR = M + ':_AsyncFileReader'


@stubclass
class _Loop:
    """The running event loop: run_in_executor(executor, fn) runs fn() (on a worker thread) and resolves to its result."""

    def __init__(self):
        self.jobs = []

    def run_in_executor(self, executor, fn, *args):
        self.jobs.append(executor)
        return Ready(fn(*args))


def _async_setup(reg, ex):
    import asyncio
    import functools

    reg.add_model(asyncio.get_running_loop, lambda I: I.ctx.ghost.setdefault('loop', _Loop()))
    reg.add_model(functools.partial, lambda I, f, *a, **k: functools.partial(f, *a, **k))
    reg.inline.add(AFR + '.__init__')

    def sync_call(I, self, req, resp, **kw):
        g = I.ctx.ghost
        g['sync_calls'] = g.get('sync_calls', []) + [(self, req, resp, kw)]
        # callee contract of StaticRoute.__call__: raises (404 / 416 / 400), or answers without a body
        # (OPTIONS, 304: resp.stream stays None), or sets resp.stream to the file / the bounded file
        how = I.ctx.choose(3, 'synchronous-responder')
        if how == 0:
            I.ctx.raise_py(g['v'].real('falcon:HTTPNotFound'))
        if how == 2:
            g['file'] = GhostFile(g['v'], I.ctx.fresh_int('size'))
            resp.stream = g['file']

    reg.stubs[SR + '.__call__'] = sync_call


@harness(PROP, SRA + '.__call__', setup=_async_setup)
def static_call_async(v):
    v.expect_covers('wrapped', 'no-body', 'raised')
    # the adapter's behaviour must not depend on the route configuration or the request: all of it is arbitrary here
    route = v.obj(SRA, _directory=v.str('directory'), _fallback_filename=(v.str('fallback_filename') if v.choose(2, 'fallback?') else None),
                  _prefix=v.str('prefix'), _downloadable=v.bool('downloadable'))
    req = _SReq(v, v.str('path'), v.str('method'), plain=True)
    resp = _SResp(v)
    if v.concrete:
        return  # the synchronous responder is a callee contract in this harness
    v.ctx.ghost['v'] = v
    out = v.call(route, req, resp)
    g = v.ctx.ghost
    calls = g.get('sync_calls', [])
    v.check('delegates-once-to-the-synchronous-responder-with-the-same-request-and-response',
            len(calls) == 1 and calls[0][0] is route and calls[0][1] is req and calls[0][2] is resp and not calls[0][3])
    how = [int(l.split('=')[1]) for l in v.ctx.labels if l.startswith('synchronous-responder=')]
    how = how[0] if how else None
    if how == 0:
        v.check('errors-of-the-synchronous-responder-propagate-unchanged', out.exc is not None and out.exc.isa(v.real('falcon:HTTPNotFound')) and resp.stream is None)
        v.cover('raised')
        return
    v.check('no-exception-of-its-own', out.exc is None)
    if out.exc is not None:
        return
    if how == 1:
        v.check('a-response-without-a-body-stays-without-a-body', resp.stream is None)
        v.cover('no-body')
        return
    rd = resp.stream
    is_reader = getattr(rd, '_cls', None) is v.real(AFR)
    v.check('stream-is-a-non-blocking-reader-over-the-very-file-the-synchronous-responder-chose',
            is_reader and v.get(rd, '_file') is g['file'] and v.get(rd, '_loop') is g.get('loop'))
    v.check('wrapping-neither-reads-nor-closes-the-file', g['file'].pos == 0 and not g['file'].closed)
    v.cover('wrapped')


def _reader(v):
    fsize = v.int('fsize', 0)
    data = v.bytes('file')
    v.assume(Len(data) == fsize)
    fh = GhostFile(v, fsize, data)
    pos0 = v.int('pos0', 0)
    v.assume(pos0 <= fsize)
    fh.pos = pos0
    loop = _Loop()
    return fh, data, pos0, loop, v.obj(AFR, _file=fh, _loop=loop)


@harness(PROP, AFR + '.read', setup=_async_setup)
def async_reader_read(v):
    fh, data, pos0, loop, rd = _reader(v)
    given = v.choose(2, 'size-given?')
    size = v.int('size') if given else -1
    if v.concrete:
        return  # needs a running event loop
    out = v.call(rd, size) if given else v.call(rd)
    v.check('no-exception', out.exc is None)
    if out.exc is not None:
        return
    n = Len(out.value)
    v.check('returns-exactly-what-the-file-read-returned', And(out.value == data[pos0 : pos0 + n], fh.pos == pos0 + n, n == fh.last_k))
    v.check('the-file-is-asked-once-for-the-same-size-all-of-it-by-default', And(fh.last_request == size, len(loop.jobs) == 1))
    v.check('read-happens-on-the-default-executor-and-leaves-the-file-open', loop.jobs == [None] and not fh.closed)
    v.cover('read')


@harness(PROP, AFR + '.close', setup=_async_setup)
def async_reader_close(v):
    fh, data, pos0, loop, rd = _reader(v)
    if v.concrete:
        return  # needs a running event loop
    out = v.call(rd)
    v.check('no-exception', out.exc is None)
    v.check('closes-the-file-exactly-once-without-reading', And(fh.closes == 1, fh.pos == pos0))
    v.cover('closed')


KILLS += [
    ('falcon/routing/static.py', "        if '..' in file_path or not file_path.startswith(self._directory):\n            raise falcon.HTTPNotFound()\n", "", 'only-opens-files-inside-the-directory-or-the-fallback'),
    ('falcon/routing/static.py', "        if normalized.startswith(self._DISALLOWED_NORMALIZED_PREFIXES):\n            raise falcon.HTTPNotFound()\n", "", 'only-opens-files-inside-the-directory-or-the-fallback'),
    ('falcon/routing/static.py', "        if req.if_modified_since is not None and last_modified <= req.if_modified_since:", "        if req.if_modified_since is not None and last_modified >= req.if_modified_since:", 'not-modified-yields-304-without-a-body'),
    ('falcon/routing/static.py', "        req_range = req.range if req.range_unit == 'bytes' else None\n", "        req_range = req.range\n", 'range-ignored-unless-unit-is-bytes'),
    ('falcon/routing/static.py', "        resp.set_stream(stream, length)\n", "        resp.set_stream(stream, st.st_size)\n", 'content-length-matches-content-range'),
    # --- inputs that used to be fixed in the harnesses (audit of constants: each bug needs the newly covered value) ---
    # read() without an argument (the default was never exercised)
    ('falcon/routing/static.py', "    def read(self, size: Optional[int] = -1) -> bytes:\n", "    def read(self, size: Optional[int] = 0) -> bytes:\n",
     '_BoundedFile.read#read-without-argument-asks-the-file-for-the-whole-remaining-slice'),
    # If-Modified-Since equal to the file's HTTP date (the value a client echoes back); only dates decades away were tried
    ('falcon/routing/static.py', "        if req.if_modified_since is not None and last_modified <= req.if_modified_since:", "        if req.if_modified_since is not None and last_modified < req.if_modified_since:",
     'not-modified-yields-304-without-a-body'),
    # st_mtime with a sub-second part (st_mtime was the constant 0)
    ('falcon/routing/static.py', "        last_modified = last_modified.replace(microsecond=0)\n", "", 'not-modified-yields-304-without-a-body'),
    # methods other than GET / OPTIONS
    ('falcon/routing/static.py', "        if req.method == 'OPTIONS':\n", "        if req.method in ('OPTIONS', 'HEAD'):\n", 'StaticRoute.__call__#a-file-was-opened'),
    # a malformed Range value in a unit that is ignored (the request stub's accessors never raised)
    ('falcon/routing/static.py', "        req_range = req.range if req.range_unit == 'bytes' else None\n", "        req_range = req.range\n        if req.range_unit != 'bytes':\n            req_range = None\n",
     'a-400-escapes-only-from-a-malformed-header-that-had-to-be-read'),
    # the downloadable flag was False in the containment harness
    ('falcon/routing/static.py', "        if '..' in file_path or not file_path.startswith(self._directory):\n", "        if not self._downloadable and ('..' in file_path or not file_path.startswith(self._directory)):\n",
     'only-opens-files-inside-the-directory-or-the-fallback'),
    # __init__ was never run (routes were built field by field in the normal form)
    ('falcon/routing/static.py', "        self._downloadable = downloadable\n", "        self._downloadable = downloadable and fallback_filename is None\n", 'StaticRoute.__init__#downloadable-flag-stored-as-given-and-off-by-default'),
    ('falcon/routing/static.py', "        if not prefix.endswith('/'):\n            prefix += '/'\n", "", 'StaticRoute.__init__#prefix-stored-with-a-trailing-separator-added-only-when-missing'),
    # _open_file was only a stub
    ('falcon/routing/static.py', "        if fh is not None:\n            fh.close()\n        raise falcon.HTTPNotFound()\n", "        raise falcon.HTTPNotFound()\n", '_open_file#file-closed-again-when-it-cannot-be-stat-ed'),
    # ASGI was "by reading"
    ('falcon/routing/static.py', "partial(self._file.read, size)", "partial(self._file.read)", '_AsyncFileReader.read#the-file-is-asked-once-for-the-same-size-all-of-it-by-default'),
    ('falcon/routing/static.py', "        if resp.stream is not None:  # None when in an option request\n", "        if resp.stream is not None and not self._downloadable:\n", 'StaticRouteAsync.__call__#stream-is-a-non-blocking-reader'),
]
ASSUMPTIONS = [
    'os.path.join(a, b) is posixpath.join for two arguments (encoded exactly from its source); os.path.normpath is an uninterpreted total function str -> str; os.path.isabs is posixpath.isabs (starts with "/")',
    'the configured directory is the normal form established by StaticRoute.__init__ (stored = normpath(directory), absolute: proved by the __init__ harness); '
    'that the normpath of an absolute path contains no ".." is a fact about the library function (assumed)',
    'regular files, no symbolic links (lexical containment is what is proved)',
    'the regular expression search for disallowed characters is an opaque predicate of the path',
    'Request.range satisfies the post-condition proved in C09 (three RFC 9110 forms) or raises HTTPInvalidHeader; range_unit / if_modified_since return a value or raise '
    'HTTPInvalidHeader (the request stub _SReq offers every one of these shapes)',
    # inputs deliberately left fixed (audit of harness constants), with the reason
    'static_call: directory / prefix / path / fallback name are concrete well-formed strings: everything StaticRoute.__call__ does with them happens before the last '
    '_open_file call and is covered for ALL strings by static_containment; after the open, file_path only feeds os.path.splitext / basename (opaque models)',
    'static_call: st_mtime ranges over {0, 86400.75} (a second boundary and a sub-second part) and If-Modified-Since over {absent, malformed, HTTP date of the file -1 s / '
    '+0 / +1 s, year 2100}: datetime arithmetic runs natively on concrete values, so the comparison is covered at its boundary and far from it, not for every instant',
    'StaticRoute.__call__ is always called without keyword arguments (the router passes no params to a static route; the function asserts it)',
    'static_containment: the request carries no conditional / range headers (plain=True): the path ends at the last possible open, before the code reads them',
    '__init__: directory is a str (a pathlib.Path goes through os.path.normpath, which returns a str); whether the fallback path is an existing file is an opaque file-system fact',
    'the event loop runs an executor job to completion and resolves to its result (_Loop stub); functools.partial is the library function',
]
NOT_DECIDED = ['the body bytes of a whole-file response equal the file content: follows from the file object being handed over unread at offset 0 (checked) and the server reading it',
               'Content-Type / Content-Disposition values (os.path.splitext / basename and the static_media_types table are opaque; the property statement does not mention them)',
               'a 400 raised by a header accessor after the file was opened (malformed If-Modified-Since / bytes range) leaves the file to the garbage collector: '
               'the statement does not speak about it, no clause demands a close there']
TRUSTED = ['ghost stubs GhostFile, _OpenFile, _SReq, _SResp, _OsFile, _Loop in contracts/C16_static.py; the io.open / os.fstat models of the _open_file harness']
