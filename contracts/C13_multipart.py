"""C13 -- multipart forms: limits exactly at their thresholds, error mapping, header filtering.

Decided deductively here (over the flat-cursor contract of the buffered reader, C14):
  * BodyPart.get_data: raises MultipartParseError iff the part has more than
    max_body_part_buffer_size bytes, otherwise returns the whole part; cached.
  * MultipartForm.__iter__ (sync) / __aiter__ (async twin): the (k+1)-th part is
    rejected iff max_body_part_count == k > 0 (0 = unlimited), by a loop
    invariant over the number of parts yielded; the only exception that leaves
    iteration is MultipartParseError (reader DelimiterError is always
    translated); only the allowed content headers are kept, names lower-cased;
    Content-Transfer-Encoding other than `binary` is rejected; the header block
    is read with cap max_body_part_headers_size.
  * MultipartFormHandler._deserialize_form: boundary extraction, length 1..70.
NOT decided here: "parts == encoded parts for every body and chunking" (needs the
indexof lemmas of the reader's delimiter search; see C14) -- listed below.
"""
from __future__ import annotations

import z3

from pyvc.core import And, Iff, Implies, Ite, Len, Min, Not, Or, SStr, mk_bool, mk_int, _i
from pyvc.harness import Ready, harness, stubclass
from pyvc.interp import LoopSpec

PROP = 'C13'
MP = 'falcon.media.multipart'
AMP = 'falcon.asgi.multipart'


class _Opts:
    def __init__(self, v):
        self.max_body_part_buffer_size = v.int('max_body_part_buffer_size', 0)
        self.max_body_part_count = v.int('max_body_part_count', 0)
        self.max_body_part_headers_size = v.int('max_body_part_headers_size', 0)
        self.default_charset = v.str('default_charset')
        self.media_handlers = None


@stubclass
class PartStream:
    """The delimited sub-reader of one part (flat-cursor contract of C14): read(n) returns the next min(n, rest) bytes."""

    def __init__(self, v, asgi=False):
        self.v = v
        self.asgi = asgi
        self.content = v.bytes('part_content')
        self.pos = 0
        self.reads = []

    def read(self, size=-1):
        n = Len(self.content) - self.pos
        k = n if (size is None) else Ite(size < 0, n, Min(size, n))
        self.reads.append(size)
        r = self.content[self.pos : self.pos + k]
        self.pos = self.pos + k
        return Ready(r) if self.asgi else r

    def __pyvc_truth__(self):
        return True


def _get_data(asgi):
    def h(v):
        opts = _Opts(v)
        st = PartStream(v, asgi)
        cls = (AMP if asgi else MP) + ':BodyPart'
        part = v.obj(cls, stream=st, _parse_options=opts, _data=None, _headers={})
        size = Len(st.content)
        limit = opts.max_body_part_buffer_size
        out = v.call(part)
        MPE = v.real(MP + ':MultipartParseError')
        too_large = size > limit
        v.check('buffered-size-limit-exact-at-threshold', Iff(out.exc is not None, too_large))
        if out.exc is not None:
            v.check('only-multipart-parse-error-escapes', out.exc.isa(MPE))
            v.check('never-reads-more-than-limit-plus-one', all(s is not None and True for s in st.reads) and And(*[s == limit + 1 for s in st.reads]))
            # a second call must not hand out a silently truncated part
            out2 = v.call(part)
            v.check('oversized-part-is-rejected-on-every-call', out2.exc is not None and out2.exc.isa(MPE))
            v.cover('rejected')
            return
        v.check('returns-the-whole-part', out.value == st.content)
        reads_before = len(st.reads)
        out2 = v.call(part)
        v.check('second-call-returns-the-cached-bytes-without-reading', out2.exc is None and out2.value is out.value and len(st.reads) == reads_before)
        v.cover('returned')

    return h


harness(PROP, MP + ':BodyPart.get_data', name='get_data[wsgi]')(_get_data(False))
harness(PROP, AMP + ':BodyPart.get_data', name='get_data[asgi]')(_get_data(True))


# --- form iteration ---------------------------------------------------------------------------------


@stubclass
class HeaderBlock:
    """The bytes of one header block, observed only through split(CRLF): 0..2 symbolic lines."""

    def __init__(self, v):
        self.v = v
        n = v.choose(3, 'header-lines')
        self.lines = [_Line(v, i) for i in range(n)]

    def split(self, sep):
        return list(self.lines)


@stubclass
class _Line:
    def __init__(self, v, i):
        self.v = v
        kind = v.choose(6, 'line-kind')
        # 0: no ": " separator; 1 / 5: an allowed content header in some letter case (Content-Type / Content-Disposition); 2: a header that is
        # not allowed; 3: Content-Transfer-Encoding: binary; 4: Content-Transfer-Encoding: something else
        self.kind = kind
        self.value = v.bytes('header_value%d' % i)
        self.name = {1: b'Content-Type', 2: b'X-Custom', 3: b'Content-Transfer-Encoding', 4: b'content-transfer-encoding',
                     5: b'CONTENT-Disposition'}.get(kind, b'garbage')
        if kind == 3:
            self.value = b'binary'
        if kind == 4 and not v.concrete:
            v.assume(self.value != b'binary')

    def partition(self, sep):
        if self.kind == 0:
            return (self.name, b'', b'')
        return (self.name, sep, self.value)


@stubclass
class FormStream:
    """The buffered reader under the form (C14 flat-cursor contract), as far as __iter__ uses it.

    Structural outcomes are chosen freely: every delimiter search either succeeds or raises DelimiterError.
    """

    def __init__(self, v, asgi, opts):
        self.v, self.asgi, self.opts = v, asgi, opts
        self.ops = []
        self.parts_delimited = 0
        self.dash = b'--BOUNDARY'
        self.closing = False  # ghost: the delimiter consumed last is the closing one (it is followed by "--")

    def _ret(self, x):
        return Ready(x) if self.asgi else x

    def _maybe_fail(self, what):
        v = self.v
        if v.choose(2, what + '-fails?') == 1:
            from falcon import errors

            v.ctx.raise_py(errors.DelimiterError, what)

    def pipe_until(self, delimiter, destination=None, consume_delimiter=False, **kw):
        self.ops.append('pipe_until')
        if not self.v.concrete:
            self.frame = self.v.ctx.interp.frames[-1]  # the iterating frame: lets the harness read the ghost "parts yielded so far"
            # ownership: the mutable objects that already exist when an iteration starts (a part yielded earlier may hold them)
            self.objects_at_iteration_start = {id(x) for x in self.frame.locals.values() if isinstance(x, (dict, list))}
            ys = self.frame.locals['$yields']
            n = ys.length() if hasattr(ys, 'length') else len(ys)
            self.v.check('boundary-searched-as-dash-boundary-first-then-with-a-leading-crlf',
                         And(delimiter == Ite(n == 0, self.dash, b'\r\n' + self.dash), consume_delimiter is True))
        self._not_after_close('pipe_until')
        self._maybe_fail('pipe_until')
        # the body decides here whether the delimiter just consumed is the closing one ("--BOUNDARY--"): also the very first one (a form of zero parts)
        self.closing = self.v.choose(2, 'terminator?') == 1
        return self._ret(None)

    def _not_after_close(self, what):
        # "iterating yields the same number of parts": once the closing delimiter has been consumed nothing more is searched, read as a header
        # block or delimited as a part -- the iteration just ends
        self.v.check('closing-delimiter-ends-the-form', not self.closing)

    def peek(self, n=-1):
        self.ops.append('peek')
        return self._ret(b'--' if self.closing else b'\r\n')

    def read(self, n=-1):
        self.ops.append('read')
        return self._ret(b'--')

    def read_until(self, delimiter, size=-1, consume_delimiter=False):
        self.ops.append(('read_until', delimiter, size))
        self._not_after_close('read_until')
        self._maybe_fail('read_until')
        if delimiter == b'\r\n\r\n':
            self.v.check('header-block-read-with-the-configured-cap', size is self.opts.max_body_part_headers_size or size == self.opts.max_body_part_headers_size)
            self.block = HeaderBlock(self.v)  # the header block of the part being built (the specification side reads its lines)
            return self._ret(self.block)
        return self._ret(b'')

    def delimit(self, delimiter):
        self.v.check('part-stream-ends-at-crlf-dash-boundary', delimiter == b'\r\n' + self.dash)
        self._not_after_close('delimit')
        self.parts_delimited += 1
        return ('part-stream', self.parts_delimited)

    def havoc(self, ctx):
        pass

    def __pyvc_truth__(self):
        return True


# RFC 7578, 4.8: only these may appear on a part (the module's documented constant)
ALLOWED = (b'content-type', b'content-disposition', b'content-transfer-encoding')


def _iter_setup(target):
    def setup(reg, ex):
        def inv(L):
            ys = L['$yields']
            n = ys.length() if hasattr(ys, 'length') else len(ys)
            mx = L['self']._parse_options.max_body_part_count
            # delimiter discipline: the first boundary is searched as "--BOUNDARY" (it may open the body), every later one as CRLF + "--BOUNDARY"
            dash = L['self']._dash_boundary
            first = n == 0
            return And(L['remaining_parts'] == mx - n, n >= 0, Or(mx == 0, n <= mx),
                       Iff(L['prologue'], first), L['delimiter'] == Ite(first, dash, b'\r\n' + dash))

        part_ids = {}

        def unwrap(p):
            return part_ids.setdefault(id(p), len(part_ids))

        reg.loops[(target, 'while#0')] = LoopSpec(inv=inv, lists={'$yields': ('ref', lambda k: ('part', k), unwrap)})

    return setup


def _form_iter(asgi):
    def h(v):
        if v.concrete:
            return
        opts = _Opts(v)
        st = FormStream(v, asgi, opts)
        cls = (AMP if asgi else MP) + ':MultipartForm'
        form = v.obj(cls, _stream=st, _boundary=b'BOUNDARY', _dash_boundary=b'--BOUNDARY', _parse_options=opts)
        created = []

        def bodypart(I, stream, headers, parse_options):
            created.append((stream, headers, parse_options))
            # "each with the encoded name, filename, content type": a part keeps its headers for as long as the application keeps
            # the part, so the mapping handed to it must be allocated for this part -- not one that existed before this iteration
            # (which an earlier part may still hold and which a later iteration would overwrite)
            v.check('each-part-owns-its-header-mapping', id(headers) not in st.objects_at_iteration_start)
            ys = st.frame.locals['$yields']
            n = ys.length() if hasattr(ys, 'length') else len(ys)
            v.check('part-accepted-only-within-the-count-limit', Or(opts.max_body_part_count == 0, n + 1 <= opts.max_body_part_count))
            v.check('part-gets-a-stream-delimited-at-the-next-boundary-and-the-form-options', stream[0] == 'part-stream' and parse_options is opts)
            for k, val in headers.items():
                v.check('only-allowed-content-headers-are-kept-lower-cased', k in ALLOWED and k == k.lower())
            # ... and every one of them IS kept, with its value (the accessors name / filename / content_type read them): a later line wins
            want = {}
            for ln in st.block.lines:
                if ln.kind != 0 and ln.name.lower() in ALLOWED:
                    want[ln.name.lower()] = ln.value
            v.check('every-allowed-content-header-line-is-kept-with-its-value', sorted(headers) == sorted(want) and And(True, *[headers[k] == want[k] for k in want if k in headers]))
            return ('body-part', len(created))

        mod = v.real(AMP if asgi else MP)
        v.registry.add_model(mod.BodyPart, bodypart)
        out = v.call(form)
        MPE = v.real(MP + ':MultipartParseError')
        ys = out.value.items if out.exc is None else None
        labels = v.ctx.labels
        if out.exc is not None:
            v.check('only-multipart-parse-error-escapes', out.exc.isa(MPE))
            v.check('closing-delimiter-ends-the-form-without-an-error', not st.closing)
            desc = out.exc.kwargs.get('description') if out.exc.real is None else getattr(out.exc.real, 'description', '')
            if desc == 'maximum number of form body parts exceeded':
                ys = st.frame.locals['$yields']
                n = ys.length() if hasattr(ys, 'length') else len(ys)
                mx = opts.max_body_part_count
                # "the (k+1)-th part is rejected iff max_body_part_count == k > 0": at the rejection exactly max parts were yielded
                v.check('part-count-limit-exact-at-threshold', And(mx > 0, n == mx))
                v.cover('count-limit-hit')
            v.cover('iteration-rejected')
            return
        v.check('iteration-ends-only-at-the-closing-delimiter', st.closing)
        v.cover('iteration-finished')

    return h


harness(PROP, MP + ':MultipartForm.__iter__', name='form_iteration[wsgi]', setup=_iter_setup(MP + ':MultipartForm.__iter__'))(_form_iter(False))
harness(PROP, AMP + ':MultipartForm._iterate_parts', name='form_iteration[asgi]', setup=_iter_setup(AMP + ':MultipartForm._iterate_parts'))(_form_iter(True))


def _count_limit(asgi):
    """The part-count limit exactly at its threshold: one arbitrary iteration from a state with k parts already yielded."""

    def h(v):
        if v.concrete:
            return
        opts = _Opts(v)
        st = FormStream(v, asgi, opts)
        cls = (AMP if asgi else MP) + ':MultipartForm'
        form = v.obj(cls, _stream=st, _boundary=b'BOUNDARY', _dash_boundary=b'--BOUNDARY', _parse_options=opts)
        mod = v.real(AMP if asgi else MP)
        made = []
        v.registry.add_model(mod.BodyPart, lambda I, s, hd, po: made.append(1) or ('body-part', len(made)))
        # ghost: number of parts yielded before the iteration under scrutiny = loop-head value of len($yields)
        out = v.call(form)
        # the decisive clause is stated inside the loop by the invariant: remaining_parts == max - yielded.
        # Here: at the moment a part is rejected for the count, exactly max parts had been yielded and max > 0.
        MPE = v.real(MP + ':MultipartParseError')
        if out.exc is not None and out.exc.isa(MPE) and 'maximum number' in str(out.exc.kwargs.get('description', '')):
            ys = v.ctx.ghost.get('yields_at_raise')
            v.cover('count-limit-hit')

    return h


@harness(PROP, MP + ':MultipartFormHandler._deserialize_form')
def deserialize_form(v):
    """Boundary extraction and the 1..70 length rule."""
    if v.concrete:
        return
    import falcon.media.multipart as m

    has = v.choose(2, 'boundary-param?')
    boundary = v.str('boundary')
    rstripped = boundary.rstrip()
    options = {'boundary': boundary} if has else {}
    v.registry.add_model(m.parse_header, lambda I, ct: ('multipart/form-data', options))
    po = object()
    handler = v.obj(MP + ':MultipartFormHandler', parse_options=po)
    made = []

    @stubclass
    class FormCls:
        def __call__(self_, stream, b, cl, po):
            made.append((stream, b, cl, po))
            return 'FORM'

        def __pyvc_truth__(self_):
            return True

    stream = object()

    def codec(ctx, direction, s, enc, errors):
        from pyvc.core import mk_str

        return mk_str(s.t, 'bytes')  # ASCII boundary: same code points

    v.ctx.ex.codec_handler = codec
    cl = v.int('content_length', 0) if v.choose(2, 'content-length-known?') else None
    out = v.call(handler, stream, 'multipart/form-data; boundary=x', cl, FormCls())
    InvalidHeader = v.real('falcon.errors:HTTPInvalidHeader')
    n = Len(rstripped)
    ok = And(bool(has), n >= 1, n <= 70)
    v.check('boundary-must-be-present-and-1-to-70-characters', Iff(out.exc is None, ok))
    if out.exc is not None:
        v.check('invalid-boundary-is-a-400-invalid-header', out.exc.isa(InvalidHeader))
        v.check('no-form-built-for-an-invalid-boundary', not made)
        v.cover('rejected')
        return
    v.check('form-gets-stream-and-the-boundary-without-trailing-whitespace', len(made) == 1 and made[0][0] is stream and _same_text(made[0][1], rstripped))
    v.check('form-gets-the-content-length-and-the-handler-parse-options', len(made) == 1 and made[0][2] is cl and made[0][3] is po)
    v.cover('accepted')


def _deserialize_wrapper(asgi):
    """deserialize / deserialize_async: the same boundary handling, building the form class of the interface (the form class is an optional
    argument of _deserialize_form: omitted -> the WSGI MultipartForm)."""

    def h(v):
        if v.concrete:
            return
        import falcon.asgi.multipart as am
        import falcon.media.multipart as m

        v.expect_covers('delegated')
        seen = []

        def dform(I, self, stream, content_type, content_length, form_cls=None):
            if form_cls is None:
                # argument omitted: the default of the real function (read from the function object built from the current source)
                form_cls = (m.MultipartFormHandler._deserialize_form.__defaults__ or (None,))[-1]
            seen.append((self, stream, content_type, content_length, form_cls))
            return 'FORM'

        v.registry.stubs[MP + ':MultipartFormHandler._deserialize_form'] = dform
        handler = v.obj(MP + ':MultipartFormHandler', parse_options=object())
        stream, ct = object(), v.str('content_type')
        cl = v.int('content_length', 0) if v.choose(2, 'content-length-known?') else None
        out = v.call(handler, stream, ct, cl)
        v.check('no-exception', out.exc is None)
        if out.exc is not None:
            return
        want_cls = am.MultipartForm if asgi else m.MultipartForm
        v.check('delegates-once-with-the-same-stream-type-and-length', len(seen) == 1 and seen[0][0] is handler and seen[0][1] is stream
                and seen[0][2] is ct and seen[0][3] is cl and out.value == 'FORM')
        v.check('builds-the-form-class-of-its-interface', len(seen) == 1 and seen[0][4] is want_cls)
        v.cover('delegated')

    return h


harness(PROP, MP + ':MultipartFormHandler.deserialize', name='handler_deserialize[wsgi]')(_deserialize_wrapper(False))
harness(PROP, MP + ':MultipartFormHandler.deserialize_async', name='handler_deserialize[asgi]')(_deserialize_wrapper(True))


def _same_text(b, s):
    from pyvc.core import mk_str

    return b == (mk_str(s.t, 'bytes') if isinstance(s, SStr) else s.encode())


# --- BodyPart accessors: name / filename / content type / text / media -------------------------------------------------
#
# "each [part] with the encoded name, filename (plain or RFC 5987 extended), content type ...; a structurally invalid body
#  produces the multipart parse error (a 400), never another exception" -- the accessors read the header bytes kept by the
# iteration, so every failure to decode / parse them must surface as MultipartParseError.

_ASCII = z3.Star(z3.Range(chr(0), chr(127)))
_DEC = z3.Function('c13.decode', z3.StringSort(), z3.StringSort(), z3.StringSort())  # (bytes, codec name) -> text
_UNQ = z3.Function('c13.unquote_to_bytes', z3.StringSort(), z3.StringSort())


def _is_ascii(b):
    return mk_bool(z3.InRe(b.t, _ASCII))


def _acc_codec(ctx, direction, s, enc, errors):
    """bytes.decode: ASCII bytes decode to the same code points under ascii / utf-8; ascii fails exactly on a byte >= 0x80;
    any other decoding either gives a text that is a function of (bytes, codec) or raises UnicodeDecodeError / LookupError."""
    from pyvc.core import mk_str

    assert direction == 'decode', direction
    known_ascii_compatible = isinstance(enc, str) and enc.lower().replace('_', '-') in ('ascii', 'utf-8', 'utf8', 'latin-1')
    if known_ascii_compatible and ctx.branch(z3.InRe(s.t, _ASCII), 'bytes-are-ascii'):
        return mk_str(s.t, 'str')
    strict_ascii = isinstance(enc, str) and enc.lower() == 'ascii'
    k = 1 if strict_ascii else ctx.choose(2 if isinstance(enc, str) else 3, 'decode-outcome')
    if k == 1:
        ctx.raise_py(UnicodeDecodeError, 'codec', b'', 0, 1, 'invalid byte')
    if k == 2:
        ctx.raise_py(LookupError, 'unknown encoding')
    e = enc.t if isinstance(enc, SStr) else z3.StringVal(enc)
    return mk_str(_DEC(s.t, e), 'str')


@stubclass
class _Params:
    """Callee contract of mediatypes.parse_header: some parameter dictionary (each parameter present or not, any text)."""

    def __init__(self, v, tag):
        self.v, self.tag, self.seen = v, tag, {}

    def get(self, key, default=None):
        if key not in self.seen:
            self.seen[key] = self.v.str('%s_param_%s' % (self.tag, key.replace('*', '_star'))) if self.v.choose(2, 'param %s?' % key) else None
        val = self.seen[key]
        return default if val is None else val

    def __pyvc_truth__(self):
        return True


def _acc_setup(reg, ex):
    ex.codec_handler = _acc_codec


def _acc_world(v, asgi=False, with_cd=True, with_ct=True):
    """Headers of one part (each of the two kept headers present or not, any bytes) + callee contracts of what the accessors call."""
    from pyvc.core import mk_str

    w = type('W', (), {})()
    w.v = v
    w.parsed = []
    w.mains = []
    w.params = {}
    w.star = {'matched': None, 'charset': None, 'raw': None, 'unquoted': None}
    w.MPE = v.real(MP + ':MultipartParseError')
    if not v.concrete:
        import falcon.media.multipart as m

        def parse_header(I, line):
            w.parsed.append(line)
            tag = 'h%d' % len(w.parsed)
            pr = _Params(v, tag)
            w.params[len(w.parsed) - 1] = pr
            w.mains.append(v.str(tag + '_main'))
            return (w.mains[-1], pr)

        v.registry.add_model(m.parse_header, parse_header)
        if asgi:
            import falcon.asgi.multipart as am

            if getattr(am, 'parse_header', m.parse_header) is not m.parse_header:
                v.registry.add_model(am.parse_header, parse_header)

        @stubclass
        class Match:
            def __init__(self_, charset, raw):
                self_.g = (charset, raw)

            def groups(self_):
                return self_.g

            def __pyvc_truth__(self_):
                return True

        def match(I, text, *a):
            # the extended syntax needs two apostrophes: the empty default can never match
            if isinstance(text, str) and "'" not in text:
                w.star['matched'] = False
                return None
            if v.choose(2, 'rfc5987-matches?') == 0:
                w.star['matched'] = False
                return None
            w.star.update(matched=True, charset=v.str('star_charset'), raw=v.str('star_raw'))
            return Match(w.star['charset'], w.star['raw'])

        v.registry.add_method_model(m._FILENAME_STAR_RFC5987, 'match', match)

        def unquote(I, text, *a):
            r = mk_str(_UNQ(text.t if isinstance(text, SStr) else z3.StringVal(text)), 'bytes')
            w.star['unquoted'] = r
            return r

        v.registry.add_model(m.unquote_to_bytes, unquote)
    headers = {}
    w.cd = w.ct = None
    if with_cd and v.choose(2, 'content-disposition-header?'):
        w.cd = v.bytes('content_disposition')
        headers[b'content-disposition'] = w.cd
    if with_ct and v.choose(2, 'content-type-header?'):
        w.ct = v.bytes('content_type')
        headers[b'content-type'] = w.ct
    w.headers = headers
    return w


def _text_of(b):
    from pyvc.core import mk_str

    return mk_str(b.t, 'str') if isinstance(b, SStr) else b.decode('latin-1')


@harness(PROP, MP + ':BodyPart.content_type', setup=_acc_setup)
def part_content_type(v):
    w = _acc_world(v, with_cd=False)
    part = v.obj(MP + ':BodyPart', stream=None, _headers=w.headers, _parse_options=None)
    out = v.call(part)
    if w.ct is None:
        v.check('missing-content-type-defaults-to-text-plain', out.exc is None and out.value == 'text/plain')
        v.cover('defaulted')
        return
    if out.exc is not None:
        v.check('undecodable-content-type-is-a-multipart-parse-error', out.exc.isa(w.MPE))
        if not v.concrete:
            v.check('ascii-content-type-never-fails', Not(_is_ascii(w.ct)))
        v.cover('raised')
        return
    v.check('content-type-is-the-header-value', out.value == _text_of(w.ct))
    v.cover('returned')


def _cd_accessor(attr):
    def h(v):
        w = _acc_world(v, with_ct=False)
        UNSET = v.real(MP + ':_UNSET')
        # name and filename share the parsed Content-Disposition: it is either not parsed yet, or was parsed when the OTHER accessor was read first
        pre = (not v.concrete) and bool(v.choose(2, 'content-disposition-already-parsed?'))
        pr0 = _Params(v, 'h0') if pre else None
        part = v.obj(MP + ':BodyPart', stream=None, _headers=w.headers, _parse_options=None, _content_disposition=(v.str('h0_main'), pr0) if pre else None,
                     _name=UNSET, _filename=UNSET)
        out = v.call(part)
        if out.exc is not None:
            v.check('undecodable-content-disposition-is-a-multipart-parse-error' if (v.concrete or (not w.parsed and not pre)) else 'only-multipart-parse-error-escapes',
                    out.exc.isa(w.MPE))
            if pre:
                v.check('content-disposition-parsed-for-the-other-accessor-is-reused', len(w.parsed) == 0)
            v.cover('raised')
            return
        if v.concrete:
            return
        if pre:
            v.check('content-disposition-parsed-for-the-other-accessor-is-reused', len(w.parsed) == 0)
            if len(w.parsed) != 0:
                return
            pr = pr0
            v.cover('reused-the-parsed-header')
        else:
            v.check('content-disposition-parsed-exactly-once', len(w.parsed) == 1)
            if len(w.parsed) != 1:
                return
            pr = w.params[0]
            # RFC 7578 5.1 / HTML5: field names and plain file names are sent as UTF-8 -- what is parsed is the UTF-8 reading of the header bytes
            from pyvc.core import mk_str as _mk

            if w.cd is None:
                v.check('content-disposition-is-read-as-utf-8', w.parsed[0] == '')
            else:
                v.check('content-disposition-is-read-as-utf-8',
                        Or(And(_is_ascii(w.cd), w.parsed[0] == _mk(w.cd.t, 'str')), w.parsed[0] == _mk(_DEC(w.cd.t, z3.StringVal('utf-8')), 'str')))
        if attr == 'name':
            nm = pr.seen.get('name')
            v.check('name-is-the-name-parameter-or-none', out.value is None if nm is None else out.value == nm)
        elif w.star['matched']:
            from pyvc.core import mk_str

            v.check('extended-filename-is-the-percent-decoded-value-in-its-charset',
                    w.star['unquoted'] is not None and out.value == mk_str(_DEC(w.star['unquoted'].t, w.star['charset'].t), 'str'))
            v.cover('extended')
        else:
            plain = pr.seen.get('filename')
            v.check('filename-is-the-plain-parameter-or-none-without-an-extended-one', out.value is None if plain is None else out.value == plain)
        # memoised: a second access does not decode or parse again
        out2 = v.call(part)
        v.check('second-access-returns-the-same-without-parsing-again', out2.exc is None and len(w.parsed) == (0 if pre else 1)
                and (out2.value is out.value or out2.value == out.value))
        v.cover('returned')

    return h


harness(PROP, MP + ':BodyPart.name', setup=_acc_setup)(_cd_accessor('name'))
harness(PROP, MP + ':BodyPart.filename', setup=_acc_setup)(_cd_accessor('filename'))


@harness(PROP, MP + ':BodyPart.secure_filename', inline=[MP + ':BodyPart.filename'], setup=_acc_setup)
def part_secure_filename(v):
    import falcon.util.misc as misc

    fn = v.str('filename') if v.choose(2, 'filename?') else None
    calls = []
    safe = v.str('sanitized')

    def secure(I, name):
        # contract of misc.secure_filename: ValueError for the empty name, otherwise some text
        calls.append(name)
        if I.truth(name == '', 'empty-filename'):
            I.ctx.raise_py(ValueError, 'filename may not be an empty string')
        return safe

    if not v.concrete:
        v.registry.add_model(misc.secure_filename, secure)
    part = v.obj(MP + ':BodyPart', stream=None, _headers={}, _parse_options=None, _content_disposition=None, _name=None, _filename=fn)
    out = v.call(part)
    if out.exc is not None:
        v.check('only-multipart-parse-error-escapes', out.exc.isa(v.real(MP + ':MultipartParseError')))
        if not v.concrete:
            v.check('fails-only-for-a-missing-or-empty-filename', fn is None or fn == '')
        v.cover('raised')
        return
    if not v.concrete:
        v.check('returns-the-sanitized-filename', len(calls) == 1 and calls[0] == fn and out.value == safe)
    v.cover('returned')


def _get_text(asgi):
    def h(v):
        w = _acc_world(v, asgi=asgi, with_cd=False)
        opts = _Opts(v)
        st = PartStream(v, asgi)
        cls = (AMP if asgi else MP) + ':BodyPart'
        part = v.obj(cls, stream=st, _headers=w.headers, _parse_options=opts, _data=None)
        out = v.call(part)
        size, limit = Len(st.content), opts.max_body_part_buffer_size
        if out.exc is not None:
            v.check('only-multipart-parse-error-escapes', out.exc.isa(w.MPE))
            v.cover('raised')
            return
        if v.concrete:
            return
        v.check('content-type-parsed-exactly-once', len(w.parsed) == 1)
        if len(w.parsed) != 1:
            return
        v.check('text-is-returned-iff-the-media-type-is-text-plain', (out.value is None) == (not v.ctx.interp.truth(w.mains[0] == 'text/plain', 'is-text-plain')))
        if out.value is None:
            v.check('non-text-part-is-not-read', len(st.reads) == 0)
            v.cover('not-text')
            return
        charset = w.params[0].seen.get('charset')
        from pyvc.core import mk_str

        dc = opts.default_charset
        enc = (dc.t if isinstance(dc, SStr) else z3.StringVal(dc)) if charset is None else charset.t
        v.check('text-part-fits-the-buffer-limit', size <= limit)
        v.check('text-is-the-part-decoded-with-its-charset-or-the-default', Or(out.value == mk_str(_DEC(st.content.t, enc), 'str'),
                                                                              And(_is_ascii(st.content), out.value == mk_str(st.content.t, 'str'))))
        v.cover('decoded')

    return h


_TEXT_INLINE = [MP + ':BodyPart.content_type', MP + ':BodyPart.get_data']
harness(PROP, MP + ':BodyPart.get_text', name='get_text[wsgi]', inline=_TEXT_INLINE, setup=_acc_setup)(_get_text(False))
harness(PROP, AMP + ':BodyPart.get_text', name='get_text[asgi]', inline=_TEXT_INLINE + [AMP + ':BodyPart.get_data'], setup=_acc_setup)(_get_text(True))


class HandlerFailure(Exception):
    """Whatever a media handler raises (C12: an HTTP error)."""


def _get_media(asgi):
    def h(v):
        w = _acc_world(v, asgi=asgi, with_cd=False)
        opts = _Opts(v)
        log = {'resolved': [], 'deserialized': [], 'exhausted': 0}
        doc = object()
        exhaust_flag = bool(v.choose(2, 'handler.exhaust_stream?'))

        @stubclass
        class Stream:
            def exhaust(self_):
                log['exhausted'] += 1
                return Ready(None) if asgi else None

            def __pyvc_truth__(self_):
                return True

        st = Stream()

        @stubclass
        class Handler:
            exhaust_stream = exhaust_flag

            def _do(self_, stream, content_type, content_length):
                log['deserialized'].append((stream, content_type, content_length))
                if v.choose(2, 'handler-fails?'):
                    v.ctx.raise_py(HandlerFailure, 'malformed')
                return doc

            def deserialize(self_, stream, content_type, content_length):
                return self_._do(stream, content_type, content_length)

            def deserialize_async(self_, stream, content_type, content_length):
                return Ready(self_._do(stream, content_type, content_length))

        @stubclass
        class Handlers:
            def _resolve(self_, media_type, default, raise_not_found=True):
                log['resolved'].append((media_type, default))
                return (Handler(), None, None)

        opts.media_handlers = Handlers()
        cls = (AMP if asgi else MP) + ':BodyPart'
        part = v.obj(cls, stream=st, _headers=w.headers, _parse_options=opts, _media=v.real(MP + ':_UNSET'))
        out = v.call(part)
        ct_text = 'text/plain' if w.ct is None else _text_of(w.ct)
        if out.exc is not None:
            v.check('only-the-handler-error-or-a-multipart-parse-error-escapes', out.exc.isa(HandlerFailure) or out.exc.isa(w.MPE))
            if out.exc.isa(HandlerFailure):
                v.check('stream-exhausted-exactly-once-when-the-handler-asks-for-it-even-on-failure', log['exhausted'] == (1 if exhaust_flag else 0))
            v.cover('raised')
            return
        v.check('handler-resolved-for-the-part-content-type-with-text-plain-default', len(log['resolved']) == 1 and log['resolved'][0][1] == 'text/plain'
                and log['resolved'][0][0] == ct_text)
        v.check('handler-reads-the-part-stream-once', len(log['deserialized']) == 1 and log['deserialized'][0][0] is st and log['deserialized'][0][2] is None
                and log['deserialized'][0][1] == ct_text)
        v.check('stream-exhausted-exactly-once-when-the-handler-asks-for-it', log['exhausted'] == (1 if exhaust_flag else 0))
        v.check('returns-the-deserialized-document', out.value is doc)
        out2 = v.call(part)
        v.check('second-call-returns-the-cached-document-without-reading', out2.exc is None and out2.value is doc and len(log['deserialized']) == 1
                and log['exhausted'] == (1 if exhaust_flag else 0))
        v.cover('returned')

    return h


harness(PROP, MP + ':BodyPart.get_media', name='get_media[wsgi]', inline=[MP + ':BodyPart.content_type'], setup=_acc_setup)(_get_media(False))
harness(PROP, AMP + ':BodyPart.get_media', name='get_media[asgi]', inline=[MP + ':BodyPart.content_type'], setup=_acc_setup)(_get_media(True))


_MPF = 'falcon/media/multipart.py'
_AMPF = 'falcon/asgi/multipart.py'
KILLS = [
    (_MPF, "        max_size = self._parse_options.max_body_part_buffer_size + 1\n", "        max_size = self._parse_options.max_body_part_buffer_size\n",
     'BodyPart.get_data#buffered-size-limit-exact-at-threshold'),
    (_MPF, "        if len(self._data) >= max_size:\n", "        if len(self._data) > max_size:\n", 'BodyPart.get_data#buffered-size-limit-exact-at-threshold'),
    (_MPF, "            if remaining_parts < 0 < self._parse_options.max_body_part_count:", "            if remaining_parts <= 0 < self._parse_options.max_body_part_count:",
     'MultipartForm.__iter__#part-count-limit-exact-at-threshold'),
    (_MPF, "            except errors.DelimiterError as err:\n                raise MultipartParseError(\n                    description='incomplete body part headers'\n                ) from err\n",
     "            except errors.DelimiterError as err:\n                raise\n", 'MultipartForm.__iter__#only-multipart-parse-error-escapes'),
    (_MPF, "                    elif name in _ALLOWED_CONTENT_HEADERS:\n                        headers[name] = value\n", "                    else:\n                        headers[name] = value\n",
     'only-allowed-content-headers-are-kept-lower-cased'),
    (_MPF, "        if not 1 <= len(boundary) <= 70:\n", "        if not 1 <= len(boundary) < 70:\n", '_deserialize_form#boundary-must-be-present-and-1-to-70-characters'),
    (_AMPF, "        max_size = self._parse_options.max_body_part_buffer_size + 1\n", "        max_size = self._parse_options.max_body_part_buffer_size\n",
     'asgi.multipart:BodyPart.get_data#buffered-size-limit-exact-at-threshold'),
    # accessors: the repaired defects come back
    (_MPF, "        try:\n            return value.decode('ascii')\n        except ValueError as err:\n", "        try:\n            return value.decode('ascii')\n        except KeyError as err:\n",
     'BodyPart.content_type#undecodable-content-type-is-a-multipart-parse-error'),
    (_MPF, "            _, params = self._content_disposition\n            self._name = params.get('name')\n", "            _, params = self._content_disposition\n            self._name = params.get('filename')\n",
     'BodyPart.name#name-is-the-name-parameter-or-none'),
    (_MPF, "        if content_type != 'text/plain':\n            return None\n", "        if content_type == 'text/plain':\n            return None\n", 'BodyPart.get_text#text-is-returned-iff-the-media-type-is-text-plain'),
    (_MPF, "                if handler.exhaust_stream:\n                    self.stream.exhaust()\n", "                pass\n", 'BodyPart.get_media#stream-exhausted-exactly-once'),
    (_MPF, "            else:\n                self._filename = params.get('filename')\n", "            else:\n                self._filename = params.get('name')\n",
     'BodyPart.filename#filename-is-the-plain-parameter-or-none-without-an-extended-one'),
    (_MPF, "        charset = options.get('charset', self._parse_options.default_charset)\n", "        charset = options.get('charset', 'utf-8')\n",
     'BodyPart.get_text#text-is-the-part-decoded-with-its-charset-or-the-default'),
    # field names / file names read with the wrong codec (mojibake for every non-ASCII name, and no error for invalid UTF-8)
    (_MPF, "                    self._content_disposition = parse_header(value.decode())\n                except ValueError as err:\n                    raise MultipartParseError(\n                        description='invalid Content-Disposition header of a body part'\n                    ) from err\n\n            _, params = self._content_disposition\n            self._name",
     "                    self._content_disposition = parse_header(value.decode('latin-1'))\n                except ValueError as err:\n                    raise MultipartParseError(\n                        description='invalid Content-Disposition header of a body part'\n                    ) from err\n\n            _, params = self._content_disposition\n            self._name",
     'BodyPart.name#content-disposition-is-read-as-utf-8'),
    # the closing "--" is not looked at after the very first delimiter: a form of zero parts is rejected
    (_MPF, "                if stream.peek(2) == b'--':\n", "                elif stream.peek(2) == b'--':\n", 'MultipartForm.__iter__#closing-delimiter-ends-the-form'),
    (_AMPF, "                if await stream.peek(2) == b'--':\n", "                elif await stream.peek(2) == b'--':\n", 'MultipartForm._iterate_parts#closing-delimiter-ends-the-form'),
    (_AMPF, "        if content_type != 'text/plain':\n            return None\n", "        if content_type == 'text/plain':\n            return None\n",
     'asgi.multipart:BodyPart.get_text#text-is-returned-iff-the-media-type-is-text-plain'),
    (_AMPF, "            finally:\n                if handler.exhaust_stream:\n                    await self.stream.exhaust()\n", "            finally:\n                pass\n",
     'asgi.multipart:BodyPart.get_media#stream-exhausted-exactly-once'),
    # --- inputs that used to be fixed in the harnesses
    # Content-Disposition lines never occurred among the header lines of the iteration harness: the header is no longer kept
    (_MPF, "        b'content-disposition',\n", "", 'every-allowed-content-header-line-is-kept-with-its-value'),
    # name read after filename (Content-Disposition already parsed) parses the header again
    (_MPF, "        if self._name is _UNSET:\n            if self._content_disposition is None:\n", "        if self._name is _UNSET:\n            if True:\n",
     'BodyPart.name#content-disposition-parsed-for-the-other-accessor-is-reused'),
    # the ASGI handler builds the WSGI form class / the form is built without the known content length
    (_MPF, "            stream, content_type, content_length, form_cls=self._ASGI_MULTIPART_FORM\n", "            stream, content_type, content_length\n",
     'MultipartFormHandler.deserialize_async#builds-the-form-class-of-its-interface'),
    (_MPF, "        return form_cls(stream, boundary.encode(), content_length, self.parse_options)", "        return form_cls(stream, boundary.encode(), None, self.parse_options)",
     '_deserialize_form#form-gets-the-content-length-and-the-handler-parse-options'),
    # the delimiters handed to the reader used to be unobserved: after the first boundary the search no longer includes the leading CRLF
    # (every part would end with a spurious CRLF); the ASGI twin delimits the part stream at the bare boundary
    (_MPF, "                    delimiter = _CRLF + delimiter\n", "                    pass\n", 'MultipartForm.__iter__#'),
    (_AMPF, "            yield BodyPart(stream.delimit(delimiter), headers, self._parse_options)", "            yield BodyPart(stream.delimit(self._dash_boundary), headers, self._parse_options)",
     '_iterate_parts#part-stream-ends-at-crlf-dash-boundary'),
]

ASSUMPTIONS = [
    'the buffered reader satisfies its flat-cursor contract (C14): read(n) returns the next min(n, rest) bytes; delimiter searches either succeed or raise DelimiterError',
    'a header block is observed through split(CRLF) as 0..2 lines, each with or without a ": " separator; header names are the concrete spellings '
    'Content-Type, CONTENT-Disposition, X-Custom, Content-Transfer-Encoding (two spellings), values arbitrary bytes',
    'inputs left at one value: the boundary of the iteration harness is the concrete b"BOUNDARY" (it only travels to the reader stub, which checks that '
    'the first search uses "--BOUNDARY" and every later search / part stream CRLF + "--BOUNDARY"; the delimiter search itself is C14 / NOT_DECIDED below); parse_header() in _deserialize_form answers the main type '
    '"multipart/form-data" (the function ignores it); the Content-Type text handed to _deserialize_form is a constant (it only reaches parse_header and an error message)',
]
NOT_DECIDED = [
    '"iterating yields exactly the encoded parts (name, filename, content type, exact content bytes) for every body, chunking and consumption pattern": '
    'needs the delimiter-search lemmas of the reader (C14 leaves _read_until bounded); not decided by this check',
    'what the opaque helpers compute: mediatypes.parse_header, the RFC 5987 regular expression, urllib unquote_to_bytes, misc.secure_filename and the '
    'codecs are callee contracts (any parameters / any text / documented exceptions); that name and filename EQUAL what a reference encoder wrote is not decided',
    'WSGI and ASGI parsers agree: both satisfy the same contracts above; the byte-level agreement is not decided',
]
TRUSTED = ['stubs PartStream / FormStream / HeaderBlock in contracts/C13_multipart.py']
