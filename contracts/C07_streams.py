"""C07 -- request body streams deliver exactly the declared body.

WSGI: falcon/stream.py BoundedStream (every public operation, class invariant).
ASGI: falcon/asgi/stream.py BoundedStream (in C07_asgi_stream.py).

Ghost view (WSGI).  `src` is the byte sequence the server can still produce
(prophecy), L the declared Content-Length.  The server-side cursor `srv.pos`
counts the bytes the wrapped stream has handed to falcon; `out` counts the bytes
falcon has handed to the application.  Class invariant, assumed at entry of and
re-established by every public operation:

    0 <= _bytes_remaining == L - out      (budget = what is left of Content-Length)
    srv.pos == out                        (nothing pulled from the server is lost)

Server contract (PEP 3333 wsgi.input / io.BufferedIOBase): read(n) / readline(n)
with n >= 0 return a prefix of the remaining source of length <= n; falcon must
never call them with a negative/absent size (would block) nor with
pos + n > L (bytes beyond Content-Length).
"""
from __future__ import annotations

from pyvc.core import And, Iff, Implies, Ite, Len, Max, Min, Not, Or
from pyvc.harness import harness, stubclass
from pyvc.interp import LoopSpec

PROP = 'C07'
M = 'falcon.stream'
BS = M + ':BoundedStream'


@stubclass
class WsgiInput:
    """The server's wsgi.input: a cursor over `src`."""

    def __init__(self, v, src, L):
        self.v = v
        self.src = src
        self.L = L
        self.pos = 0
        self.ok = True
        self.last_n = None  # ghost: size of the last request made to the server, and how many bytes it returned
        self.last_k = None

    def _take(self, n, what):
        v = self.v
        v.check('server-stream-never-asked-beyond-content-length', And(n >= 0, self.pos + n <= self.L), op=what)
        avail = Max(Len(self.src) - self.pos, 0)
        k = v.int('k_' + what, 0)
        v.assume(k <= avail)
        v.assume(Implies(n >= 0, k <= n))
        r = self.src[self.pos : self.pos + k]
        self.pos = self.pos + k
        self.last_n, self.last_k = n, k
        return r

    def read(self, n=-1):
        return self._take(n, 'read')

    def readline(self, n=-1):
        return self._take(n, 'readline')

    def readlines(self, hint=-1):
        # io semantics: whole lines are returned until their total size reaches
        # hint, i.e. the last line may run past it -- not bounded by hint
        v = self.v
        v.check('server-stream-never-asked-beyond-content-length', False, op='readlines (completes its last line beyond the hint)')
        return []

    def __next__(self):
        v = self.v
        v.check('server-stream-never-asked-beyond-content-length', False, op='next() (reads a whole line, unbounded)')
        return self._take(-1, 'next')

    def havoc(self, ctx):
        pass  # pos is tied to `out` by the invariant; harness-level havoc below


def mk_stream(v):
    L = v.int('L', 0)
    src = v.bytes('src')
    srv = WsgiInput(v, src, L)
    out0 = v.int('out0', 0)
    v.assume(out0 <= L)
    v.assume(out0 <= Len(src))
    srv.pos = out0
    s = v.obj(BS, stream=srv, stream_len=L, _bytes_remaining=L - out0)
    return s, srv, L, src, out0


def inv(v, s, srv, L, out):
    rem = v.get(s, '_bytes_remaining')
    # frame: the wrapped stream and the declared length are never replaced
    return And(rem >= 0, rem == L - out, srv.pos == out, v.get(s, 'stream') is srv, v.get(s, 'stream_len') == L)


def size_arg(v):
    kind = v.choose(3, 'size-kind')
    if kind == 0:
        return None, kind
    if kind == 1:
        return v.int('size', 0), kind
    n = v.int('size')
    v.assume(n < 0)
    return n, kind


def post_bytes(v, s, srv, L, src, out0, r, size, kind):
    n = Len(r)
    v.check('returns-next-body-bytes-in-order', r == src[out0 : out0 + n])
    v.check('within-content-length', out0 + n <= L)
    if kind == 1:
        v.check('sized-read-bounded', n <= size)
    v.check('invariant-budget-deducts-returned', inv(v, s, srv, L, out0 + n))


INLINE = [BS + '._read']


@harness(PROP, BS + '.read', inline=INLINE)
def wsgi_read(v):
    s, srv, L, src, out0 = mk_stream(v)
    size, kind = size_arg(v)
    out = v.call(s, size)
    v.check('no-exception', out.exc is None)
    if out.exc is None:
        post_bytes(v, s, srv, L, src, out0, out.value, size, kind)
        v.cover('returns')


@harness(PROP, BS + '.readline', inline=INLINE)
def wsgi_readline(v):
    s, srv, L, src, out0 = mk_stream(v)
    size, kind = size_arg(v)
    out = v.call(s, size)
    v.check('no-exception', out.exc is None)
    if out.exc is None:
        post_bytes(v, s, srv, L, src, out0, out.value, size, kind)
        v.cover('returns')


def read_contract_stub(v_holder):
    """Callee contract of BoundedStream.read / readline for use at call sites (proved above)."""

    def stub(I, self, size=None):
        ctx = I.ctx
        srv = self._fields['stream']
        rem = self._fields['_bytes_remaining']
        k = ctx.fresh_int('k_contract')
        ctx.assume(And(k >= 0, k <= rem, k <= Max(Len(srv.src) - srv.pos, 0)))
        if size is not None:
            ctx.assume(Implies(size >= 0, k <= size))
        r = srv.src[srv.pos : srv.pos + k]
        srv.pos = srv.pos + k
        self._fields['_bytes_remaining'] = rem - k
        return r

    return stub


def _with_read_contract(reg, ex):
    reg.stubs[BS + '.read'] = read_contract_stub(None)
    reg.stubs[BS + '.readline'] = read_contract_stub(None)


def _exhaust_loops(reg, ex):
    # read() / _read() are executed from source over the WsgiInput stub (not replaced by their contract), so that
    # the ghost record of the last server request (last_n, last_k) is the same in symbolic and in replay mode
    def havoc(ctx, L):
        s = L['self']
        srv = s._fields['stream']
        srv.pos = ctx.fresh_int('hv_pos')

    reg.loops[(BS + '.exhaust', 'while#0')] = LoopSpec(
        inv=lambda L: _inv_obj(L['self']), havoc=havoc, no_auto=()
    )


def _inv_obj(s):
    srv = s._fields['stream']
    rem = s._fields['_bytes_remaining']
    return And(rem >= 0, rem == srv.L - srv.pos, srv.pos <= Len(srv.src), s._fields['stream_len'] == srv.L)


@harness(PROP, BS + '.exhaust', inline=INLINE + [BS + '.read'], setup=_exhaust_loops)
def wsgi_exhaust(v):
    v.expect_covers('returns', 'returns-with-default-chunk-size')
    s, srv, L, src, out0 = mk_stream(v)
    given = v.choose(2, 'chunk_size-given?')  # exhaust() with the documented default chunk size / exhaust(n)
    if given:
        cs = v.int('chunk_size', 1)
        out = v.call(s, cs)
    else:
        out = v.call(s)
    v.check('no-exception', out.exc is None)
    if out.exc is None:
        v.check('invariant-after-exhaust', inv(v, s, srv, L, srv.pos))
        v.check('nothing-beyond-content-length', srv.pos <= L)
        # "consumes all the data left until the limit is reached": exhaust gives up only when the declared length has been
        # delivered, or when the server answered a request for at least one byte with nothing (its end of input)
        v.check('exhaust-stops-only-at-content-length-or-server-eof',
                Or(v.get(s, '_bytes_remaining') == 0, And(srv.last_k == 0, srv.last_n > 0)) if srv.last_n is not None else v.get(s, '_bytes_remaining') == 0)
        v.cover('returns' if given else 'returns-with-default-chunk-size')


def _readlines_setup(reg, ex):
    _with_read_contract(reg, ex)

    def havoc(ctx, L):
        s = L['self']
        srv = s._fields['stream']
        srv.pos = ctx.fresh_int('hv_pos')

    def linv(L):
        srv = L['self']._fields['stream']
        lines = L['lines']
        joined = lines.joined if hasattr(lines, 'joined') else b''
        return And(_inv_obj(L['self']), srv.pos == srv.pos0 + Len(joined), joined == srv.src[srv.pos0 : srv.pos], L['total'] == Len(joined))

    reg.loops[(BS + '.readlines', 'while#0')] = LoopSpec(inv=linv, havoc=havoc, lists={'lines': 'bytes'})


@harness(PROP, BS + '.readlines', inline=INLINE, setup=_readlines_setup)
def wsgi_readlines(v):
    s, srv, L, src, out0 = mk_stream(v)
    srv.pos0 = out0
    size, kind = size_arg(v)
    out = v.call(s, size)
    v.check('no-exception', out.exc is None)
    if out.exc is None:
        if not v.concrete:
            joined = out.value.joined if hasattr(out.value, 'joined') else b''.join(out.value)
            v.check('returns-next-body-bytes-in-order', joined == src[out0 : out0 + Len(joined)])
            v.check('invariant-budget-deducts-returned', inv(v, s, srv, L, out0 + Len(joined)))
        else:
            total = sum(len(x) for x in out.value)
            v.check('returns-next-body-bytes-in-order', b''.join(out.value) == src[out0 : out0 + total])
            v.check('invariant-budget-deducts-returned', inv(v, s, srv, L, out0 + total))
        v.check('within-content-length', srv.pos <= L)
        v.cover('returns')


@harness(PROP, BS + '.__next__', inline=INLINE + [BS + '.readline'])
def wsgi_next(v):
    s, srv, L, src, out0 = mk_stream(v)
    out = v.call(s)
    if out.exc is not None:
        v.check('only-stopiteration', out.exc.isa(StopIteration))
        v.check('invariant-on-stop', inv(v, s, srv, L, out0))
        return
    r = out.value
    n = Len(r)
    v.check('returns-next-body-bytes-in-order', r == src[out0 : out0 + n])
    v.check('within-content-length', out0 + n <= L)
    v.check('iteration-never-yields-empty', n > 0)
    v.check('invariant-budget-deducts-returned', inv(v, s, srv, L, out0 + n))
    v.cover('returns')


@harness(PROP, BS + '.eof')
def wsgi_eof(v):
    s, srv, L, src, out0 = mk_stream(v)
    out = v.call(s)
    v.check('no-exception', out.exc is None)
    if out.exc is None:
        v.check('eof-iff-content-length-delivered', Iff(out.value, out0 == L))
        v.check('invariant', inv(v, s, srv, L, out0))


@harness(PROP, BS + '.__init__')
def wsgi_init(v):
    L = v.int('L', 0)
    src = v.bytes('src')
    srv = WsgiInput(v, src, L)
    s = v.obj(BS)
    out = v.call(s, srv, L)
    v.check('no-exception', out.exc is None)
    if out.exc is None:
        v.check('invariant-established', inv(v, s, srv, L, 0))
        v.check('wraps-the-server-stream', v.get(s, 'stream') is srv)


ASSUMPTIONS = [
    'WSGI server stream contract (PEP 3333 / io.BufferedIOBase): read(n), readline(n) with n >= 0 return a prefix of the remaining body of length <= n',
    'an empty answer to a request for n >= 1 bytes is the server\'s end of input (io semantics): exhaust() may stop there although Content-Length promised more '
    '(clause exhaust-stops-only-at-content-length-or-server-eof)',
]
NOT_DECIDED = [
    'exhaust(chunk_size) with chunk_size <= 0 (outside the documented "size for a chunk": 0 makes no progress, a negative size reads the remainder in one request); '
    'exhaust() with the default and exhaust(n) for every n >= 1 are covered',
    'the deprecated aliases is_exhausted / next and the constant answers readable / seekable / writable / write are not under contract',
    'wiring harnesses: the server input is read from env["wsgi.input"] (WSGI) / the receive callable and first event are passed through as opaque objects (ASGI); '
    'they start from a request whose stream has not been built yet (the cached state is covered by the second access)',
]
TRUSTED = ['ghost stub WsgiInput (server stream) in contracts/C07_streams.py']


# ---------------------------------------------------------------------------
# lazy wrapping: the stream the application gets is ONE BoundedStream over the server's input, built with the
# declared Content-Length (0 when absent or invalid), and the same object on every access

REQ = 'falcon.request:Request'


@harness(PROP, REQ + '.bounded_stream', name='wsgi_bounded_stream_wiring', inline=[REQ + '._get_wrapped_wsgi_input'])
def wsgi_wiring(v):
    if v.concrete:
        return
    src = v.bytes('src')
    srv = WsgiInput(v, src, 0)
    cl_kind = v.choose(3, 'content-length')  # 0: absent (None), 1: a number, 2: invalid header (accessor raises HTTPInvalidHeader)
    n = v.int('declared', 0)
    built = []

    def mk_bounded(I, stream, length):
        built.append((stream, length))
        return ('bounded-stream', len(built))

    import falcon.request as fr

    v.registry.add_model(fr.BoundedStream, mk_bounded)
    InvalidHeader = v.real('falcon.errors:HTTPInvalidHeader')

    def content_length_stub(I, self):
        # contract of Request.content_length (C09): None when absent, the non-negative number, or a 400-class error
        if cl_kind == 0:
            return None
        if cl_kind == 2:
            I.ctx.raise_py(InvalidHeader, 'bad', 'Content-Length')
        return n

    v.registry.stubs[REQ + '.content_length'] = content_length_stub
    req = v.obj(REQ, env={'wsgi.input': srv}, _bounded_stream=None)
    out1 = v.call(req)
    out2 = v.call(req)
    v.check('no-exception', out1.exc is None and out2.exc is None)
    if out1.exc is not None or out2.exc is not None:
        return
    v.check('wrapped-exactly-once-and-cached', len(built) == 1 and out1.value is out2.value)
    if len(built) == 1:
        v.check('wraps-the-servers-input-stream', built[0][0] is srv)
        v.check('budget-is-the-declared-content-length-or-zero', built[0][1] == (n if cl_kind == 1 else 0))
    v.cover('wired')


AREQ = 'falcon.asgi.request:Request'


@harness(PROP, AREQ + '.stream', name='asgi_stream_wiring')
def asgi_wiring(v):
    if v.concrete:
        return
    v.expect_covers('wired', 'invalid-content-length')
    cl_kind = v.choose(3, 'content-length')  # 0: absent (None), 1: a number, 2: invalid header (the accessor raises HTTPInvalidHeader, C09)
    n = v.int('declared', 0)
    built = []

    def mk_bounded(I, receive, first_event=None, content_length=None):
        built.append((receive, first_event, content_length))
        return ('bounded-stream', len(built))

    import falcon.asgi.request as far

    v.registry.add_model(far.BoundedStream, mk_bounded)
    InvalidHeader = v.real('falcon.errors:HTTPInvalidHeader')

    def content_length_stub(I, self):
        if cl_kind == 2:
            I.ctx.raise_py(InvalidHeader, 'bad', 'Content-Length')
        return n if cl_kind == 1 else None

    v.registry.stubs[AREQ + '.content_length'] = content_length_stub
    receive, first = object(), {'type': 'http.request'}
    ws = bool(v.choose(2, 'websocket?'))
    req = v.obj(AREQ, is_websocket=ws, _stream=None, _receive=receive, _first_event=first)
    out1 = v.call(req)
    if ws:
        v.check('websocket-handshake-has-no-body-stream', out1.exc is not None and out1.exc.isa(v.real('falcon.errors:UnsupportedError')) and not built)
        return
    if cl_kind == 2:
        # a Content-Length that is not a non-negative number declares no body length at all: on ASGI the 400-class error of the
        # accessor escapes (there is no "assume no content" fallback as on WSGI) -- in particular no stream without a budget
        # is handed out for it, now or on a later access
        out2 = v.call(req)
        v.check('invalid-content-length-is-a-400-class-error-and-no-stream-is-built',
                out1.exc is not None and out1.exc.isa(InvalidHeader) and out2.exc is not None and out2.exc.isa(InvalidHeader)
                and not built and v.get(req, '_stream') is None)
        v.cover('invalid-content-length')
        return
    out2 = v.call(req)
    v.check('no-exception', out1.exc is None and out2.exc is None)
    if out1.exc is not None or out2.exc is not None:
        return
    v.check('wrapped-exactly-once-and-cached', len(built) == 1 and out1.value is out2.value)
    if len(built) == 1:
        v.check('built-over-the-servers-receive-the-first-event-and-the-declared-length',
                built[0][0] is receive and built[0][1] is first and (built[0][2] == n if cl_kind == 1 else built[0][2] is None))
    v.cover('wired')


KILLS = [
    ('falcon/stream.py', "        self._bytes_remaining -= len(result)\n", "        self._bytes_remaining -= size\n", 'BoundedStream.read#invariant-budget-deducts-returned'),
    ('falcon/stream.py', "        if size is None or size < 0 or size > self._bytes_remaining:\n", "        if size is None or size < 0:\n", 'server-stream-never-asked-beyond-content-length'),
    ('falcon/request.py', "            content_length = self.content_length or 0\n", "            content_length = self.content_length or -1\n", 'Request.bounded_stream#budget-is-the-declared-content-length-or-zero'),
    ('falcon/request.py', "        if self._bounded_stream is None:\n            self._bounded_stream = self._get_wrapped_wsgi_input()\n\n        return self._bounded_stream",
     "        return self._get_wrapped_wsgi_input()", 'Request.bounded_stream#wrapped-exactly-once-and-cached'),
    ('falcon/asgi/request.py', "                content_length=self.content_length,\n", "                content_length=None,\n", 'asgi.request:Request.stream#built-over'),
    # exhaust() WITHOUT an argument: a default chunk size of 0 makes the first read return b'' at once (nothing is consumed); exhaust(n) is unaffected
    ('falcon/stream.py', "    def exhaust(self, chunk_size: int = 64 * 1024) -> None:\n", "    def exhaust(self, chunk_size: int = 0) -> None:\n",
     'BoundedStream.exhaust#exhaust-stops-only-at-content-length-or-server-eof'),
    # ASGI, invalid Content-Length header only: the 400-class error is swallowed ("as on WSGI") and a stream without any budget is handed out
    ('falcon/asgi/request.py', "        if not self._stream:\n            self._stream = BoundedStream(\n",
     "        if not self._stream:\n            try:\n                self.content_length\n            except errors.HTTPInvalidHeader:\n"
     "                self._stream = BoundedStream(self._receive, first_event=self._first_event)\n                return self._stream\n            self._stream = BoundedStream(\n",
     'asgi.request:Request.stream#invalid-content-length-is-a-400-class-error-and-no-stream-is-built'),
]
