"""C07 (ASGI half) -- falcon/asgi/stream.py BoundedStream.

Ghost view.  `src` (prophecy) is everything the server will ever deliver in
http.request events, concatenated; the receive stub hands it out chunk by chunk
(`spos` = bytes delivered so far) in events whose `body` / `more_body` keys may
be missing, or as http.disconnect.  `opos` = bytes the stream has handed to the
application (or discarded in exhaust).  L = declared Content-Length (2**63 when
absent, the code's own "unbounded").

Class invariant (while not closed):
    _buffer == src[opos : opos+|_buffer|]           buffered bytes are the next ones
    opos + |_buffer| == min(spos, L)               received = returned + buffered, cut at L
    _bytes_remaining == 0  or  (not ended and _bytes_remaining == L - spos)
    _pos == opos                                   tell() agrees with what was returned
and receive() is never called after the final event / disconnect (`ended`).
"""
from __future__ import annotations

from pyvc.core import And, Iff, Implies, Ite, Joined, Len, Max, Min, Not, Or
from pyvc.harness import Ready, harness, stubclass
from pyvc.interp import LoopSpec

PROP = 'C07'
M = 'falcon.asgi.stream'
BS = M + ':BoundedStream'
INF = 2**63


@stubclass
class Receive:
    """The ASGI server's receive callable."""

    def __init__(self, v, src):
        self.v = v
        self.src = src
        self.spos = 0
        self.ended = False
        self.target = None
        self.calls = 0  # ghost: how often the stream asked the server for an event

    def next_event(self):
        v = self.v
        kind = v.choose(5, 'event')
        if kind == 4:
            self.ended = True
            return {'type': 'http.disconnect'}
        ev = {'type': 'http.request'}
        if kind in (0, 1):
            k = v.int('chunk_len', 0)
            v.assume(k <= Len(self.src) - self.spos)
            ev['body'] = self.src[self.spos : self.spos + k]
            self.spos = self.spos + k
        if kind in (0, 2):
            more = v.bool('more_body')
            ev['more_body'] = more
            self.ended = Or(self.ended, Not(more))
        else:
            self.ended = True
        return ev

    def __call__(self):
        self.calls += 1
        self.v.check('no-receive-after-end-of-body', Not(self.ended))
        return Ready(self.next_event())

    def havoc(self, ctx):
        self.spos = ctx.fresh_int('hv_spos')
        self.ended = ctx.fresh_bool('hv_ended')


def cap(x, L):
    """min(x, L) where L is None for "no Content-Length" (unbounded)."""
    return x if L is None else Min(x, L)


def within(x, L):
    return True if L is None else x <= L


def view_inv(buf, rem, pos, rc, L, opos):
    if L is None:
        # no Content-Length: the code uses a budget of 2**63 that no real body exhausts
        budget = Or(rem == 0, And(Not(rc.ended), rem >= INF - rc.spos))
    else:
        budget = Or(rem == 0, And(Not(rc.ended), rem == L - rc.spos))
    return And(
        rem >= 0,
        rc.spos >= 0,
        rc.spos <= Len(rc.src),
        opos >= 0,
        buf == rc.src[opos : opos + Len(buf)],
        opos + Len(buf) == cap(rc.spos, L),
        budget,
        pos == opos,
    )


def inv_obj(v, s, rc, L, opos):
    # frame: the receive callable is never replaced and a reading operation never closes the stream
    return And(view_inv(v.get(s, '_buffer'), v.get(s, '_bytes_remaining'), v.get(s, '_pos'), rc, L, opos),
               v.get(s, '_receive') is rc, Not(v.get(s, '_closed')))


def flag_kept(v, s, rc):
    """Frame: only iteration marks the stream as "being iterated over"."""
    return Iff(v.get(s, '_iteration_started'), rc.started0)


def mk(v, closed=False):
    """A stream in an arbitrary state satisfying the class invariant."""
    src = v.bytes('src')
    v.assume(Len(src) < INF)
    has_cl = v.choose(2, 'content-length?')
    L = v.int('L', 0) if has_cl else None
    if has_cl:
        v.assume(L < INF)
    rc = Receive(v, src)
    rc.spos = v.int('spos0', 0)
    rc.ended = v.bool('ended0')
    opos = v.int('opos0', 0)
    buf = v.bytes('buf0')
    rem = v.int('rem0')
    # whether an iteration (async for) was started earlier is part of the arbitrary history: only _iter_content may look at it
    rc.started0 = v.bool('iteration_started0')
    s = v.obj(BS, _buffer=buf, _bytes_remaining=rem, _pos=opos, _closed=closed, _iteration_started=rc.started0, _receive=rc)
    if not closed:
        v.assume(inv_obj(v, s, rc, L, opos))
    return s, rc, L, src, opos


# --- __init__ -----------------------------------------------------------------


@harness(PROP, BS + '.__init__')
def asgi_init(v):
    src = v.bytes('src')
    v.assume(Len(src) < INF)
    rc = Receive(v, src)
    first = None
    if v.choose(2, 'first_event?'):
        first = rc.next_event()
        if first['type'] != 'http.request':
            v.cut()  # asgi.Request passes the first http.request event only
    has_cl = v.choose(2, 'content-length?')
    L = v.int('L', 0) if has_cl else None
    if has_cl:
        v.assume(L < INF)
    s = v.obj(BS)
    out = v.call(s, rc, first, L)
    v.check('no-exception', out.exc is None)
    if out.exc is not None:
        return
    if first is None:
        # no event consumed yet: the server is still at the very beginning
        v.assume(rc.spos == 0)
    v.check('invariant-established', inv_obj(v, s, rc, L, 0))
    v.check('tell-starts-at-zero', v.get(s, '_pos') == 0)
    v.check('open-and-not-iterating', And(Not(v.get(s, '_closed')), Not(v.get(s, '_iteration_started'))))


# --- loops shared by read / readall / exhaust / _iter_content ----------------------


def _loop_read(reg, ex):
    def linv(L):
        s = L['self']
        rc = s._receive
        chunks = L['chunks']
        joined = Joined(chunks)
        opos = s._pos
        return And(
            view_inv(joined, s._bytes_remaining, s._pos, rc, rc.L, opos),
            L['num_bytes_available'] == Len(joined),
        )

    reg.loops[(BS + '.read', 'while#0')] = LoopSpec(inv=linv, lists={'chunks': 'bytes'})


def _len(x):
    return x.__pyvc_len__() if hasattr(x, '__pyvc_len__') else len(x)


def _loop_readall(reg, ex):
    def linv(L):
        s = L['self']
        rc = s._receive
        chunks = L['chunks']
        joined = Joined(chunks)
        return And(view_inv(joined, s._bytes_remaining, s._pos, rc, rc.L, s._pos), Implies(_len(chunks) == 0, Len(joined) == 0))

    reg.loops[(BS + '.readall', 'while#0')] = LoopSpec(inv=linv, lists={'chunks': 'bytes'})


def _join_model(reg):
    # b''.join(list): concatenation of the elements (ghost `joined` of a symbolic list)
    pass


def asgi_read(v):
    s, rc, L, src, opos = mk(v)
    rc.L = L
    kind = v.choose(3, 'size-kind')
    if kind == 0:
        size = None
    elif kind == 1:
        size = v.int('size', 1)
    else:
        size = v.int('size')
        v.assume(size <= 0)
    out = v.call(s, size)
    v.check('no-exception', out.exc is None)
    if out.exc is not None:
        return
    r = out.value
    n = Len(r)
    v.check('returns-next-body-bytes-in-order', r == src[opos : opos + n])
    v.check('within-content-length', within(opos + n, L))
    if kind == 1:
        v.check('sized-read-bounded', n <= size)
    if kind == 2:
        v.check('nonpositive-size', Or(n == 0, size == -1))
        # "If the size is -1 or not specified, all remaining data is read and returned"
        v.check('minus-one-reads-everything', Implies(size == -1, And(Len(v.get(s, '_buffer')) == 0, v.get(s, '_bytes_remaining') == 0,
                                                                      opos + n == cap(rc.spos, L))))
    v.check('invariant-position-and-budget', inv_obj(v, s, rc, L, opos + n))
    if kind == 0:
        v.check('unsized-read-leaves-eof', And(Len(v.get(s, '_buffer')) == 0, v.get(s, '_bytes_remaining') == 0))
    v.check('iteration-flag-untouched', flag_kept(v, s, rc))
    v.cover('returns')


# one harness per (Content-Length present?, size kind) so that the cases run in parallel
for _cl in (0, 1):
    for _sk in (0, 1, 2):
        harness(PROP, BS + '.read', name='asgi_read[cl=%d,size=%s]' % (_cl, ['None', 'positive', 'nonpositive'][_sk]),
                setup=lambda reg, ex: (_loop_read(reg, ex), _loop_readall(reg, ex)), inline=[BS + '.eof', BS + '.readall'],
                fix={'content-length?': _cl, 'size-kind': _sk})(asgi_read)


@harness(PROP, BS + '.readall', setup=_loop_readall, inline=[BS + '.eof'])
def asgi_readall(v):
    s, rc, L, src, opos = mk(v)
    rc.L = L
    out = v.call(s)
    v.check('no-exception', out.exc is None)
    if out.exc is not None:
        return
    r = out.value
    n = Len(r)
    v.check('returns-next-body-bytes-in-order', r == src[opos : opos + n])
    v.check('within-content-length', within(opos + n, L))
    v.check('invariant-position-and-budget', inv_obj(v, s, rc, L, opos + n))
    v.check('readall-leaves-eof', And(Len(v.get(s, '_buffer')) == 0, v.get(s, '_bytes_remaining') == 0))
    v.check('readall-returns-everything-received', opos + n == cap(rc.spos, L))
    v.check('iteration-flag-untouched', flag_kept(v, s, rc))
    v.cover('returns')


def _loop_exhaust(reg, ex):
    def linv(L):
        s = L['self']
        rc = s._receive
        return And(view_inv(b'', s._bytes_remaining, s._pos, rc, rc.L, s._pos))

    reg.loops[(BS + '.exhaust', 'while#0')] = LoopSpec(inv=linv)


@harness(PROP, BS + '.exhaust', setup=_loop_exhaust)
def asgi_exhaust(v):
    s, rc, L, src, opos = mk(v)
    rc.L = L
    out = v.call(s)
    v.check('no-exception', out.exc is None)
    if out.exc is not None:
        return
    v.check('exhaust-leaves-eof', And(Len(v.get(s, '_buffer')) == 0, v.get(s, '_bytes_remaining') == 0))
    v.check('position-counts-everything-consumed', v.get(s, '_pos') == cap(rc.spos, L))
    v.check('invariant-position-and-budget', inv_obj(v, s, rc, L, v.get(s, '_pos')))
    v.check('iteration-flag-untouched', flag_kept(v, s, rc))
    v.cover('returns')


def _loop_iter(reg, ex):
    def linv(L):
        s = L['self']
        rc = s._receive
        ys = L['$yields']
        joined = Joined(ys)
        return And(
            view_inv(b'', s._bytes_remaining, s._pos, rc, rc.L, s._pos),
            s._pos == rc.opos0 + Len(joined),
            joined == rc.src[rc.opos0 : s._pos],
            Len(s._buffer) == 0,
        )

    reg.loops[(BS + '._iter_content', 'while#0')] = LoopSpec(inv=linv, lists={'$yields': 'bytes'})


@harness(PROP, BS + '._iter_content', setup=_loop_iter, inline=[BS + '.eof'])
def asgi_iter(v):
    s, rc, L, src, opos = mk(v)
    rc.L = L
    rc.opos0 = opos
    started = rc.started0
    was_eof = And(Len(v.get(s, '_buffer')) == 0, v.get(s, '_bytes_remaining') == 0)
    out = v.call(s)
    OperationNotAllowed = v.real('falcon.errors:OperationNotAllowed')
    if out.exc is not None:
        v.check('only-second-iteration-raises', And(out.exc.isa(OperationNotAllowed), started, Not(was_eof)))
        return
    ys = out.value.items
    joined = Joined(ys)
    n = Len(joined)
    v.check('chunks-concatenate-to-next-body-bytes', joined == src[opos : opos + n])
    v.check('within-content-length', within(opos + n, L))
    v.check('invariant-position-and-budget', inv_obj(v, s, rc, L, opos + n))
    v.check('iteration-leaves-eof', And(Len(v.get(s, '_buffer')) == 0, v.get(s, '_bytes_remaining') == 0))
    v.cover('returns')


@harness(PROP, BS + '.tell')
def asgi_tell(v):
    s, rc, L, src, opos = mk(v)
    out = v.call(s)
    v.check('tell-equals-bytes-returned', And(out.exc is None, out.value == opos))


@harness(PROP, BS + '.eof')
def asgi_eof(v):
    s, rc, L, src, opos = mk(v)
    out = v.call(s)
    v.check('no-exception', out.exc is None)
    if out.exc is None:
        # nothing buffered and nothing more may be requested
        v.check('eof-iff-nothing-more-can-be-returned', Iff(out.value, And(Len(v.get(s, '_buffer')) == 0, v.get(s, '_bytes_remaining') == 0)))
        v.check('eof-implies-all-received-bytes-were-returned', Implies(out.value, opos == cap(rc.spos, L)))


def closed_stream(v):
    """A stream after close(): closed, nothing buffered, no budget (what asgi_close establishes); everything else arbitrary."""
    s, rc, L, src, opos = mk(v, closed=True)
    v.set(s, '_buffer', b'')
    v.set(s, '_bytes_remaining', 0)
    return s, rc, L, src, opos


@harness(PROP, BS + '.close')
def asgi_close(v):
    v.expect_covers('first-close', 'close-again')
    again = v.choose(2, 'already-closed?')  # "it is allowed to call this method more than once; only the first call has an effect"
    s, rc, L, src, opos = closed_stream(v) if again else mk(v)
    out = v.call(s)
    v.check('no-exception', out.exc is None)
    v.check('closed-and-empty', And(v.get(s, '_closed'), Len(v.get(s, '_buffer')) == 0, v.get(s, '_bytes_remaining') == 0))
    v.check('close-never-asks-the-server-and-keeps-position-and-flags', And(rc.calls == 0, v.get(s, '_pos') == opos, v.get(s, '_receive') is rc, flag_kept(v, s, rc)))
    v.cover('close-again' if again else 'first-close')


@harness(PROP, BS + '.read', name='closed_ops')
def asgi_closed_ops(v):
    """After close() every reading operation raises and touches nothing."""
    s, rc, L, src, opos = closed_stream(v)
    op = v.choose(4, 'op')
    target = [BS + '.read', BS + '.readall', BS + '.exhaust', BS + '._iter_content'][op]
    if op == 0:
        # read() / read(n) for every n (positive, zero, -1, other negatives)
        if v.choose(2, 'size-given?'):
            out = v.call(s, v.int('size'), target=target)
        else:
            out = v.call(s, target=target)
    else:
        out = v.call(s, target=target)
    v.check('closed-stream-raises', out.exc is not None and (out.exc.isa(v.real('falcon.errors:OperationNotAllowed')) or out.exc.isa(ValueError)))
    v.check('closed-stream-is-left-alone', And(rc.calls == 0, v.get(s, '_closed'), Len(v.get(s, '_buffer')) == 0, v.get(s, '_bytes_remaining') == 0,
                                               v.get(s, '_pos') == opos, flag_kept(v, s, rc)))


ASSUMPTIONS = [
    'ASGI server contract: receive() returns http.request events (body/more_body optional, defaults b""/False) or http.disconnect; '
    'the concatenation of the body chunks is the request body',
    'absent Content-Length is treated as a budget of 2**63 bytes, as the code does (bodies are assumed shorter than that)',
]
NOT_DECIDED = [
    'read(n) for n < -1: the code returns b"" without consuming anything; the statement is silent, only "n == 0 bytes or n == -1" is demanded (clause nonpositive-size)',
    'the first event handed to __init__ is an http.request event (any of the four body/more_body shapes) or None: falcon.asgi.App returns before building a '
    'request when the first event is http.disconnect, so that shape is cut',
    'closed streams are the ones close() produces (closed, nothing buffered, no budget); position, iteration flag and server state arbitrary',
    'constant answers fileno / isatty / readable / seekable / writable / closed are not under contract',
]
TRUSTED = ['ghost stub Receive (ASGI receive callable) in contracts/C07_asgi_stream.py']

_S = 'falcon/asgi/stream.py'
_CLOSED_GUARD = ("        if self._closed:\n            raise OperationNotAllowed(\n"
                 "                'This stream is closed; no further operations on it are permitted.'\n            )\n\n")

KILLS = [
    # read(-1) no longer means "everything" (it falls through to the `size <= 0` answer b''); read() / read(None) unaffected
    (_S, "        if size is None or size == -1:\n", "        if size is None:\n", 'BoundedStream.read#minus-one-reads-everything'),
    # a second close() raises instead of being a no-op; the first close is unaffected
    (_S, "        if not self._closed:\n            self._buffer = b''\n", "        if self._closed:\n            raise ValueError('already closed')\n        else:\n            self._buffer = b''\n",
     'BoundedStream.close#no-exception'),
    # "fast path" for read(0) placed before the closed check: read(0) on a closed stream returns b''; read() / read(n > 0) still raise
    (_S, _CLOSED_GUARD + "        if self.eof:\n            return b''\n\n        if size is None",
     "        if size == 0:\n            return b''\n\n" + _CLOSED_GUARD + "        if self.eof:\n            return b''\n\n        if size is None",
     'BoundedStream.read#closed-stream-raises'),
    # readall() (and read() through it) refuses to work once an iteration has ever been started -- also after that iteration consumed the whole body,
    # where it must return b''; invisible while the harnesses start from _iteration_started == False
    (_S, "        if self.eof:\n            return b''\n\n        if self._buffer:\n            next_chunk = self._buffer\n            self._buffer = b''\n            chunks = [next_chunk]\n",
     "        if self._iteration_started:\n            raise OperationNotAllowed('This stream is already being iterated over.')\n\n"
     "        if self.eof:\n            return b''\n\n        if self._buffer:\n            next_chunk = self._buffer\n            self._buffer = b''\n            chunks = [next_chunk]\n",
     'BoundedStream.readall#no-exception'),
]
