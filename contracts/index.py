"""Which contract modules decide which property, and what each check claims."""

NOTES = ('All checks are ./check <id>; each rebuilds a source-only overlay from /repo working tree, re-extracts the functions under contract '
         'and regenerates every obligation.  Bounded stand-ins are reported separately in each evidence file and never counted as proved.')

NOT_CLAIMED = {}

PROPS = {
    'C07': {
        'modules': ['contracts.C07_streams', 'contracts.C07_asgi_stream'],
        'level': 'proof',
        'level_text': 'Class invariant (budget = Content-Length minus bytes returned; nothing pulled from the server is lost; position = bytes returned) '
                      'assumed at entry and proved at exit of every public operation of the WSGI and ASGI BoundedStream, with loop invariants, for all '
                      'bodies, Content-Length values, server chunkings/event shapes and sizes; any history of operations follows by induction.',
        'level_note': 'Trusted: server-side stubs (wsgi.input read/readline return <= n bytes of the remaining body; ASGI receive events), pyvc encoding, '
                      'z3. Not covered: termination; asgi.Request.stream / Request.bounded_stream wiring is by reading (one constructor call each).',
    },
    'C16': {
        'modules': ['contracts.C16_static'],
        'level': 'proof',
        'level_text': 'Every obligation generated from the current source of _set_range and _BoundedFile.read is discharged for all sizes, '
                      'ranges, cursor positions and read sizes (unbounded integers); range arithmetic, 416 condition, slice bounds, budget.',
        'level_note': 'Trusted: pyvc encoding, z3/cvc5, the ghost file stub (seek/read/close of a regular file), Request.range post-condition '
                      'taken as precondition. Termination not proved.',
    },
}
