"""Which contract modules decide which property, and what each check claims."""

NOTES = ('All checks are ./check <id>; each rebuilds a source-only overlay from /repo working tree, re-extracts the functions under contract '
         'and regenerates every obligation.  Bounded stand-ins are reported separately in each evidence file and never counted as proved.  '
         'Known findings: /verif/known_findings.json (open findings matched by obligation id [+ path labels]; "fixed:" entries name the fix: commits in /repo '
         'and suppress nothing).  Callee contracts that belong to another property are re-checked with the property that assumes them (`deps`).  Seeded changes used to test the checks: /verif/seeded/ (tools/rerun_seeds.sh); behaviour-preserving refactorings that must stay green: /verif/harmless, /verif/harmless2 (tools/try_harmless.sh).  Exit codes: 0 held, 1 violation, 2 undecided, 3 checker problem / vacuity.')

NOT_CLAIMED = {}

PROPS = {
    'C08': {
        'modules': ['contracts.C08_query'],
        'level': 'proof',
        'level_text': 'parse_query_string (real source) equals, as a mapping, a reference fold written from the statement for query strings of 1..3 fields built from '
                      'symbolic separator-free atoms (names, values, comma elements), all four option settings, never raising; every typed getter (get_param, '
                      'as_int/float/bool/uuid/datetime/date/json/list, has_param; WSGI and the ASGI override) over six parameter shapes (absent / str / list of '
                      '1,2,3 / empty list): last occurrence converted by the reference conversion, required/default/store/min/max exactly, only 400-class errors '
                      'escape, store untouched on failure; params wiring of both Request constructors (parser called once with the raw text and both flags; form '
                      'body merged); to_query_str rendered string exact for 0..2 keys.',
        'level_note': 'Induction over the field list (> 3 fields) and the law parse(to_query_str(d)) == d are NOT mechanised: labelled bounded stand-in (all strings '
                      '<= 4 over 11 symbols x 4 settings vs an independent reference; every getter on every produced parameter; round trip for dicts <= 2 keys). '
                      'split/partition on the constructed strings are answered from the construction (trusted); decode is the C10 contract; int()/float() are '
                      'axiomatised functions of the string; cyutil/uri.pyx is out of reach. Recorded known finding: `a=,` with csv on and blanks dropped parses '
                      'to {a: []} and nine getters raise IndexError.',
    },
    'C06': {
        'modules': ['contracts.C06_equivalence', 'contracts.C06_differential'],
        'deps': [{'module': 'contracts.C05_response', 'prop': 'C05', 'filters': ['wsgi_tail', 'asgi_tail', 'asgi_sse']}],
        'level': 'proof',
        'level_text': 'Relational (product) contract of the two request classes: one abstract request is presented as a PEP 3333 environ and as an ASGI HTTP '
                      'scope (header list folded by the rule restated in the contract), the REAL falcon.Request.__init__ and falcon.asgi.Request.__init__ run on '
                      'the coupled inputs, and for every accessor pair (method, path with both strip settings, query_string, params, content_type/length, headers, '
                      'get_header*, user_agent/auth/expect/if_range/referer, range, scheme/host/port/netloc/subdomain, forwarded*, uri/url/prefix/relative_uri, '
                      'access_route, remote_addr, accept/client_accepts*, if_match/if_none_match, dates, cookies) both sides raise the same error class for '
                      'the same header or return equal values, for arbitrary symbolic header values; opaque parsers are one shared uninterpreted outcome '
                      'sequence and must receive equal arguments on both sides.',
        'level_note': 'ONLY the request side of the property is decided by contracts. The response side is decided per stack in C05 (same response spec on both '
                      'tails), not relationally here; the falcon.testing half (create_environ/create_scope, emitters/collectors, simulate_request against a '
                      'spec-faithful driver) and bodies/media across stacks are covered only by the labelled bounded differential stand-in. Coupling is ASCII '
                      'only for path/query (latin-1 tunnelling is a server obligation), scope server present, non-empty peer address. Recorded known finding: '
                      'remote_addr diverges when a Forwarded node port is not a number (ASGI raises through access_route, WSGI reads REMOTE_ADDR).',
    },
    'C10': {
        'modules': ['contracts.C10_uri'],
        'level': 'proof',
        'level_text': 'Finite tables by complete enumeration (all 256 encoder entries against the RFC 3986 sets, all 65536 two-byte keys of the hex table), both '
                      'token joiners equal one token-level reference decoder for arbitrary byte tokens (1..9 tokens) and agree with each other, decode() for every '
                      'string with <= 8 percent signs (all lengths/contents, unquote_plus False/True/default) incl. the short/long switch, the encoder closure fast '
                      'paths and table path, parse_host for the RFC 3986 authority forms, unquote_string.',
        'level_note': 'decode with > 8 percent signs / > 9 tokens, decode(encode(s)) == s, idempotence of the check-escaped encoders and the output alphabet of the '
                      'slow path are NOT mechanised (induction): covered only by the labelled bounded stand-in (all strings <= 4 over 14 symbols + random KB-size '
                      'strings). UTF-8 codecs are uninterpreted; cyutil/uri.pyx is out of reach.',
    },
    'C14': {
        'modules': ['contracts.C14_readers'],
        'level': 'proof',
        'level_text': 'Both buffered readers against a flat cursor over the whole byte string: representation invariant + effect on the abstract view '
                      'V = buffered ++ rest-of-source assumed at entry and proved at exit of every method (sync: __init__, _perform_read, _fill_buffer, peek, '
                      '_normalize_size, _read, read, _read_until, _finalize_read_until, read_until, pipe, pipe_until, exhaust, readline, readlines, delimit; '
                      'async: the non-generator methods and, through a per-yield view clause, the generators and their consumers), with loop invariants, for '
                      'all data, chunkings, chunk sizes, delimiters and sizes.',
        'level_note': 'Bytes are modelled as windows of one prophecy string (index arithmetic; every concatenation carries a no-gap/no-overlap obligation); '
                      'find is an uninterpreted first-occurrence function with ground axiom instances. The composition of suspended async generators and '
                      'nested delimit() sub-readers are covered only by the labelled bounded differential; cyutil/reader.pyx is out of reach.',
    },
    'C13': {
        'modules': ['contracts.C13_multipart'],
        'deps': [{'module': 'contracts.C14_readers', 'prop': 'C14', 'filters': None},  # every deductive reader contract (sync + async): the parser's stubs rest on all of them, incl. the source wrapper _iter_normalized (seed C13-asgi-normalized-flush-small-chunk)
                 {'module': 'contracts.C15_headers', 'prop': 'C15', 'filters': ['secure_filename_alphabet']}],
        'level': 'proof',
        'level_text': 'Multipart limits exactly at their thresholds (buffered part size: raises iff content > max, on every call; part count: loop invariant '
                      'remaining == max - parts yielded, 0 = unlimited; header block read with the configured cap), error mapping (only MultipartParseError leaves '
                      'iteration: DelimiterError always translated), header filtering (allowed content headers only, lower-cased; Content-Transfer-Encoding other '
                      'than binary rejected), boundary extraction and the 1..70 rule; each part owns its header mapping; BodyPart accessors (content_type, name, filename incl. the '
                      'RFC 5987 branch, secure_filename, get_text, get_media): values as functions of the kept header bytes and of the callee contracts, memoisation '
                      '(parsed / deserialized once), stream exhausted exactly once when the handler asks for it also on failure, and only MultipartParseError (or the '
                      'media handler\'s own error) escapes for arbitrary header bytes; sync and async twins.',
        'level_note': 'Proved over the flat-cursor contract of the buffered reader (C14) as stubs. NOT decided: "parse(encode(parts)) == parts for every body, '
                      'chunking and consumption pattern" (that name / filename / content EQUAL what a reference encoder wrote); parse_header, the RFC 5987 regex, '
                      'unquote_to_bytes, secure_filename and the codecs are callee contracts -- stated in not_decided.',
    },
    'C09': {
        'modules': ['contracts.C09_request_headers'],
        'deps': [{'module': 'contracts.C10_uri', 'prop': 'C10', 'filters': ['parse_host']}],
        'level': 'proof',
        'level_text': 'For every typed request-header accessor (WSGI and ASGI): the exception-escape set is 400-class only, the value specs that are '
                      'arithmetic/structural (content_length, range forms = the C16 precondition, range_unit, host/port/netloc with default ports, URL '
                      'composition as concatenation equalities, subdomain, access_route fallback chain, forwarded_*), memoisation (second access returns the '
                      'first value without re-parsing even after every input changed), case-insensitive lookup; header values are arbitrary symbolic strings.',
        'level_note': 'The regex/cookie/etag/date/Forwarded grammars are opaque stubs (agreement with an RFC reader only by a labelled bounded differential). '
                      'int(str) is a predicate/function pair with library-reference axioms. X-Forwarded-For <= 3 addresses, Forwarded <= 2 elements. Recorded known '
                      'findings: non-numeric port text escapes as ValueError via uri.parse_host; partial access_route cached after a failure; scope client None.',
    },
    'C11': {
        'modules': ['contracts.C11_negotiation'],
        'level': 'proof',
        'level_text': '_MediaRange.match_score equals the documented 5-component specificity score over symbolic type/subtype strings and parameter values '
                      '(64 parameter shapes), q validation, quality = q of a lexicographically maximal matching range, best_match never returns a q=0 / '
                      'unmatched candidate and breaks ties by order; Handlers cache coherence as an epoch invariant for __setitem__/__delitem__/__init__/copy '
                      'and for pop/popitem/clear/update/setdefault executed from the real stdlib UserDict/MutableMapping source; resolve() is a pure function '
                      'of the current mapping.',
        'level_note': 'quality unrolled for 1..3 ranges (4 in thorough), best_match for 0..3 candidates; header tokenisation (parse_header) only by a labelled '
                      'bounded stand-in. q is modelled in thousandths plus nan/inf. UserDict.__ior__ / __copy__ bypass __setitem__ (outside the operation list).',
    },
    'C15': {
        'modules': ['contracts.C15_headers'],
        'deps': [{'module': 'contracts.C10_uri', 'prop': 'C10', 'filters': ['encoder[', 'constructed_classes', 'char_encoder', 'escape_shapes']}],
        'level': 'proof',
        'level_text': 'Case-insensitive map view of every plain-header operation with frame (whole-map equality over a symbolic String -> Option String map and '
                      'symbolic names), Set-Cookie guard invariant, typed header properties through the real factory, emission lists for WSGI and ASGI, cookie '
                      'attribute table against a recording jar, unset_cookie, append_link; encoders applied on every path.',
        'level_note': 'str.lower is an uninterpreted idempotent function; uri encoders and secure_filename are opaque (C10); http.cookies is replaced by a recording '
                      'jar in symbolic runs (real SimpleCookie in replays); set_headers for an iterable of arbitrary length by a loop contract (map == in-order fold), plus the unrolled lengths 0..3 whose counter-models replay.',
    },
    'C19': {
        'modules': ['contracts.C19_concurrency'],
        'level': 'other',
        'level_text': 'SUFFICIENT CONDITIONS only (no schedules are explored): lock discipline, double check and publication order of the lazy router compile '
                      '(the real _compile_and_find executed with a ghost lock, including another thread finishing the compile while this one waits); frame '
                      'conditions on the extracted AST of every function of the request path (no store to an attribute of the app/router, no global); '
                      'per-call allocation of req/resp/params/dependent stack; process-wide caches memoise functions without shared side effects; request-time methods of the '
                      'objects every request shares (route converters, media handlers, static routes, CORS middleware; classes discovered per module) store nothing on self.',
        'level_note': 'Assumes CPython attribute reads/writes are atomic and in program order, a correct threading.Lock, thread-safe functools.lru_cache, and user '
                      'callables without shared state. The serialisability statement itself is not decided; category other says so.',
        'technique': 'contract-based sufficient conditions: ghost-lock contract on the real lazy-compile function (symbolic execution, z3) plus frame (ownership) '
                     'conditions checked on the extracted AST of the request path',
        'explanation': 'Contracts cannot quantify over thread schedules. This check proves the lock-invariant and ownership conditions under which concurrent requests '
                       'cannot interfere (see assumptions); it does not explore interleavings.',
    },
    'C18': {
        'modules': ['contracts.C18_ws_buffer'],
        'level': 'proof',
        'level_text': 'Rely-guarantee over the atomic segments (await to await) of _BufferedReceiver._pump / receive / stop: the real coroutine bodies run with '
                      'every await as a cut point (check global invariant + the segment guarantee, havoc shared state under the rely, assume invariant). '
                      'Invariant: pulled == delivered ++ queue ++ in-hand (FIFO, lossless, exactly once), queue <= max, no lost wake-up, waiter discipline, '
                      'no pull after disconnect; all schedules are covered because only the invariant and the rely are assumed at a resumption.',
        'level_note': 'Safety only (promptness/liveness not decided). asyncio futures/tasks/wait are stubs with their documented state machine. One recorded known '
                      'finding: the pump pulls one event beyond a full queue (holds max_queue + 1).',
    },
    'C01': {
        'modules': ['contracts.C01_router'],
        'level': 'translation_validation',
        'level_text': 'For each route history of a bounded seeded enumeration (accepted and rejected adds interleaved, with and without lookups in between) the '
                      'finder source that the real router generates is executed symbolically on a request path of symbolic length with symbolic segments and '
                      'uninterpreted regex/converter outcomes, and compared with an independent depth-first oracle over the accepted templates: the generated '
                      'program is loop-free, so each program is decided for ALL request paths. Plus unbounded contracts for find() and IntConverter.convert.',
        'level_note': 'Programs (route sets) are bounded and sampled -- stated in the evidence; paths are not. The generator is not proved correct for all trees '
                      '(compiler correctness by induction is outside reach). Oracle and template reader are trusted specification code.',
        'technique': 'contract-based: per-program translation validation of the generated finder against a spec oracle by symbolic execution (all paths), '
                     'function contracts for find()/converters, VCs discharged by z3',
    },
    'C17': {
        'modules': ['contracts.C17_websocket', 'contracts.C18_ws_buffer'],
        'level': 'proof',
        'level_text': 'Session monitor over every event handed to the server send (CONNECTING/OPEN/CLOSED/LOST, send may fail at every event) plus a typestate '
                      'invariant linking WebSocket._state to it, assumed at entry and proved at exit of every public method (accept, close, send_*, receive_*, '
                      'properties, __init__) with the documented error per (state, operation); close-code table; app level _handle_websocket with the real error '
                      'handlers inlined: 3404 / 3405 / 3000+status / error_close_code / 3011 fallback / 1011 abandoned handshake.',
        'level_note': 'Server errors are seven representative exception shapes at operation level (four at app level) (classification by message text is regex-based). _BufferedReceiver is a stub here '
                      '(C18). Three recorded known findings (close() on a lost connection; custom error handler that does not close).',
    },
    'C04': {
        'modules': ['contracts.C04_errors'],
        'level': 'proof',
        'level_text': '_find_error_handler = nearest registered class of the MRO (enumerated hierarchy shapes x every registered subset), last registration wins, '
                      'default handlers installed by the real __init__, _handle_exception resets text/data/media before the handler and re-renders a raised '
                      'HTTPError/HTTPStatus (WSGI and ASGI), compose functions with header-map frames, to_dict/to_json/_to_xml shape, the full negotiation table of '
                      'default_serialize_error with Vary: Accept on every path, and the default chain never lets an Exception-derived error escape.',
        'level_note': 'Class hierarchies are enumerated over 4 shapes of up to 4 classes (not universal). JSON/XML/uri encoders, client_prefers and the media '
                      'registry are opaque contract stubs. One recorded known finding (Set-Cookie among error headers escapes).',
    },
    'C02': {
        'modules': ['contracts.C02_dispatch'],
        'level': 'proof',
        'level_text': '_get_responder (route masks sinks/statics; first matching entry of the combined table for arbitrary table length by loop invariant, '
                      'and lengths 0..3 unrolled with replayable counter-models), LIFO tables as Seq equalities for arbitrary histories (one step + induction), '
                      'default responders, 405/OPTIONS Allow sets, suffix mapping, route wiring, meta-method guard.',
        'level_note': 'set_default_responders and map_http_methods are decided by complete path enumeration over representative method subsets (concrete), '
                      'not for all 2^23 subsets -- stated under not_decided. Matchers and the router are opaque stubs.',
    },
    'C05': {
        'modules': ['contracts.C05_response'],
        'level': 'proof',
        'level_text': 'Tails of both App.__call__: WSGI start_response monitor and ASGI send-session monitor (INIT/STARTED/DONE) with send and stream failures '
                      'at every event, body precedence text>data>media>stream (media rendered exactly once by the handler resolved for the response content type), '
                      'Content-Length = len(body) for symbolic text/data/rendered media, bodiless HEAD/1xx/204/304, '
                      'typeless 204/304, stream closed exactly once on every exit (ASGI tail; WSGI iterator lifecycle next* then close), server-sent events (start announcing '
                      'text/event-stream, events with more_body, one final event, watcher cancelled), for arbitrary filled-in responses; symbolic ASGI status codes.',
        'level_note': 'WSGI statuses are a representative list (lines, ints, HTTPStatus, custom reason, unknown code). The SSE branch runs with a stub disconnect-watcher task and stub events (text format of an event not specified); the '
                      'media handler is a stub returning arbitrary bytes (C11/C12). utf-8 encoding is an uninterpreted function. Recorded known finding: a 204/304 '
                      'whose body source is resp.media carries the framework default Content-Type.',
    },
    'C12': {
        'modules': ['contracts.C12_media'],
        'deps': [{'module': 'contracts.C11_negotiation', 'prop': 'C11', 'filters': ['_resolve', 'resolver', 'Handlers.']}],
        'level': 'proof',
        'level_text': 'Parse-at-most-once automaton of Request.get_media / media (WSGI and ASGI) as a class invariant over (_media, _media_error) with a ghost '
                      'event trace of handler / registry / stream calls: any history of calls holds by induction; JSON and URL-encoded handler error mapping '
                      '(empty -> MediaNotFoundError, undecodable -> MediaMalformedError 400), serialisation plumbing, response media render cache.',
        'level_note': 'The JSON / form round-trip equalities themselves are an assumed dependency contract of the stdlib json module and of '
                      'parse_query_string/urlencode (C08/C10); only the plumbing around them is proved. Handler, registry and stream are stubs (C07, C11 contracts).',
    },
    'C03': {
        'modules': ['contracts.C03_middleware'],
        'level': 'proof',
        'level_text': 'The documented stack discipline is a ghost monitor (safety automaton written from the statement); every opaque call of App.__call__ '
                      'is an event checked against it, for middleware stacks of arbitrary (symbolic) length with loop invariants, both independent_middleware '
                      'settings, every placement of completion and of a raised error at every call site including process_response and error handlers.',
        'level_note': 'Trusted: the monitor and the stubs of user callables / _get_responder / _handle_exception (C04 contract), spec function RR with its '
                      'defining equation assumed at the loop index. Not decided: termination; see NOT_DECIDED in the evidence.',
    },
    'C20': {
        'modules': ['contracts.C20_cors'],
        'level': 'proof',
        'level_text': 'CORSMiddleware.process_response is loop-free; its post-condition is the full decision table over an arbitrary symbolic header map '
                      '(String -> Option String) with frame (every other header unchanged), plus each security sentence of the statement as its own clause; '
                      '__init__ normal form (a star inside an iterable raises). All configurations, origins, methods, header maps.',
        'level_note': 'Response.get/set/delete_header are executed from their source (inlined). Trusted: Req stub (Request.get_header/method), membership '
                      'of the request origin in a configured set as one boolean, Origin header is never the literal "*" (RFC 6454). cors_enable wiring not proved.',
    },
    'C07': {
        'modules': ['contracts.C07_streams', 'contracts.C07_asgi_stream'],
        'level': 'proof',
        'level_text': 'Class invariant (budget = Content-Length minus bytes returned; nothing pulled from the server is lost; position = bytes returned) '
                      'assumed at entry and proved at exit of every public operation of the WSGI and ASGI BoundedStream, with loop invariants, for all '
                      'bodies, Content-Length values, server chunkings/event shapes and sizes; any history of operations follows by induction.',
        'level_note': 'Trusted: server-side stubs (wsgi.input read/readline return <= n bytes of the remaining body; ASGI receive events), pyvc encoding, '
                      'z3. The lazy wrapping (Request.bounded_stream / asgi Request.stream: built once over the server input with the declared length) is proved too. Not covered: termination.',
    },
    'C16': {
        'modules': ['contracts.C16_static'],
        'deps': [{'module': 'contracts.C09_request_headers', 'prop': 'C09', 'filters': ['Request.range', 'Request.range_unit', 'if_modified_since']}],
        'level': 'proof',
        'level_text': 'Every obligation generated from the current source of _set_range and _BoundedFile.read is discharged for all sizes, '
                      'ranges, cursor positions and read sizes (unbounded integers); range arithmetic, 416 condition, slice bounds, budget.',
        'level_note': 'Trusted: pyvc encoding, z3/cvc5, the ghost file stub (seek/read/close of a regular file), Request.range post-condition '
                      'taken as precondition. Termination not proved.',
    },
}
