"""Which contract modules decide which property, and what each check claims."""

NOTES = ('All checks are ./check <id>; each rebuilds a source-only overlay from /repo working tree, re-extracts the functions under contract '
         'and regenerates every obligation.  Bounded stand-ins are reported separately in each evidence file and never counted as proved.')

NOT_CLAIMED = {}

PROPS = {
    'C16': {
        'modules': ['contracts.C16_static'],
        'level': 'proof',
        'level_text': 'Every obligation generated from the current source of _set_range and _BoundedFile.read is discharged for all sizes, '
                      'ranges, cursor positions and read sizes (unbounded integers); range arithmetic, 416 condition, slice bounds, budget.',
        'level_note': 'Trusted: pyvc encoding, z3/cvc5, the ghost file stub (seek/read/close of a regular file), Request.range post-condition '
                      'taken as precondition. Termination not proved.',
    },
}
