"""C15 -- response headers act as a case-insensitive map; cookies get separate lines.

Abstract view of a falcon.Response (falcon/response.py):

    H = resp._headers        lower-case name -> value          (SMT array String -> Option String)
    X = resp._extra_headers  raw extra lines, all named 'set-cookie'   (None or a python list)
    C = resp._cookies        cookie jar (None or a SimpleCookie)

Class invariant (assumed before, proved after every mutator):

    'set-cookie' is not a key of H;  every key k of H satisfies lower(k) == k;
    every line of X is named 'set-cookie'.

`lower` is the uninterpreted function str.lower of the executor; the program and the
specification use the SAME function, so "case-insensitive" means: every operation
depends on the header name only through lower(name).  The only fact assumed about it
is idempotence (needed for "keys stay lower-case").

Every mutator contract has a FRAME: the whole map after the call equals the
specified map (extensional array equality), and -- so that a frame violation has a
replayable witness -- the same is stated pointwise at an arbitrary named key.
"""
from __future__ import annotations

import z3

from pyvc.core import And, ExcVal, Iff, Implies, Len, Not, Or, Outcome, PyRaise, SDict, SStr, Store, mk_bool, mk_str, opt_sort, _s
from pyvc.harness import harness, stubclass

PROP = 'C15'
RESP = 'falcon.response:Response'
ARESP = 'falcon.asgi.response:Response'
HELP = 'falcon.response_helpers'
SC = 'set-cookie'

# names explored first (concrete: `lower` is computed natively, so counter-models replay), then an arbitrary symbolic name
NAME_CANARIES = ['Set-Cookie', 'SET-COOKIE', 'X-Custom', 'content-type']


# ---------------------------------------------------------------------------
# specification-side helpers (both modes: symbolic exploration / concrete replay)


class Map:
    """Immutable functional map used by the specification side (SMT array or python dict)."""

    def __init__(self, raw):
        self.raw = raw

    @property
    def sym(self):
        return not isinstance(self.raw, dict)

    def put(self, k, val):
        if self.sym:
            return Map(Store(self.raw, k, val))
        d = dict(self.raw)
        d[k] = val
        return Map(d)

    def delete(self, k):
        if self.sym:
            return Map(Store(self.raw, k, None))
        d = dict(self.raw)
        d.pop(k, None)
        return Map(d)

    def has(self, k):
        if self.sym:
            return mk_bool(opt_sort().is_some(z3.Select(self.raw, _s(k))))
        return k in self.raw

    def val(self, k):
        if self.sym:
            return mk_str(opt_sort().val(z3.Select(self.raw, _s(k))), 'str')
        return self.raw.get(k, '')

    def eq(self, other):
        if self.sym:
            return mk_bool(self.raw == other.raw)
        return self.raw == other.raw

    def same_at(self, other, k):
        """Pointwise equality at one key (presence and value)."""
        return And(Iff(self.has(k), other.has(k)), Implies(self.has(k), self.val(k) == other.val(k)))


def header_map(v, keys, base='H'):
    """An arbitrary header map satisfying the class invariant; its entries at `keys` are named so that counter-models replay."""
    if v.concrete:
        d = {}
        for i, k in enumerate(keys):
            p = v.bool('%s_has_%d' % (base, i))
            s = v.str('%s_val_%d' % (base, i))
            if p:
                d[k] = s
        v.assume(SC not in d)
        return d, Map(dict(d))
    sd = SDict.fresh(v.ctx, base)
    O = opt_sort()
    for i, k in enumerate(keys):
        p = v.bool('%s_has_%d' % (base, i))
        s = v.str('%s_val_%d' % (base, i))
        sel = z3.Select(sd.arr, _s(k))
        v.assume(mk_bool(z3.If(p.t, sel == O.some(s.t), sel == O.none)))
    H = Map(sd.arr)
    v.assume(Not(H.has(SC)))
    return sd, H


def map_of(v, resp):
    h = v.get(resp, '_headers')
    return Map(h.arr if isinstance(h, SDict) else dict(h))


def lower(x):
    return x.lower()


def name_input(v, label='name', canaries=NAME_CANARIES):
    k = v.choose(len(canaries) + 1, label)
    if k == len(canaries):
        return v.str(label)
    c = canaries[k]
    if not v.concrete:
        # link the native str.lower of a concrete name with the uninterpreted function used for symbolic ones
        # (two evaluated facts of the real str.lower, nothing assumed)
        f = z3.Function('str.lower', z3.StringSort(), z3.StringSort())
        v.assume(mk_bool(z3.And(f(z3.StringVal(c)) == z3.StringVal(c.lower()), f(z3.StringVal(c.lower())) == z3.StringVal(c.lower()))))
    return c


def to_s(v, x):
    """str(x) of the specification (str -> itself, int -> decimal digits)."""
    if v.concrete or isinstance(x, str):
        return str(x)
    return v.interp.to_str(x)


def value_input(v, label='value'):
    """A header value as the API accepts it: a str, or an int (str() is applied by the method)."""
    if v.choose(2, label + '-kind') == 0:
        return v.str(label)
    return v.int(label + '_int')


def lower_case_key(k):
    return lower(k) == k


def keys_stay_lower_case(H0, H1, k):
    """Invariant 'every key is lower-case', instantiated at the arbitrary key k (H1 differs from H0 at named keys only)."""
    return Implies(Implies(H0.has(k), lower_case_key(k)), Implies(H1.has(k), lower_case_key(k)))


def is_not_supported(v, out):
    return out.exc is not None and out.exc.isa(v.real('falcon.errors:HeaderNotSupported'))


def pairs_eq(got, want):
    """Equality of two python lists of (name, value) pairs whose components may be symbolic."""
    if not isinstance(got, list) or len(got) != len(want):
        return False
    conj = []
    for g, w in zip(got, want):
        if not isinstance(g, tuple) or len(g) != len(w):
            return False
        for a, b in zip(g, w):
            conj.append(a == b)
    return And(*conj) if conj else True


def _setup(reg, ex):
    # the only fact assumed about str.lower: idempotence
    ex.str_axioms['lower'] = lambda s, r, f: [f(r) == r]


def extra_lines(v, label='X'):
    """Pre-state of _extra_headers: None, an empty list, or one / two raw Set-Cookie lines."""
    k = v.choose(4, label + '-shape')
    if k == 0:
        return None
    return [(SC, v.str('%s_line_%d' % (label, i))) for i in range(k - 1)]


def mk_resp(v, hdrs, X=None, C=None, cls=RESP, **more):
    return v.obj(cls, _headers=hdrs, _extra_headers=X, _cookies=C, **more)


def untouched(v, resp, X, X_items, C):
    """_extra_headers and _cookies are the same objects with the same content."""
    x1 = v.get(resp, '_extra_headers')
    return And(x1 is X, True if X is None else pairs_eq(x1, X_items), v.get(resp, '_cookies') is C)


# ---------------------------------------------------------------------------
# get / set / delete / append


@harness(PROP, RESP + '.get_header', setup=_setup)
def get_header(v):
    name = name_input(v)
    ln = lower(name)
    other = v.str('other_key')
    hdrs, H = header_map(v, [ln, other])
    X = extra_lines(v)
    X0 = None if X is None else list(X)
    resp = mk_resp(v, hdrs, X)
    dk = v.choose(3, 'default')
    default = [None, None, None][dk] if dk < 2 else v.str('default')
    out = v.call(resp, name) if dk == 0 else v.call(resp, name, default)
    H1 = map_of(v, resp)
    v.check('reading-leaves-the-headers-untouched', And(H1.eq(H), untouched(v, resp, X, X0, None)))
    if ln == SC:
        v.check('set-cookie-cannot-be-read', is_not_supported(v, out))
        v.cover('set-cookie')
        return
    v.check('no-exception', out.exc is None)
    if out.exc is not None:
        return
    if H.has(ln):
        v.check('returns-the-value-stored-under-the-lower-cased-name', out.value == H.val(ln))
        v.cover('present')
    else:
        v.check('returns-the-default-when-absent', (out.value is None) if default is None else (out.value == default))
        v.cover('absent')


@harness(PROP, RESP + '.set_header', setup=_setup)
def set_header(v):
    name = name_input(v)
    ln = lower(name)
    other = v.str('other_key')
    hdrs, H = header_map(v, [ln, other])
    X = extra_lines(v)
    X0 = None if X is None else list(X)
    resp = mk_resp(v, hdrs, X)
    value = value_input(v)
    out = v.call(resp, name, value)
    H1 = map_of(v, resp)
    v.check('extra-lines-and-cookies-untouched', untouched(v, resp, X, X0, None))
    if ln == SC:
        v.check('set-cookie-cannot-be-overwritten', is_not_supported(v, out))
        v.check('rejected-set-cookie-leaves-the-map-untouched', H1.eq(H))
        v.cover('set-cookie')
        return
    v.check('no-exception', out.exc is None)
    if out.exc is not None:
        return
    E = H.put(ln, to_s(v, value))
    v.check('frame-at-any-other-key', H1.same_at(E, other))
    v.check('stores-str-of-value-under-the-lower-cased-name-and-nothing-else', H1.eq(E))
    v.check('set-cookie-never-becomes-a-key', Not(H1.has(SC)))
    v.check('keys-stay-lower-case', And(keys_stay_lower_case(H, H1, other), keys_stay_lower_case(H, H1, ln)))
    v.cover('stored')


@harness(PROP, RESP + '.delete_header', setup=_setup)
def delete_header(v):
    name = name_input(v)
    ln = lower(name)
    other = v.str('other_key')
    hdrs, H = header_map(v, [ln, other])
    X = extra_lines(v)
    X0 = None if X is None else list(X)
    resp = mk_resp(v, hdrs, X)
    out = v.call(resp, name)
    H1 = map_of(v, resp)
    v.check('extra-lines-and-cookies-untouched', untouched(v, resp, X, X0, None))
    if ln == SC:
        v.check('set-cookie-cannot-be-deleted', is_not_supported(v, out))
        v.check('rejected-set-cookie-leaves-the-map-untouched', H1.eq(H))
        v.cover('set-cookie')
        return
    v.check('no-error-even-when-absent', out.exc is None)
    if out.exc is not None:
        return
    E = H.delete(ln)
    v.check('frame-at-any-other-key', H1.same_at(E, other))
    v.check('removes-the-lower-cased-name-and-nothing-else', H1.eq(E))
    v.check('header-is-gone', Not(H1.has(ln)))
    v.check('keys-stay-lower-case', keys_stay_lower_case(H, H1, other))
    if H.has(ln):
        v.cover('was-present')
    else:
        v.cover('was-absent')


@harness(PROP, RESP + '.append_header', setup=_setup)
def append_header(v):
    name = name_input(v)
    ln = lower(name)
    other = v.str('other_key')
    hdrs, H = header_map(v, [ln, other])
    X = extra_lines(v)
    X0 = None if X is None else list(X)
    resp = mk_resp(v, hdrs, X)
    value = value_input(v)
    out = v.call(resp, name, value)
    H1 = map_of(v, resp)
    v.check('no-exception', out.exc is None)
    if out.exc is not None:
        return
    sval = to_s(v, value)
    X1 = v.get(resp, '_extra_headers')
    v.check('cookie-jar-untouched', v.get(resp, '_cookies') is None)
    if ln == SC:
        v.check('set-cookie-leaves-the-plain-headers-untouched', H1.eq(H))
        v.check('set-cookie-appends-exactly-one-raw-line-after-the-existing-ones', pairs_eq(X1, (X0 or []) + [(SC, sval)]))
        v.cover('set-cookie')
        return
    v.check('plain-header-leaves-the-raw-lines-untouched', And(X1 is X, True if X is None else pairs_eq(X1, X0)))
    if H.has(ln):
        E = H.put(ln, H.val(ln) + ', ' + sval)
        v.cover('joined')
    else:
        E = H.put(ln, sval)
        v.cover('first-value')
    v.check('frame-at-any-other-key', H1.same_at(E, other))
    v.check('joins-with-comma-space-when-present-else-stores-and-nothing-else', H1.eq(E))
    v.check('set-cookie-never-becomes-a-key', Not(H1.has(SC)))
    v.check('keys-stay-lower-case', And(keys_stay_lower_case(H, H1, other), keys_stay_lower_case(H, H1, ln)))


# ---------------------------------------------------------------------------
# bulk set, the copy returned by `headers`, set_stream, _set_media_type

BULK_CANARIES = ['Set-Cookie', 'X-Custom']


def _set_headers(v):
    """set_headers over a mapping / a list of pairs of CONCRETE length 0..3 (names and values symbolic)."""
    n = v.choose(4, 'pairs')
    as_mapping = v.choose(2, 'mapping?')
    names = [name_input(v, 'name%d' % i, BULK_CANARIES) for i in range(n)]
    values = [value_input(v, 'value0') if i == 0 else v.str('value%d' % i) for i in range(n)]
    lns = [lower(x) for x in names]
    other = v.str('other_key')
    hdrs, H = header_map(v, lns + [other])
    X = extra_lines(v)
    X0 = None if X is None else list(X)
    resp = mk_resp(v, hdrs, X)
    if as_mapping:
        # a mapping holds each key once
        for i in range(n):
            for j in range(i):
                if isinstance(names[i], str) and isinstance(names[j], str):
                    if names[i] == names[j]:
                        v.cut()
                else:
                    v.assume(names[i] != names[j])
        arg = dict(zip(names, values))
    else:
        arg = list(zip(names, values))
    out = v.call(resp, arg)
    H1 = map_of(v, resp)
    v.check('extra-lines-and-cookies-untouched', untouched(v, resp, X, X0, None))
    # specification: the pairs are applied in order (a later value for the same lower-cased name wins)
    # up to the first Set-Cookie, which is rejected
    E = H
    rejected = False
    for ln, val in zip(lns, values):
        if ln == SC:
            rejected = True
            break
        E = E.put(ln, to_s(v, val))
    if rejected:
        v.check('set-cookie-cannot-be-set-in-bulk', is_not_supported(v, out))
        v.cover('rejected')
    else:
        v.check('no-exception', out.exc is None)
        v.cover('applied-%d' % n)
    v.check('frame-at-any-other-key', H1.same_at(E, other))
    v.check('pairs-applied-in-order-under-lower-cased-names-and-nothing-else', H1.eq(E))
    v.check('set-cookie-never-becomes-a-key', Not(H1.has(SC)))
    v.check('keys-stay-lower-case', And(keys_stay_lower_case(H, H1, other), *[keys_stay_lower_case(H, H1, ln) for ln in lns]))


for _n in range(4):
    harness(PROP, RESP + '.set_headers', name='set_headers[pairs=%d]' % _n, setup=_setup, fix={'pairs': _n})(_set_headers)


@harness(PROP, RESP + '.headers', setup=_setup)
def headers_copy(v):
    k1 = v.str('key')
    hdrs, H = header_map(v, [k1])
    resp = mk_resp(v, hdrs)
    out = v.call(resp)
    v.check('no-exception', out.exc is None)
    if out.exc is not None:
        return
    got = out.value
    G = Map(got.arr if isinstance(got, SDict) else dict(got))
    v.check('returns-all-plain-headers', G.eq(H))
    v.check('returns-a-new-object', got is not hdrs)
    # mutate the copy: the response's own map must not change
    nk, nv = v.str('new_key'), v.str('new_value')
    if isinstance(got, SDict):
        got.__pyvc_setitem__(nk, nv)
        got.pop(k1, None)
    else:
        got[nk] = nv
        got.pop(k1, None)
    v.check('mutating-the-copy-does-not-change-the-response', And(map_of(v, resp).eq(H), v.get(resp, '_headers') is hdrs))
    v.cover('copied')


@harness(PROP, RESP + '.set_stream', setup=_setup)
def set_stream(v):
    other = v.str('other_key')
    hdrs, H = header_map(v, ['content-length', other])
    resp = mk_resp(v, hdrs, stream=None)
    stream = object()
    n = v.int('content_length', 0)
    out = v.call(resp, stream, n)
    H1 = map_of(v, resp)
    v.check('no-exception', out.exc is None)
    E = H.put('content-length', to_s(v, n))
    v.check('frame-at-any-other-key', H1.same_at(E, other))
    v.check('sets-content-length-to-the-decimal-length-and-nothing-else', H1.eq(E))
    v.check('stores-the-stream', v.get(resp, 'stream') is stream)


@harness(PROP, RESP + '._set_media_type', setup=_setup)
def set_media_type(v):
    other = v.str('other_key')
    hdrs, H = header_map(v, ['content-type', other])
    resp = mk_resp(v, hdrs)
    mt = v.str('media_type') if v.choose(2, 'media-type?') else None
    out = v.call(resp, mt)
    H1 = map_of(v, resp)
    v.check('no-exception', out.exc is None)
    if mt is not None and not H.has('content-type'):
        E = H.put('content-type', mt)
        v.cover('default-added')
    else:
        E = H
        v.cover('kept')
    v.check('frame-at-any-other-key', H1.same_at(E, other))
    v.check('default-content-type-only-when-absent-never-overrides', H1.eq(E))


# ---------------------------------------------------------------------------
# typed header properties: the factory, then every instantiation in response.py


class Prop:
    """What `property(fget, fset, fdel, doc)` returns when the factory runs symbolically."""

    def __init__(self, fget=None, fset=None, fdel=None, doc=None):
        self.fget, self.fset, self.fdel, self.__doc__ = fget, fset, fdel, doc


def run(v, fn, *args):
    """Call a function value of the subject (an interpreted closure, or the real function on replay) -> Outcome."""
    if v.concrete:
        try:
            return Outcome(value=fn(*args))
        except Exception as e:  # noqa: BLE001
            return Outcome(exc=ExcVal(type(e), e.args, real=e))
    return v.interp.run(fn, args)


def _UF(name):
    return z3.Function(name, z3.StringSort(), z3.StringSort())


ENCODERS = {
    # opaque total functions str -> str (contract of C10: the output is ASCII and decodes back to the input)
    'uri.encode_check_escaped': 'falcon.util.uri:encode_check_escaped',
    'uri.encode_value_check_escaped': 'falcon.util.uri:encode_value_check_escaped',
    'uri.encode_value': 'falcon.util.uri:encode_value',
    'misc.secure_filename': 'falcon.util.misc:secure_filename',
}


def enc(v, which, x):
    """Specification side: the encoder `which` applied to x."""
    if v.concrete or isinstance(x, str):
        return v.real(ENCODERS[which])(x)
    return mk_str(_UF(which)(x.t), 'str')


def _encoders(reg, ex):
    import importlib

    for which, dotted in ENCODERS.items():
        mod, _, qn = dotted.partition(':')
        fn = getattr(importlib.import_module(mod), qn)

        def model(I, s, _which=which, _fn=fn):
            if isinstance(s, str):
                return _fn(s)
            if not (isinstance(s, SStr) and s.kind == 'str'):
                I.ctx.raise_py(TypeError, 'encoder applied to a non-string')
            return mk_str(_UF(_which)(s.t), 'str')

        reg.add_model(fn, model)
    # secure_filename is an ordinary repo function: replace it by the same opaque function at call sites
    reg.stubs['falcon.util.misc:secure_filename'] = lambda I, s: mk_str(_UF('misc.secure_filename')(s.t), 'str') if isinstance(s, SStr) else __import__('falcon.util.misc', fromlist=['x']).secure_filename(s)


def _prop_setup(reg, ex):
    _setup(reg, ex)
    _encoders(reg, ex)
    reg.add_model(property, lambda I, fget=None, fset=None, fdel=None, doc=None: Prop(fget, fset, fdel, doc))


@stubclass
class Transform:
    """An arbitrary transform callable handed to the factory: records its argument, returns some str."""

    def __init__(self, v):
        self.v = v
        self.calls = []
        self.results = []

    def __call__(self, value):
        self.calls.append(value)
        r = self.v.str('transformed')
        self.results.append(r)
        return r


FACTORY_CANARIES = ['Content-Type', 'ETag']


@harness(PROP, HELP + ':_header_property', setup=_prop_setup)
def header_property_factory(v):
    """_header_property(name, doc, transform): fget/fset/fdel read, write and delete exactly H[lower(name)]."""
    name = name_input(v, 'name', FACTORY_CANARIES)
    ln = lower(name)
    v.assume(ln != SC)  # the factory is never instantiated for Set-Cookie (see typed_property)
    tr = Transform(v) if v.choose(2, 'transform?') else None
    made = v.call(name, 'doc', tr)
    v.check('factory-returns-a-property', made.exc is None and (isinstance(made.value, property) if v.concrete else isinstance(made.value, Prop))
            and None not in (made.value.fget, made.value.fset, made.value.fdel))
    if made.exc is not None:
        return
    p = made.value
    other = v.str('other_key')
    hdrs, H = header_map(v, [ln, other])
    X = extra_lines(v)
    X0 = None if X is None else list(X)
    resp = mk_resp(v, hdrs, X)
    op = v.choose(4, 'op')
    if op == 0:
        out = run(v, p.fget, resp)
        v.check('fget-no-exception', out.exc is None)
        v.check('fget-leaves-the-map-untouched', map_of(v, resp).eq(H))
        if out.exc is None:
            if H.has(ln):
                v.check('fget-returns-the-stored-value', out.value == H.val(ln))
            else:
                v.check('fget-returns-none-when-absent', out.value is None)
        v.cover('fget')
    elif op == 1:
        value = value_input(v) if tr is None else object()
        out = run(v, p.fset, resp, value)
        v.check('fset-no-exception', out.exc is None)
        if tr is None:
            stored = to_s(v, value)
        else:
            v.check('fset-applies-the-transform-exactly-once-to-the-value', len(tr.calls) == 1 and tr.calls[0] is value)
            if len(tr.results) != 1:
                return
            stored = tr.results[0]
        E = H.put(ln, stored)
        H1 = map_of(v, resp)
        v.check('fset-frame-at-any-other-key', H1.same_at(E, other))
        v.check('fset-stores-the-transformed-value-under-the-lower-case-name-and-nothing-else', H1.eq(E))
        v.check('fset-keys-stay-lower-case', And(keys_stay_lower_case(H, H1, other), keys_stay_lower_case(H, H1, ln)))
        v.cover('fset')
    elif op == 2:
        out = run(v, p.fset, resp, None)
        v.check('fset-none-no-error-even-when-absent', out.exc is None)
        E = H.delete(ln)
        H1 = map_of(v, resp)
        if tr is not None:
            v.check('fset-none-does-not-call-the-transform', len(tr.calls) == 0)
        v.check('fset-none-frame-at-any-other-key', H1.same_at(E, other))
        v.check('fset-none-deletes-the-header-and-nothing-else', H1.eq(E))
        v.cover('fset-none')
    else:
        out = run(v, p.fdel, resp)
        E = H.delete(ln)
        H1 = map_of(v, resp)
        if H.has(ln):
            v.check('fdel-no-exception-when-present', out.exc is None)
        v.check('fdel-frame-at-any-other-key', H1.same_at(E, other))
        v.check('fdel-deletes-the-header-and-nothing-else', H1.eq(E))
        v.cover('fdel')
    v.check('extra-lines-and-cookies-untouched', untouched(v, resp, X, X0, None))


HTTP_DATE_FMT = '%a, %d %b %Y %H:%M:%S GMT'


@stubclass
class GhostDT:
    """A datetime as far as the header / cookie code uses it: tzinfo, strftime, astimezone (works natively on replay too)."""

    def __init__(self, v, tzinfo=None, label='dt'):
        self.v = v
        self.tzinfo = tzinfo
        self.label = label
        self.formats = []
        self.rendered = []
        self.converted_to = []
        self.utc = None

    def strftime(self, fmt):
        self.formats.append(fmt)
        r = self.v.str(self.label + '_rendered')
        self.rendered.append(r)
        return r

    def astimezone(self, tz=None):
        self.converted_to.append(tz)
        self.utc = GhostDT(self.v, tz, self.label + '_in_utc')
        return self.utc


# attribute -> the fixed lower-case header name it must use
TYPED = {
    'cache_control': 'cache-control', 'content_location': 'content-location', 'content_length': 'content-length',
    'content_range': 'content-range', 'content_type': 'content-type', 'downloadable_as': 'content-disposition',
    'viewable_as': 'content-disposition', 'etag': 'etag', 'expires': 'expires', 'last_modified': 'last-modified',
    'location': 'location', 'retry_after': 'retry-after', 'vary': 'vary', 'accept_ranges': 'accept-ranges',
}
SHAPES = {'cache_control': 4, 'vary': 4, 'content_length': 2, 'retry_after': 2, 'content_range': 3}


def typed_value(v, attr, shape):
    """-> (value to assign, the header value the statement asks for, post-check or None)."""
    if attr in ('cache_control', 'vary'):
        items = [v.str('item%d' % i) for i in range(shape)]
        want = ''
        for i, it in enumerate(items):
            want = it if i == 0 else want + ', ' + it
        return items, want, None
    if attr in ('content_location', 'location'):
        x = v.str('uri')
        return x, enc(v, 'uri.encode_check_escaped', x), None
    if attr in ('content_length', 'retry_after'):
        x = v.str('text') if shape == 0 else v.int('number', 0)
        return x, to_s(v, x), None
    if attr in ('content_type', 'accept_ranges'):
        x = v.str('text')
        return x, x, None
    if attr == 'content_range':
        a, b = v.int('first', 0), v.int('last', 0)
        if shape == 0:
            c = v.int('length', 0)
            return (a, b, c), 'bytes ' + to_s(v, a) + '-' + to_s(v, b) + '/' + to_s(v, c), None
        if shape == 1:
            return (a, b, '*'), 'bytes ' + to_s(v, a) + '-' + to_s(v, b) + '/*', None
        c, unit = v.int('length', 0), v.str('unit')
        return (a, b, c, unit), unit + ' ' + to_s(v, a) + '-' + to_s(v, b) + '/' + to_s(v, c), None
    if attr in ('downloadable_as', 'viewable_as'):
        kind = 'attachment' if attr == 'downloadable_as' else 'inline'
        fn = v.str('filename')
        if fn.isascii():
            v.cover('ascii-filename')
            return fn, kind + '; filename="' + fn + '"', None
        v.cover('non-ascii-filename')
        return fn, kind + '; filename=' + enc(v, 'misc.secure_filename', fn) + "; filename*=UTF-8\'\'" + enc(v, 'uri.encode_value', fn), None
    if attr == 'etag':
        x = v.str('etag')
        v.assume(Len(x) > 0)
        if x.endswith('"'):
            return x, x, None
        return x, '"' + x + '"', None
    if attr in ('expires', 'last_modified'):
        dt = GhostDT(v)

        def post():
            v.check('formats-the-datetime-once-as-an-http-date', dt.formats == [HTTP_DATE_FMT] and dt.converted_to == [])

        return dt, None, (dt, post)
    raise KeyError(attr)


def attr_op(v, kind, o, name, value=None):
    """getattr / setattr / delattr through the real attribute lookup (property -> fget/fset/fdel of the factory)."""
    if v.concrete:
        try:
            if kind == 'get':
                return Outcome(value=getattr(o, name))
            if kind == 'set':
                return Outcome(value=setattr(o, name, value))
            return Outcome(value=delattr(o, name))
        except Exception as e:  # noqa: BLE001
            return Outcome(exc=ExcVal(type(e), e.args, real=e))
    try:
        if kind == 'get':
            return Outcome(value=v.interp.getattr(o, name))
        if kind == 'set':
            return Outcome(value=v.interp.setattr(o, name, value))
        return Outcome(value=v.interp.delattr(o, name))
    except PyRaise as e:
        return Outcome(exc=e.exc)


def _typed_property(v):
    attr = v.hdef.opts['attr']
    key = TYPED[attr]
    if not v.concrete:
        v.closure(HELP + ':_header_property')  # evidence: the source span the accessors come from
    raw = v.real(RESP).__dict__.get(attr)
    v.check('is-a-property-made-by-the-header-property-factory',
            isinstance(raw, property) and all(getattr(f, '__module__', None) == HELP and '_header_property.<locals>' in getattr(f, '__qualname__', '')
                                              for f in (raw.fget, raw.fset, raw.fdel)))
    other = v.str('other_key')
    hdrs, H = header_map(v, [key, other])
    X = extra_lines(v)
    X0 = None if X is None else list(X)
    resp = mk_resp(v, hdrs, X)
    op = v.choose(4, 'op')
    if op == 0:
        out = attr_op(v, 'get', resp, attr)
        v.check('reads-its-fixed-lower-case-header', out.exc is None and ((out.value == H.val(key)) if H.has(key) else (out.value is None)))
        v.check('reading-leaves-the-map-untouched', map_of(v, resp).eq(H))
        v.cover('get')
    elif op == 1:
        value, want, extra = typed_value(v, attr, v.choose(SHAPES.get(attr, 1), 'shape'))
        out = attr_op(v, 'set', resp, attr, value)
        v.check('assignment-does-not-raise', out.exc is None)
        if out.exc is not None:
            return
        if extra is not None:
            dt, post = extra
            post()
            if len(dt.rendered) != 1:
                return
            want = dt.rendered[0]
        E = H.put(key, want)
        H1 = map_of(v, resp)
        v.check('frame-at-any-other-key', H1.same_at(E, other))
        v.check('stores-the-transformed-value-under-its-fixed-lower-case-name-and-nothing-else', H1.eq(E))
        v.cover('set')
    elif op == 2:
        out = attr_op(v, 'set', resp, attr, None)
        E = H.delete(key)
        H1 = map_of(v, resp)
        v.check('none-deletes-without-error', out.exc is None)
        v.check('frame-at-any-other-key', H1.same_at(E, other))
        v.check('none-deletes-its-header-and-nothing-else', H1.eq(E))
        v.cover('set-none')
    else:
        out = attr_op(v, 'del', resp, attr)
        E = H.delete(key)
        H1 = map_of(v, resp)
        if H.has(key):
            v.check('del-does-not-raise-when-present', out.exc is None)
        v.check('frame-at-any-other-key', H1.same_at(E, other))
        v.check('del-deletes-its-header-and-nothing-else', H1.eq(E))
        v.cover('del')
    v.check('extra-lines-and-cookies-untouched', untouched(v, resp, X, X0, None))


for _attr in TYPED:
    harness(PROP, RESP + '.' + _attr, name='typed_property[%s]' % _attr, setup=_prop_setup, attr=_attr,
            inline=[HELP + ':_format_*', 'falcon.util.misc:dt_to_http'])(_typed_property)


KILLS = [
    # name normalisation dropped in ONE method
    ('falcon/response.py', "        value = str(value)\n\n        # NOTE(kgriffs): normalize name by lowercasing it\n        name = name.lower()\n\n        if name == 'set-cookie':\n            raise HeaderNotSupported('This method cannot be used to set cookies')\n\n        self._headers[name] = value\n",
     "        value = str(value)\n\n        if name.lower() == 'set-cookie':\n            raise HeaderNotSupported('This method cannot be used to set cookies')\n\n        self._headers[name] = value\n",
     'Response.set_header#stores-str-of-value-under-the-lower-cased-name-and-nothing-else'),
]
HARMLESS = []
