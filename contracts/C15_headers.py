"""C15 -- response headers act as a case-insensitive map; cookies get separate lines.

Abstract view of a falcon.Response (falcon/response.py):

    H = resp._headers        lower-case name -> value          (SMT array String -> Option String)
    X = resp._extra_headers  raw extra lines, all named 'set-cookie'   (None or a python list)
    C = resp._cookies        cookie jar (None or a SimpleCookie)

Class invariant (assumed before, proved after every mutator):

    'set-cookie' is not a key of H;  every key k of H satisfies lower(k) == k;
    every line of X is named 'set-cookie'.

`lower` is the uninterpreted function str.lower of the executor; the program and the
specification use the SAME function, so "case-insensitive" means: every operation
depends on the header name only through lower(name).  The only fact assumed about it
is idempotence (needed for "keys stay lower-case").

Every mutator contract has a FRAME: the whole map after the call equals the
specified map (extensional array equality), and -- so that a frame violation has a
replayable witness -- the same is stated pointwise at an arbitrary named key.
"""
from __future__ import annotations

import z3

from pyvc.core import And, ExcVal, Iff, Implies, Len, Not, Or, Outcome, PyRaise, SDict, SStr, Store, mk_bool, mk_str, opt_sort, _s
from pyvc.harness import harness, stubclass

PROP = 'C15'
RESP = 'falcon.response:Response'
ARESP = 'falcon.asgi.response:Response'
HELP = 'falcon.response_helpers'
SC = 'set-cookie'

# names explored first (concrete: `lower` is computed natively, so counter-models replay), then an arbitrary symbolic name
NAME_CANARIES = ['Set-Cookie', 'SET-COOKIE', 'X-Custom', 'content-type']


# ---------------------------------------------------------------------------
# specification-side helpers (both modes: symbolic exploration / concrete replay)


class Map:
    """Immutable functional map used by the specification side (SMT array or python dict)."""

    def __init__(self, raw):
        self.raw = raw

    @property
    def sym(self):
        return not isinstance(self.raw, dict)

    def put(self, k, val):
        if self.sym:
            return Map(Store(self.raw, k, val))
        d = dict(self.raw)
        d[k] = val
        return Map(d)

    def delete(self, k):
        if self.sym:
            return Map(Store(self.raw, k, None))
        d = dict(self.raw)
        d.pop(k, None)
        return Map(d)

    def has(self, k):
        if self.sym:
            return mk_bool(opt_sort().is_some(z3.Select(self.raw, _s(k))))
        return k in self.raw

    def val(self, k):
        if self.sym:
            return mk_str(opt_sort().val(z3.Select(self.raw, _s(k))), 'str')
        return self.raw.get(k, '')

    def eq(self, other):
        if self.sym:
            return mk_bool(self.raw == other.raw)
        return self.raw == other.raw

    def same_at(self, other, k):
        """Pointwise equality at one key (presence and value)."""
        return And(Iff(self.has(k), other.has(k)), Implies(self.has(k), self.val(k) == other.val(k)))


def header_map(v, keys, base='H'):
    """An arbitrary header map satisfying the class invariant; its entries at `keys` are named so that counter-models replay."""
    if v.concrete:
        d = {}
        for i, k in enumerate(keys):
            p = v.bool('%s_has_%d' % (base, i))
            s = v.str('%s_val_%d' % (base, i))
            if p:
                d[k] = s
        v.assume(SC not in d)
        return d, Map(dict(d))
    sd = SDict.fresh(v.ctx, base)
    O = opt_sort()
    for i, k in enumerate(keys):
        p = v.bool('%s_has_%d' % (base, i))
        s = v.str('%s_val_%d' % (base, i))
        sel = z3.Select(sd.arr, _s(k))
        v.assume(mk_bool(z3.If(p.t, sel == O.some(s.t), sel == O.none)))
    H = Map(sd.arr)
    v.assume(Not(H.has(SC)))
    return sd, H


def map_of(v, resp):
    h = v.get(resp, '_headers')
    return Map(h.arr if isinstance(h, SDict) else dict(h))


def lower(x):
    return x.lower()


def name_input(v, label='name', canaries=NAME_CANARIES):
    k = v.choose(len(canaries) + 1, label)
    if k == len(canaries):
        return v.str(label)
    c = canaries[k]
    if not v.concrete:
        # link the native str.lower of a concrete name with the uninterpreted function used for symbolic ones
        # (two evaluated facts of the real str.lower, nothing assumed)
        f = z3.Function('str.lower', z3.StringSort(), z3.StringSort())
        v.assume(mk_bool(z3.And(f(z3.StringVal(c)) == z3.StringVal(c.lower()), f(z3.StringVal(c.lower())) == z3.StringVal(c.lower()))))
    return c


def to_s(v, x):
    """str(x) of the specification (str -> itself, int -> decimal digits)."""
    if v.concrete or isinstance(x, str):
        return str(x)
    return v.interp.to_str(x)


def value_input(v, label='value'):
    """A header value as the API accepts it: a str, or an int (str() is applied by the method)."""
    if v.choose(2, label + '-kind') == 0:
        return v.str(label)
    return v.int(label + '_int')


def lower_case_key(k):
    return lower(k) == k


def keys_stay_lower_case(H0, H1, k):
    """Invariant 'every key is lower-case', instantiated at the arbitrary key k (H1 differs from H0 at named keys only)."""
    return Implies(Implies(H0.has(k), lower_case_key(k)), Implies(H1.has(k), lower_case_key(k)))


def is_not_supported(v, out):
    return out.exc is not None and out.exc.isa(v.real('falcon.errors:HeaderNotSupported'))


def pairs_eq(got, want):
    """Equality of two python lists of (name, value) pairs whose components may be symbolic."""
    if not isinstance(got, list) or len(got) != len(want):
        return False
    conj = []
    for g, w in zip(got, want):
        if not isinstance(g, tuple) or len(g) != len(w):
            return False
        for a, b in zip(g, w):
            conj.append(a == b)
    return And(*conj) if conj else True


def _setup(reg, ex):
    # the only fact assumed about str.lower: idempotence
    ex.str_axioms['lower'] = lambda s, r, f: [f(r) == r]


def pick(v, label, n):
    """v.choose restricted to the alternatives a harness variant names in its `only` option."""
    allowed = v.hdef.opts.get('only', {}).get(label)
    if allowed is None:
        return v.choose(n, label)
    return allowed[v.choose(len(allowed), label)]


def extra_lines(v, label='X'):
    """Pre-state of _extra_headers: None, an empty list, or one / two raw Set-Cookie lines."""
    k = pick(v, label + '-shape', 4)
    if k == 0:
        return None
    return [(SC, v.str('%s_line_%d' % (label, i))) for i in range(k - 1)]


def mk_resp(v, hdrs, X=None, C=None, cls=RESP, **more):
    return v.obj(cls, _headers=hdrs, _extra_headers=X, _cookies=C, **more)


def untouched(v, resp, X, X_items, C):
    """_extra_headers and _cookies are the same objects with the same content."""
    x1 = v.get(resp, '_extra_headers')
    return And(x1 is X, True if X is None else pairs_eq(x1, X_items), v.get(resp, '_cookies') is C)


# ---------------------------------------------------------------------------
# get / set / delete / append


@harness(PROP, RESP + '.get_header', setup=_setup)
def get_header(v):
    name = name_input(v)
    ln = lower(name)
    other = v.str('other_key')
    hdrs, H = header_map(v, [ln, other])
    X = extra_lines(v)
    X0 = None if X is None else list(X)
    resp = mk_resp(v, hdrs, X)
    dk = v.choose(3, 'default')
    default = v.str('default') if dk == 2 else None  # 0: argument omitted, 1: None, 2: a str
    out = v.call(resp, name) if dk == 0 else v.call(resp, name, default)
    H1 = map_of(v, resp)
    v.check('reading-leaves-the-headers-untouched', And(H1.eq(H), untouched(v, resp, X, X0, None)))
    if ln == SC:
        v.check('set-cookie-cannot-be-read', is_not_supported(v, out))
        v.cover('set-cookie')
        return
    v.check('no-exception', out.exc is None)
    if out.exc is not None:
        return
    if H.has(ln):
        v.check('returns-the-value-stored-under-the-lower-cased-name', out.value == H.val(ln))
        v.cover('present')
    else:
        v.check('returns-the-default-when-absent', (out.value is None) if default is None else (out.value == default))
        v.cover('absent')


@harness(PROP, RESP + '.set_header', setup=_setup)
def set_header(v):
    name = name_input(v)
    ln = lower(name)
    other = v.str('other_key')
    hdrs, H = header_map(v, [ln, other])
    X = extra_lines(v)
    X0 = None if X is None else list(X)
    resp = mk_resp(v, hdrs, X)
    value = value_input(v)
    out = v.call(resp, name, value)
    H1 = map_of(v, resp)
    v.check('extra-lines-and-cookies-untouched', untouched(v, resp, X, X0, None))
    if ln == SC:
        v.check('set-cookie-cannot-be-overwritten', is_not_supported(v, out))
        v.check('rejected-set-cookie-leaves-the-map-untouched', H1.eq(H))
        v.cover('set-cookie')
        return
    v.check('no-exception', out.exc is None)
    if out.exc is not None:
        return
    E = H.put(ln, to_s(v, value))
    v.check('frame-at-any-other-key', H1.same_at(E, other))
    v.check('stores-str-of-value-under-the-lower-cased-name-and-nothing-else', H1.eq(E))
    v.check('set-cookie-never-becomes-a-key', Not(H1.has(SC)))
    v.check('keys-stay-lower-case', And(keys_stay_lower_case(H, H1, other), keys_stay_lower_case(H, H1, ln)))
    v.cover('stored')


@harness(PROP, RESP + '.delete_header', setup=_setup)
def delete_header(v):
    name = name_input(v)
    ln = lower(name)
    other = v.str('other_key')
    hdrs, H = header_map(v, [ln, other])
    X = extra_lines(v)
    X0 = None if X is None else list(X)
    resp = mk_resp(v, hdrs, X)
    out = v.call(resp, name)
    H1 = map_of(v, resp)
    v.check('extra-lines-and-cookies-untouched', untouched(v, resp, X, X0, None))
    if ln == SC:
        v.check('set-cookie-cannot-be-deleted', is_not_supported(v, out))
        v.check('rejected-set-cookie-leaves-the-map-untouched', H1.eq(H))
        v.cover('set-cookie')
        return
    v.check('no-error-even-when-absent', out.exc is None)
    if out.exc is not None:
        return
    E = H.delete(ln)
    v.check('frame-at-any-other-key', H1.same_at(E, other))
    v.check('removes-the-lower-cased-name-and-nothing-else', H1.eq(E))
    v.check('header-is-gone', Not(H1.has(ln)))
    v.check('keys-stay-lower-case', keys_stay_lower_case(H, H1, other))
    if H.has(ln):
        v.cover('was-present')
    else:
        v.cover('was-absent')


@harness(PROP, RESP + '.append_header', setup=_setup)
def append_header(v):
    name = name_input(v)
    ln = lower(name)
    other = v.str('other_key')
    hdrs, H = header_map(v, [ln, other])
    X = extra_lines(v)
    X0 = None if X is None else list(X)
    resp = mk_resp(v, hdrs, X)
    value = value_input(v)
    out = v.call(resp, name, value)
    H1 = map_of(v, resp)
    v.check('no-exception', out.exc is None)
    if out.exc is not None:
        return
    sval = to_s(v, value)
    X1 = v.get(resp, '_extra_headers')
    v.check('cookie-jar-untouched', v.get(resp, '_cookies') is None)
    if ln == SC:
        v.check('set-cookie-leaves-the-plain-headers-untouched', H1.eq(H))
        v.check('set-cookie-appends-exactly-one-raw-line-after-the-existing-ones', pairs_eq(X1, (X0 or []) + [(SC, sval)]))
        v.cover('set-cookie')
        return
    v.check('plain-header-leaves-the-raw-lines-untouched', And(X1 is X, True if X is None else pairs_eq(X1, X0)))
    if H.has(ln):
        E = H.put(ln, H.val(ln) + ', ' + sval)
        v.cover('joined')
    else:
        E = H.put(ln, sval)
        v.cover('first-value')
    v.check('frame-at-any-other-key', H1.same_at(E, other))
    v.check('joins-with-comma-space-when-present-else-stores-and-nothing-else', H1.eq(E))
    v.check('set-cookie-never-becomes-a-key', Not(H1.has(SC)))
    v.check('keys-stay-lower-case', And(keys_stay_lower_case(H, H1, other), keys_stay_lower_case(H, H1, ln)))


# ---------------------------------------------------------------------------
# bulk set, the copy returned by `headers`, set_stream, _set_media_type

BULK_CANARIES = ['Set-Cookie', 'X-Custom']


def _set_headers(v):
    """set_headers over a mapping / a list of pairs of CONCRETE length 0..3 (names and values symbolic)."""
    n = v.choose(4, 'pairs')
    as_mapping = v.choose(2, 'mapping?')
    names = [name_input(v, 'name%d' % i, BULK_CANARIES) for i in range(n)]
    values = [value_input(v, 'value0') if i == 0 else v.str('value%d' % i) for i in range(n)]
    lns = [lower(x) for x in names]
    other = v.str('other_key')
    hdrs, H = header_map(v, lns + [other])
    X = extra_lines(v)
    X0 = None if X is None else list(X)
    resp = mk_resp(v, hdrs, X)
    if as_mapping:
        # a mapping holds each key once
        for i in range(n):
            for j in range(i):
                if isinstance(names[i], str) and isinstance(names[j], str):
                    if names[i] == names[j]:
                        v.cut()
                else:
                    v.assume(names[i] != names[j])
        arg = dict(zip(names, values))
    else:
        arg = list(zip(names, values))
    out = v.call(resp, arg)
    H1 = map_of(v, resp)
    v.check('extra-lines-and-cookies-untouched', untouched(v, resp, X, X0, None))
    # specification: the pairs are applied in order (a later value for the same lower-cased name wins)
    # up to the first Set-Cookie, which is rejected
    E = H
    rejected = False
    for ln, val in zip(lns, values):
        if ln == SC:
            rejected = True
            break
        E = E.put(ln, to_s(v, val))
    if rejected:
        v.check('set-cookie-cannot-be-set-in-bulk', is_not_supported(v, out))
        v.cover('rejected')
    else:
        v.check('no-exception', out.exc is None)
        v.cover('applied-%d' % n)
    v.check('frame-at-any-other-key', H1.same_at(E, other))
    v.check('pairs-applied-in-order-under-lower-cased-names-and-nothing-else', H1.eq(E))
    v.check('set-cookie-never-becomes-a-key', Not(H1.has(SC)))
    v.check('keys-stay-lower-case', And(keys_stay_lower_case(H, H1, other), *[keys_stay_lower_case(H, H1, ln) for ln in lns]))


for _n in range(4):
    harness(PROP, RESP + '.set_headers', name='set_headers[pairs=%d]' % _n, setup=_setup, fix={'pairs': _n})(_set_headers)


# --- set_headers for an iterable of ARBITRARY length: loop contract instead of unrolling ------------------------------------------
#
# The iterable is a sequence of symbolic length n whose i-th element is an arbitrary pair (name_i, value_i).  The specification is the
# in-order fold  F(0) = H,  F(i+1) = F(i)[lower(name_i) := str(value_i)]  (F uninterpreted; its defining equation is assumed exactly at
# the index the loop contract visits -- a conservative extension, F is primitive recursive).  Loop invariant: resp._headers == F(i),
# 'set-cookie' is not a key of F(i), F(i) is lower-case at an arbitrary key.  Exit without exception: the map is F(n).  An exception
# leaves at the first pair whose lower-cased name is 'set-cookie' (the loop got that far without one) with the map F(j).


class _Pairs:
    """Stub iterable: symbolic length, fresh pair at the index visited; records the visit for the specification side."""

    __pyvc_symbolic__ = True
    __pyvc_stub__ = True

    def __init__(self, v, F, n, as_mapping):
        self.v, self.F, self.n = v, F, n
        self.visited = None
        if as_mapping:
            self.items = self._items

    def _items(self):
        return self

    def __pyvc_truth__(self):
        return True

    def __pyvc_seq__(self):
        from pyvc.core import FnSeq

        def item(i):
            v = self.v
            name = v.str('name_i')
            value = value_input(v, 'value_i')
            ln = lower(name)
            self.visited = (i, name, value)
            # defining equation of the fold at this index
            v.assume(Implies(ln != SC, mk_bool(self.F(_ix(i) + 1) == Store(self.F(_ix(i)), ln, to_s(v, value)))))
            return (name, value)

        return FnSeq(self.n, item)


def _ix(i):
    from pyvc.core import _i
    return _i(i)


def _set_headers_any_length(v):
    """set_headers over a mapping / an iterable of pairs of ARBITRARY (symbolic) length."""
    v.expect_covers('applied-all', 'rejected-at-some-index')
    if v.concrete:
        v.cut()  # loop-contract obligations have no single concrete input; the unrolled variants above carry the replayable witnesses
    as_mapping = v.choose(2, 'mapping?')
    other = v.str('other_key')
    hdrs, H = header_map(v, [other])
    O = opt_sort()
    arr_sort = hdrs.arr.sort()
    F = z3.Function('C15_fold', z3.IntSort(), arr_sort)
    n = v.int('n_pairs', 0)
    v.assume(mk_bool(F(0) == hdrs.arr))
    v.assume(Implies(H.has(other), lower_case_key(other)))
    X = extra_lines(v)
    X0 = None if X is None else list(X)
    resp = mk_resp(v, hdrs, X)
    pairs = _Pairs(v, F, n, as_mapping)
    v.ctx.ghost['fold'] = F
    v.ctx.ghost['other'] = other
    out = v.call(resp, pairs)
    H1 = map_of(v, resp)
    v.check('extra-lines-and-cookies-untouched', untouched(v, resp, X, X0, None))
    if out.exc is not None:
        v.check('set-cookie-cannot-be-set-in-bulk', is_not_supported(v, out))
        v.check('only-a-set-cookie-pair-is-rejected', pairs.visited is not None and lower(pairs.visited[1]) == SC)
        if pairs.visited is not None:
            j = pairs.visited[0]
            v.check('pairs-before-the-rejected-one-applied-in-order-and-nothing-else', mk_bool(H1.raw == F(_ix(j))))
        v.cover('rejected-at-some-index')
    else:
        v.check('pairs-applied-in-order-under-lower-cased-names-and-nothing-else', mk_bool(H1.raw == F(_ix(n))))
        v.cover('applied-all')
    v.check('set-cookie-never-becomes-a-key', Not(H1.has(SC)))
    v.check('keys-stay-lower-case', Implies(H1.has(other), lower_case_key(other)))


def _setup_any_length(reg, ex):
    from pyvc.interp import LoopSpec
    _setup(reg, ex)

    from pyvc.core import cur

    def inv(L):
        g = cur().ghost
        F, other = g['fold'], g['other']
        i = _ix(L['_i_loop'])
        FM = Map(F(i))
        return And(mk_bool(L['_headers'].arr == F(i)), Not(FM.has(SC)), Implies(FM.has(other), lower_case_key(other)))

    # registered under the header text AND the ordinal (a renamed loop variable keeps the ordinal, reordered loops keep the header)
    reg.loops[('falcon.response:Response.set_headers', 'for (name, value) in headers')] = LoopSpec(inv=inv, name='for#0')
    reg.loops[('falcon.response:Response.set_headers', 'for#0')] = LoopSpec(inv=inv, name='for#0')


harness(PROP, RESP + '.set_headers', name='set_headers[any-length]', setup=_setup_any_length)(_set_headers_any_length)


@harness(PROP, RESP + '.headers', setup=_setup)
def headers_copy(v):
    k1 = v.str('key')
    hdrs, H = header_map(v, [k1])
    resp = mk_resp(v, hdrs)
    out = v.call(resp)
    v.check('no-exception', out.exc is None)
    if out.exc is not None:
        return
    got = out.value
    G = Map(got.arr if isinstance(got, SDict) else dict(got))
    v.check('returns-all-plain-headers', G.eq(H))
    v.check('returns-a-new-object', got is not hdrs)
    # mutate the copy: the response's own map must not change
    nk, nv = v.str('new_key'), v.str('new_value')
    if isinstance(got, SDict):
        got.__pyvc_setitem__(nk, nv)
        got.pop(k1, None)
    else:
        got[nk] = nv
        got.pop(k1, None)
    v.check('mutating-the-copy-does-not-change-the-response', And(map_of(v, resp).eq(H), v.get(resp, '_headers') is hdrs))
    v.cover('copied')


@harness(PROP, RESP + '.set_stream', setup=_setup)
def set_stream(v):
    other = v.str('other_key')
    hdrs, H = header_map(v, ['content-length', other])
    resp = mk_resp(v, hdrs, stream=None)
    stream = object()
    n = v.int('content_length', 0)
    out = v.call(resp, stream, n)
    H1 = map_of(v, resp)
    v.check('no-exception', out.exc is None)
    E = H.put('content-length', to_s(v, n))
    v.check('frame-at-any-other-key', H1.same_at(E, other))
    v.check('sets-content-length-to-the-decimal-length-and-nothing-else', H1.eq(E))
    v.check('stores-the-stream', v.get(resp, 'stream') is stream)


@harness(PROP, RESP + '._set_media_type', setup=_setup)
def set_media_type(v):
    other = v.str('other_key')
    hdrs, H = header_map(v, ['content-type', other])
    resp = mk_resp(v, hdrs)
    mt = v.str('media_type') if v.choose(2, 'media-type?') else None
    out = v.call(resp, mt)
    H1 = map_of(v, resp)
    v.check('no-exception', out.exc is None)
    if mt is not None and not H.has('content-type'):
        E = H.put('content-type', mt)
        v.cover('default-added')
    else:
        E = H
        v.cover('kept')
    v.check('frame-at-any-other-key', H1.same_at(E, other))
    v.check('default-content-type-only-when-absent-never-overrides', H1.eq(E))


def _init_setup(reg, ex):
    import importlib

    _setup(reg, ex)
    # ResponseOptions.__init__ runs from its source; the media handler table it creates is opaque here (C11 / C12)
    reg.add_model(importlib.import_module('falcon.media.handlers').Handlers, lambda I, *a, **k: object())


@harness(PROP, RESP + '.__init__', setup=_init_setup, inline=['falcon.util.structures:*', 'falcon.response:ResponseOptions.__init__'])
def response_starts_empty(v):
    """Base case of the induction over histories: a new response has no plain header, no raw line, no cookie jar."""
    v.expect_covers('constructed', 'constructed-without-options')
    # the options argument is optional: given (either value of the Secure default), None, or omitted
    ok = v.choose(4, 'options')
    opts = Options(ok == 0) if ok < 2 else None
    resp = v.obj(RESP)
    out = v.call(resp) if ok == 3 else v.call(resp, opts)
    v.check('no-exception', out.exc is None)
    if out.exc is not None:
        return
    h = v.get(resp, '_headers')
    v.check('no-plain-headers', isinstance(h, dict) and len(h) == 0)
    v.check('no-raw-lines-and-no-cookie-jar', v.get(resp, '_extra_headers') is None and v.get(resp, '_cookies') is None)
    o1 = v.get(resp, 'options')
    if opts is not None:
        v.check('options-kept', o1 is opts)
        v.cover('constructed')
    else:
        # "Secure defaulting from the app option": a response built without options gets a fresh ResponseOptions (documented default: Secure on)
        RO = v.real('falcon.response:ResponseOptions')
        v.check('without-options-a-fresh-default-responseoptions-is-used',
                (isinstance(o1, RO) if v.concrete else getattr(o1, '_cls', None) is RO) and v.get(o1, 'secure_cookies_by_default') is True)
        v.cover('constructed-without-options')


@harness(PROP, RESP + '.get_header', name='read_back_in_any_case', setup=_setup,
         inline=[RESP + '.set_header', RESP + '.append_header', RESP + '.delete_header'])
def read_back_in_any_case(v):
    """A two-step history on the real methods: write under one spelling, read under another spelling of the same name."""
    n1, n2 = v.str('written_as'), v.str('read_as')
    if v.concrete:
        v.assume(n1.lower() == n2.lower() and n1.lower() != SC)
    else:
        v.assume(And(lower(n1) == lower(n2), lower(n1) != SC))
    hdrs, H = header_map(v, [lower(n1)])
    resp = mk_resp(v, hdrs)
    val = v.str('value')
    op = v.choose(3, 'write')
    w = v.call(resp, n1, val, target=RESP + ['.set_header', '.append_header'][op]) if op < 2 else v.call(resp, n1, target=RESP + '.delete_header')
    r = v.call(resp, n2)
    v.check('no-exception', w.exc is None and r.exc is None)
    if w.exc is not None or r.exc is not None:
        return
    if op == 0:
        v.check('set-then-get-in-another-case-returns-the-value', r.value == val)
    elif op == 1:
        v.check('append-then-get-in-another-case-returns-the-joined-value', r.value == ((H.val(lower(n1)) + ', ' + val) if H.has(lower(n1)) else val))
    else:
        v.check('delete-then-get-in-another-case-returns-none', r.value is None)
    v.cover('read-back')


# ---------------------------------------------------------------------------
# typed header properties: the factory, then every instantiation in response.py


class Prop:
    """What `property(fget, fset, fdel, doc)` returns when the factory runs symbolically."""

    def __init__(self, fget=None, fset=None, fdel=None, doc=None):
        self.fget, self.fset, self.fdel, self.__doc__ = fget, fset, fdel, doc


def run(v, fn, *args):
    """Call a function value of the subject (an interpreted closure, or the real function on replay) -> Outcome."""
    if v.concrete:
        try:
            return Outcome(value=fn(*args))
        except Exception as e:  # noqa: BLE001
            return Outcome(exc=ExcVal(type(e), e.args, real=e))
    return v.interp.run(fn, args)


def _UF(name):
    return z3.Function(name, z3.StringSort(), z3.StringSort())


ENCODERS = {
    # opaque total functions str -> str (contract of C10: the output is ASCII and decodes back to the input)
    'uri.encode_check_escaped': 'falcon.util.uri:encode_check_escaped',
    'uri.encode_value_check_escaped': 'falcon.util.uri:encode_value_check_escaped',
    'uri.encode_value': 'falcon.util.uri:encode_value',
    'misc.secure_filename': 'falcon.util.misc:secure_filename',
}


URI_CANARY = 'http://example.com/\u00e4 b?q=\u20ac'


def uri_input(v, label):
    """A URI / IRI / filename argument: one concrete non-ASCII sample first, then an arbitrary string."""
    return URI_CANARY if pick(v, label + '-sample', 2) == 0 else v.str(label)


def enc(v, which, x):
    """Specification side: the encoder `which` applied to x."""
    if v.concrete or isinstance(x, str):
        return v.real(ENCODERS[which])(x)
    return mk_str(_UF(which)(x.t), 'str')


def _encoders(reg, ex):
    import importlib

    for which, dotted in ENCODERS.items():
        mod, _, qn = dotted.partition(':')
        fn = getattr(importlib.import_module(mod), qn)

        def model(I, s, _which=which, _fn=fn):
            if isinstance(s, str):
                return _fn(s)
            if not (isinstance(s, SStr) and s.kind == 'str'):
                I.ctx.raise_py(TypeError, 'encoder applied to a non-string')
            return mk_str(_UF(_which)(s.t), 'str')

        reg.add_model(fn, model)
    # secure_filename is an ordinary repo function: replace it by the same opaque function at call sites
    reg.stubs['falcon.util.misc:secure_filename'] = lambda I, s: mk_str(_UF('misc.secure_filename')(s.t), 'str') if isinstance(s, SStr) else __import__('falcon.util.misc', fromlist=['x']).secure_filename(s)


def _prop_setup(reg, ex):
    _setup(reg, ex)
    _encoders(reg, ex)
    reg.add_model(property, lambda I, fget=None, fset=None, fdel=None, doc=None: Prop(fget, fset, fdel, doc))


@stubclass
class Transform:
    """An arbitrary transform callable handed to the factory: records its argument, returns some str."""

    def __init__(self, v):
        self.v = v
        self.calls = []
        self.results = []

    def __call__(self, value):
        self.calls.append(value)
        r = self.v.str('transformed')
        self.results.append(r)
        return r


FACTORY_CANARIES = ['Content-Type', 'ETag']


@harness(PROP, HELP + ':_header_property', setup=_prop_setup)
def header_property_factory(v):
    """_header_property(name, doc, transform): fget/fset/fdel read, write and delete exactly H[lower(name)]."""
    name = name_input(v, 'name', FACTORY_CANARIES)
    ln = lower(name)
    v.assume(ln != SC)  # the factory is never instantiated for Set-Cookie (see typed_property)
    tr = Transform(v) if v.choose(2, 'transform?') else None
    made = v.call(name, 'doc', tr)
    v.check('factory-returns-a-property', made.exc is None and (isinstance(made.value, property) if v.concrete else isinstance(made.value, Prop))
            and None not in (made.value.fget, made.value.fset, made.value.fdel))
    if made.exc is not None:
        return
    p = made.value
    other = v.str('other_key')
    hdrs, H = header_map(v, [ln, other])
    X = extra_lines(v)
    X0 = None if X is None else list(X)
    resp = mk_resp(v, hdrs, X)
    op = v.choose(4, 'op')
    if op == 0:
        out = run(v, p.fget, resp)
        v.check('fget-no-exception', out.exc is None)
        v.check('fget-leaves-the-map-untouched', map_of(v, resp).eq(H))
        if out.exc is None:
            if H.has(ln):
                v.check('fget-returns-the-stored-value', out.value == H.val(ln))
            else:
                v.check('fget-returns-none-when-absent', out.value is None)
        v.cover('fget')
    elif op == 1:
        value = value_input(v) if tr is None else object()
        out = run(v, p.fset, resp, value)
        v.check('fset-no-exception', out.exc is None)
        if tr is None:
            stored = to_s(v, value)
        else:
            v.check('fset-applies-the-transform-exactly-once-to-the-value', len(tr.calls) == 1 and tr.calls[0] is value)
            if len(tr.results) != 1:
                return
            stored = tr.results[0]
        E = H.put(ln, stored)
        H1 = map_of(v, resp)
        v.check('fset-frame-at-any-other-key', H1.same_at(E, other))
        v.check('fset-stores-the-transformed-value-under-the-lower-case-name-and-nothing-else', H1.eq(E))
        v.check('fset-keys-stay-lower-case', And(keys_stay_lower_case(H, H1, other), keys_stay_lower_case(H, H1, ln)))
        v.cover('fset')
    elif op == 2:
        out = run(v, p.fset, resp, None)
        v.check('fset-none-no-error-even-when-absent', out.exc is None)
        E = H.delete(ln)
        H1 = map_of(v, resp)
        if tr is not None:
            v.check('fset-none-does-not-call-the-transform', len(tr.calls) == 0)
        v.check('fset-none-frame-at-any-other-key', H1.same_at(E, other))
        v.check('fset-none-deletes-the-header-and-nothing-else', H1.eq(E))
        v.cover('fset-none')
    else:
        out = run(v, p.fdel, resp)
        E = H.delete(ln)
        H1 = map_of(v, resp)
        if H.has(ln):
            v.check('fdel-no-exception-when-present', out.exc is None)
        v.check('fdel-frame-at-any-other-key', H1.same_at(E, other))
        v.check('fdel-deletes-the-header-and-nothing-else', H1.eq(E))
        v.cover('fdel')
    v.check('extra-lines-and-cookies-untouched', untouched(v, resp, X, X0, None))


HTTP_DATE_FMT = '%a, %d %b %Y %H:%M:%S GMT'


@stubclass
class GhostDT:
    """A datetime as far as the header / cookie code uses it: tzinfo, strftime, astimezone (works natively on replay too)."""

    def __pyvc_truth__(self):
        return True  # datetime objects are always true

    def __init__(self, v, tzinfo=None, label='dt'):
        self.v = v
        self.tzinfo = tzinfo
        self.label = label
        self.formats = []
        self.rendered = []
        self.converted_to = []
        self.utc = None

    def strftime(self, fmt):
        self.formats.append(fmt)
        r = self.v.str(self.label + '_rendered')
        self.v.assume(Len(r) > 0)  # the formats used here contain literal text
        self.rendered.append(r)
        return r

    def astimezone(self, tz=None):
        self.converted_to.append(tz)
        self.utc = GhostDT(self.v, tz, self.label + '_in_utc')
        return self.utc


# attribute -> the fixed lower-case header name it must use
TYPED = {
    'cache_control': 'cache-control', 'content_location': 'content-location', 'content_length': 'content-length',
    'content_range': 'content-range', 'content_type': 'content-type', 'downloadable_as': 'content-disposition',
    'viewable_as': 'content-disposition', 'etag': 'etag', 'expires': 'expires', 'last_modified': 'last-modified',
    'location': 'location', 'retry_after': 'retry-after', 'vary': 'vary', 'accept_ranges': 'accept-ranges',
}
TRANSFORM_SOURCE = {
    'cache_control': [HELP + ':_format_header_value_list'], 'vary': [HELP + ':_format_header_value_list'], 'content_range': [HELP + ':_format_range'],
    'downloadable_as': [HELP + ':_format_content_disposition'], 'viewable_as': [HELP + ':_format_content_disposition'], 'etag': [HELP + ':_format_etag_header'],
    'expires': ['falcon.util.misc:dt_to_http'], 'last_modified': ['falcon.util.misc:dt_to_http'],
}
SHAPES = {'cache_control': 4, 'vary': 4, 'content_length': 2, 'retry_after': 2, 'content_range': 3}


def typed_value(v, attr, shape):
    """-> (value to assign, the header value the statement asks for, post-check or None)."""
    if attr in ('cache_control', 'vary'):
        items = [v.str('item%d' % i) for i in range(shape)]
        want = ''
        for i, it in enumerate(items):
            want = it if i == 0 else want + ', ' + it
        return items, want, None
    if attr in ('content_location', 'location'):
        x = uri_input(v, 'uri')
        return x, enc(v, 'uri.encode_check_escaped', x), None
    if attr in ('content_length', 'retry_after'):
        x = v.str('text') if shape == 0 else v.int('number', 0)
        return x, to_s(v, x), None
    if attr in ('content_type', 'accept_ranges'):
        x = v.str('text')
        return x, x, None
    if attr == 'content_range':
        a, b = v.int('first', 0), v.int('last', 0)
        if shape == 0:
            c = v.int('length', 0)
            return (a, b, c), 'bytes ' + to_s(v, a) + '-' + to_s(v, b) + '/' + to_s(v, c), None
        if shape == 1:
            return (a, b, '*'), 'bytes ' + to_s(v, a) + '-' + to_s(v, b) + '/*', None
        c, unit = v.int('length', 0), v.str('unit')
        return (a, b, c, unit), unit + ' ' + to_s(v, a) + '-' + to_s(v, b) + '/' + to_s(v, c), None
    if attr in ('downloadable_as', 'viewable_as'):
        kind = 'attachment' if attr == 'downloadable_as' else 'inline'
        fn = uri_input(v, 'filename')
        if fn.isascii():
            v.cover('ascii-filename')
            return fn, kind + '; filename="' + fn + '"', None
        v.cover('non-ascii-filename')
        return fn, kind + '; filename=' + enc(v, 'misc.secure_filename', fn) + "; filename*=UTF-8\'\'" + enc(v, 'uri.encode_value', fn), None
    if attr == 'etag':
        x = v.str('etag')
        v.assume(Len(x) > 0)
        if x.endswith('"'):
            return x, x, None
        return x, '"' + x + '"', None
    if attr in ('expires', 'last_modified'):
        dt = GhostDT(v)

        def post():
            v.check('formats-the-datetime-once-as-an-http-date', dt.formats == [HTTP_DATE_FMT] and dt.converted_to == [])

        return dt, None, (dt, post)
    raise KeyError(attr)


def attr_op(v, kind, o, name, value=None):
    """getattr / setattr / delattr through the real attribute lookup (property -> fget/fset/fdel of the factory)."""
    if v.concrete:
        try:
            if kind == 'get':
                return Outcome(value=getattr(o, name))
            if kind == 'set':
                return Outcome(value=setattr(o, name, value))
            return Outcome(value=delattr(o, name))
        except Exception as e:  # noqa: BLE001
            return Outcome(exc=ExcVal(type(e), e.args, real=e))
    try:
        if kind == 'get':
            return Outcome(value=v.interp.getattr(o, name))
        if kind == 'set':
            return Outcome(value=v.interp.setattr(o, name, value))
        return Outcome(value=v.interp.delattr(o, name))
    except PyRaise as e:
        return Outcome(exc=e.exc)


def _typed_property(v):
    attr = v.hdef.opts['attr']
    key = TYPED[attr]
    if not v.concrete:
        v.closure(HELP + ':_header_property')  # evidence: the source span the accessors come from
        for dotted in TRANSFORM_SOURCE.get(attr, ()):
            v.closure(dotted)
    raw = v.real(RESP).__dict__.get(attr)
    v.check('is-a-property-made-by-the-header-property-factory',
            isinstance(raw, property) and all(getattr(f, '__module__', None) == HELP and '_header_property.<locals>' in getattr(f, '__qualname__', '')
                                              for f in (raw.fget, raw.fset, raw.fdel)))
    other = v.str('other_key')
    hdrs, H = header_map(v, [key, other])
    X = extra_lines(v)
    X0 = None if X is None else list(X)
    resp = mk_resp(v, hdrs, X)
    op = v.choose(4, 'op')
    if op == 0:
        out = attr_op(v, 'get', resp, attr)
        v.check('reads-its-fixed-lower-case-header', out.exc is None and ((out.value == H.val(key)) if H.has(key) else (out.value is None)))
        v.check('reading-leaves-the-map-untouched', map_of(v, resp).eq(H))
        v.cover('get')
    elif op == 1:
        value, want, extra = typed_value(v, attr, v.choose(SHAPES.get(attr, 1), 'shape'))
        out = attr_op(v, 'set', resp, attr, value)
        v.check('assignment-does-not-raise', out.exc is None)
        if out.exc is not None:
            return
        if extra is not None:
            dt, post = extra
            post()
            if len(dt.rendered) != 1:
                return
            want = dt.rendered[0]
        E = H.put(key, want)
        H1 = map_of(v, resp)
        v.check('frame-at-any-other-key', H1.same_at(E, other))
        v.check('stores-the-transformed-value-under-its-fixed-lower-case-name-and-nothing-else', H1.eq(E))
        v.cover('set')
    elif op == 2:
        out = attr_op(v, 'set', resp, attr, None)
        E = H.delete(key)
        H1 = map_of(v, resp)
        v.check('none-deletes-without-error', out.exc is None)
        v.check('frame-at-any-other-key', H1.same_at(E, other))
        v.check('none-deletes-its-header-and-nothing-else', H1.eq(E))
        v.cover('set-none')
    else:
        out = attr_op(v, 'del', resp, attr)
        E = H.delete(key)
        H1 = map_of(v, resp)
        if H.has(key):
            v.check('del-does-not-raise-when-present', out.exc is None)
        v.check('frame-at-any-other-key', H1.same_at(E, other))
        v.check('del-deletes-its-header-and-nothing-else', H1.eq(E))
        v.cover('del')
    v.check('extra-lines-and-cookies-untouched', untouched(v, resp, X, X0, None))


for _attr in TYPED:
    harness(PROP, RESP + '.' + _attr, name='typed_property[%s]' % _attr, setup=_prop_setup, attr=_attr,
            inline=[HELP + ':_format_*', 'falcon.util.misc:dt_to_http'])(_typed_property)


# ---------------------------------------------------------------------------
# emission: the header list handed to the server


@stubclass
class Morsel:
    """http.cookies.Morsel as far as falcon uses it: item assignment of attributes, OutputString()."""

    def __init__(self, v, key, value, label):
        self.v = v
        self.key = key
        self.value = value
        self.attrs = {}     # lower-case attribute -> value, as Morsel.__setitem__ stores it
        self.writes = []    # every attribute assignment, in order
        self.sets = 1       # how often jar[key] = ... was executed for this morsel
        self.out = v.str(label + '_output')  # what OutputString() renders: opaque

    def __setitem__(self, k, val):
        self.writes.append((k, val))
        self.attrs[k.lower()] = val

    def OutputString(self, attrs=None):
        return self.out


@stubclass
class Jar:
    """http.cookies.SimpleCookie as far as falcon uses it: jar[name] = value, jar[name][attr] = x, values().

    Like the stdlib class, assigning to an existing name re-uses that name's Morsel (its attributes stay).
    """

    def __init__(self, v):
        self.v = v
        self.entries = []
        self.reject_next_key = False

    def _find(self, name):
        for m in self.entries:
            if m.key is name:
                return m
        for m in self.entries:
            if m.key == name:  # forks on symbolic names
                return m
        return None

    def __setitem__(self, name, value):
        if self.reject_next_key:
            self.v.ctx.raise_py(self.v.real('http.cookies:CookieError'), 'Illegal key %r' % (name,))
        m = self._find(name)
        if m is None:
            self.entries.append(Morsel(self.v, name, value, 'cookie%d' % len(self.entries)))
        else:
            m.value = value
            m.sets += 1

    def __getitem__(self, name):
        m = self._find(name)
        if m is None:
            self.v.ctx.raise_py(KeyError, name)
        return m

    def pop(self, name, *default):
        """dict.pop: remove the name's Morsel (a later assignment starts from a fresh one)."""
        m = self._find(name)
        if m is None:
            if default:
                return default[0]
            self.v.ctx.raise_py(KeyError, name)
        self.entries.remove(m)
        return m

    def values(self):
        return list(self.entries)

    # SimpleCookie is a dict: truth value = non-empty, `name in jar`, len(jar), iteration over the names
    def __pyvc_truth__(self):
        return len(self.entries) > 0

    def __contains__(self, name):
        return self._find(name) is not None

    def __len__(self):
        return len(self.entries)

    def __iter__(self):
        return iter([m.key for m in self.entries])

    def keys(self):
        return [m.key for m in self.entries]

    def get(self, name, default=None):
        m = self._find(name)
        return default if m is None else m


def cookie_jar(v, label='jar'):
    """Pre-state of _cookies: None or a jar holding 0..2 cookies.  -> (jar, function giving the expected Set-Cookie values)."""
    k = v.choose(4, label + '-shape')
    if k == 0:
        return None, (lambda: [])
    if v.concrete:
        from http.cookies import SimpleCookie

        jar = SimpleCookie()
        for i in range(k - 1):
            jar['c%d' % i] = 'v%d' % i
        return jar, (lambda: [m.OutputString() for m in jar.values()])
    jar = Jar(v)
    for i in range(k - 1):
        m = Morsel(v, v.str('cookie_name_%d' % i), v.str('cookie_value_%d' % i), 'cookie%d' % i)
        for m0 in jar.entries:
            v.assume(m0.key != m.key)  # a jar holds each name once
        jar.entries.append(m)
    entries = list(jar.entries)
    return jar, (lambda: [m.out for m in entries])


def jar_untouched(v, resp, jar, outs0):
    j1 = v.get(resp, '_cookies')
    if jar is None:
        return j1 is None
    if v.concrete:
        return j1 is jar and [m.OutputString() for m in jar.values()] == outs0
    return j1 is jar and len(jar.entries) == len(outs0) and all(m.writes == [] and m.sets == 1 for m in jar.entries)


def flatten(segments):
    out = []
    for seg in segments:
        if not isinstance(seg, list):
            return None
        out.extend(seg)
    return out


def _emission_world(v, keys):
    other = v.str('other_key')
    hdrs, H = header_map(v, keys + [other])
    X = extra_lines(v)
    X0 = None if X is None else list(X)
    jar, outs = cookie_jar(v)
    outs0 = outs()
    mk = v.choose(3, 'media-type')
    mt = None if mk < 2 else v.str('media_type')
    return other, hdrs, H, X, X0, jar, outs0, mk, mt


@harness(PROP, RESP + '._wsgi_headers', setup=_setup)
def wsgi_headers(v):
    from pyvc.core import SDictItems, SegList

    other, hdrs, H, X, X0, jar, outs0, mk, mt = _emission_world(v, ['content-type'])
    resp = mk_resp(v, hdrs, X, jar)
    out = v.call(resp) if mk == 0 else v.call(resp, mt)
    v.check('no-exception', out.exc is None)
    if out.exc is not None:
        return
    if mt is not None and not H.has('content-type'):
        E = H.put('content-type', mt)
        v.cover('default-content-type-added')
    else:
        E = H
        v.cover('explicit-or-no-content-type')
    want_tail = list(X0 or []) + [(SC, o) for o in outs0]
    r = out.value
    if v.concrete:
        n = len(E.raw)
        ok = isinstance(r, list) and len(r) >= n
        v.check('plain-headers-come-first-as-the-items-of-the-map', ok)
        if not ok:
            return
        v.check('default-content-type-only-when-absent-never-overrides', dict(r[:n]).get('content-type') == E.raw.get('content-type'))
        v.check('each-plain-header-exactly-once-at-any-key', r[:n] == list(E.raw.items()))
        v.check('then-the-raw-lines-then-one-set-cookie-line-per-cookie', r[n:] == want_tail)
    else:
        ok = isinstance(r, SegList) and len(r.segments) >= 1 and isinstance(r.segments[0], SDictItems)
        v.check('plain-headers-come-first-as-the-items-of-the-map', ok)
        if not ok:
            return
        v.check('default-content-type-only-when-absent-never-overrides', mk_bool(r.segments[0].arr == E.raw))
        v.check('each-plain-header-exactly-once-at-any-key', Map(r.segments[0].arr).same_at(E, other))
        tail = flatten(r.segments[1:])
        v.check('then-the-raw-lines-then-one-set-cookie-line-per-cookie', tail is not None and pairs_eq(tail, want_tail))
    H1 = map_of(v, resp)
    v.check('emission-changes-the-map-only-by-the-default-content-type', H1.eq(E))
    v.check('raw-lines-and-cookie-jar-untouched', And(v.get(resp, '_extra_headers') is X, True if X is None else pairs_eq(X, X0), jar_untouched(v, resp, jar, outs0)))
    v.check('set-cookie-never-among-the-plain-headers', Not(H1.has(SC)))
    v.cover('emitted')


# --- ASGI -----------------------------------------------------------------------------


def _re_range(hi):
    return z3.Star(z3.Range(z3.StringVal(chr(0)), z3.StringVal(chr(hi))))


def _unicode_encode_error(codec):
    a = (codec, '', 0, 1, 'ordinal not in range')
    return ExcVal(UnicodeEncodeError, a, real=UnicodeEncodeError(*a))


def codec_model(ctx, direction, s, enc, errors):
    """str.encode('ascii' | 'latin-1') with errors='strict': same code points, UnicodeEncodeError outside the range."""
    from pyvc.core import Unreached

    e = enc.lower().replace('_', '-')
    e = {'latin1': 'latin-1', 'iso-8859-1': 'latin-1', 'us-ascii': 'ascii'}.get(e, e)
    if direction != 'encode' or errors != 'strict' or e not in ('ascii', 'latin-1'):
        raise Unreached('%s with codec %r has no model here' % (direction, enc))
    if ctx.branch(z3.Not(z3.InRe(s.t, _re_range(127 if e == 'ascii' else 255))), label=e + '-unencodable'):
        raise PyRaise(_unicode_encode_error(e))
    return SStr(s.t, 'bytes')


def in_range(x, hi):
    if isinstance(x, SStr):
        return mk_bool(z3.InRe(x.t, _re_range(hi)))
    return all(ord(c) <= hi for c in x)


def as_bytes(x):
    return SStr(x.t, 'bytes') if isinstance(x, SStr) else x.encode('latin-1')


class Latin1Items:
    """Result segment of the callee contract of _encode_items_to_latin1: the items of `arr`, names and values latin-1 encoded."""

    def __init__(self, arr):
        self.arr = arr


def _asgi_setup(reg, ex):
    from pyvc.core import SegList

    _setup(reg, ex)
    ex.codec_handler = codec_model

    def encode_items(I, data):
        # callee contract (proved by harness encode_items_to_latin1 for concrete key sets):
        # [(k.encode('latin-1'), v.encode('latin-1')) for k, v in data.items()], UnicodeEncodeError if any is outside latin-1
        if not isinstance(data, SDict):
            raise AssertionError('contract used with a symbolic map only')
        if I.ctx.choose(2, 'some-header-outside-latin-1'):
            raise PyRaise(_unicode_encode_error('latin-1'))
        return SegList([Latin1Items(data.arr)])

    ex._c15_encode_items = encode_items


def _asgi_setup_symbolic(reg, ex):
    _asgi_setup(reg, ex)
    reg.stubs['falcon.util.misc:_encode_items_to_latin1'] = ex._c15_encode_items


@harness(PROP, ARESP + '._asgi_headers', setup=_asgi_setup_symbolic)
def asgi_headers(v):
    """Arbitrary (symbolic) header map; _encode_items_to_latin1 replaced by its contract (the real function on replay)."""
    from pyvc.core import SegList

    other, hdrs, H, X, X0, jar, outs0, mk, mt = _emission_world(v, ['content-type'])
    for _, line in (X0 or []):
        v.assume(in_range(line, 127))
    for o in outs0:
        v.assume(in_range(o, 127))
    resp = mk_resp(v, hdrs, X, jar, cls=ARESP)
    out = v.call(resp) if mk == 0 else v.call(resp, mt)
    E = H.put('content-type', mt) if (mt is not None and not H.has('content-type')) else H
    H1 = map_of(v, resp)
    v.check('emission-changes-the-map-only-by-the-default-content-type', H1.eq(E))
    if v.concrete:
        unencodable = any(not in_range(k, 255) or not in_range(x, 255) for k, x in E.raw.items())
    else:
        unencodable = v.ctx.labels.count('some-header-outside-latin-1=1') == 1
    if out.exc is not None:
        v.check('only-a-header-outside-latin-1-fails-and-as-valueerror', out.exc.isa(ValueError) and not out.exc.isa(UnicodeError) and unencodable)
        v.cover('unencodable')
        return
    r = out.value
    want_tail = [(b'set-cookie', as_bytes(line)) for _, line in (X0 or [])] + [(b'set-cookie', as_bytes(o)) for o in outs0]
    if v.concrete:
        n = len(E.raw)
        ok = isinstance(r, list) and len(r) >= n and not unencodable
        v.check('plain-headers-come-first-latin-1-encoded-items-of-the-map', ok)
        if not ok:
            return
        want_plain = [(as_bytes(k), as_bytes(x)) for k, x in E.raw.items()]
        v.check('default-content-type-only-when-absent-never-overrides', dict(r[:n]).get(b'content-type') == dict(want_plain).get(b'content-type'))
        v.check('each-plain-header-exactly-once-at-any-key', r[:n] == want_plain)
        v.check('then-the-raw-lines-then-one-set-cookie-line-per-cookie-as-lower-case-bytes', r[n:] == want_tail)
    else:
        ok = isinstance(r, SegList) and len(r.segments) >= 1 and isinstance(r.segments[0], Latin1Items)
        v.check('plain-headers-come-first-latin-1-encoded-items-of-the-map', ok)
        if not ok:
            return
        v.check('default-content-type-only-when-absent-never-overrides', mk_bool(r.segments[0].arr == E.raw))
        v.check('each-plain-header-exactly-once-at-any-key', Map(r.segments[0].arr).same_at(E, other))
        tail = flatten(r.segments[1:])
        v.check('then-the-raw-lines-then-one-set-cookie-line-per-cookie-as-lower-case-bytes', tail is not None and pairs_eq(tail, want_tail))
    v.check('raw-lines-and-cookie-jar-untouched', And(v.get(resp, '_extra_headers') is X, True if X is None else pairs_eq(X, X0), jar_untouched(v, resp, jar, outs0)))
    v.cover('emitted')


SMALL_KEYS = ['x-custom', 'content-type']


def small_map(v, label='H'):
    """A header map with CONCRETE lower-case keys (a subset of SMALL_KEYS, both orders) and symbolic values."""
    k = v.choose(5, label + '-keys')
    keys = [[], ['x-custom'], ['content-type'], ['x-custom', 'content-type'], ['content-type', 'x-custom']][k]
    return {key: v.str('%s_%s' % (label, key.replace('-', '_'))) for key in keys}


@harness(PROP, 'falcon.util.misc:_encode_items_to_latin1', setup=_asgi_setup)
def encode_items_to_latin1(v):
    d = small_map(v)
    d0 = dict(d)
    out = v.call(d)
    bad = Or(*[Not(in_range(val, 255)) for val in d0.values()]) if d0 else False
    if bad:
        v.check('outside-latin-1-raises-unicodeencodeerror', out.exc is not None and out.exc.isa(UnicodeEncodeError))
        v.cover('unencodable')
        return
    v.check('no-exception', out.exc is None)
    if out.exc is None:
        v.check('each-item-once-in-order-as-latin-1-bytes', pairs_eq(out.value, [(as_bytes(k), as_bytes(val)) for k, val in d0.items()]))
        v.check('argument-untouched', list(d.keys()) == list(d0.keys()) and all(d[k] is d0[k] for k in d0))
        v.cover('encoded')


@harness(PROP, ARESP + '._asgi_headers', name='asgi_headers_small', setup=_asgi_setup, inline=['falcon.util.misc:_encode_items_to_latin1'])
def asgi_headers_small(v):
    """End to end (real _encode_items_to_latin1) for maps with concrete keys and symbolic values."""
    d = small_map(v)
    d0 = dict(d)
    X = extra_lines(v)
    X0 = None if X is None else list(X)
    jar, outs = cookie_jar(v)
    outs0 = outs()
    for _, line in (X0 or []):
        v.assume(in_range(line, 127))
    for o in outs0:
        v.assume(in_range(o, 127))
    mk = v.choose(3, 'media-type')
    mt = None if mk < 2 else v.str('media_type')
    resp = mk_resp(v, d, X, jar, cls=ARESP)
    out = v.call(resp) if mk == 0 else v.call(resp, mt)
    E = dict(d0)
    if mt is not None and 'content-type' not in E:
        E['content-type'] = mt
    bad = Or(*[Not(in_range(val, 255)) for val in E.values()]) if E else False
    if bad:
        v.check('a-header-outside-latin-1-raises-valueerror', out.exc is not None and out.exc.isa(ValueError) and not out.exc.isa(UnicodeError))
        v.cover('unencodable')
        return
    v.check('no-exception', out.exc is None)
    if out.exc is not None:
        return
    want = [(as_bytes(k), as_bytes(val)) for k, val in E.items()]
    want += [(b'set-cookie', as_bytes(line)) for _, line in (X0 or [])] + [(b'set-cookie', as_bytes(o)) for o in outs0]
    v.check('each-plain-header-exactly-once-lower-case-bytes-then-raw-lines-then-one-line-per-cookie', pairs_eq(out.value, want))
    v.check('names-are-lower-case-bytes', all(isinstance(n, bytes) and n == n.lower() for n, _ in out.value) if isinstance(out.value, list) else False)
    d1 = v.get(resp, '_headers')
    v.check('emission-changes-the-map-only-by-the-default-content-type', d1 is d and list(d1.keys()) == list(E.keys()) and And(*[d1[k] == E[k] for k in E]))
    v.cover('emitted')


# ---------------------------------------------------------------------------
# cookies: set_cookie / unset_cookie over a recording cookie jar

SAMESITE = {'lax': 'Lax', 'strict': 'Strict', 'none': 'None'}


def _cookie_setup(reg, ex):
    from http import cookies

    _setup(reg, ex)
    ex.codec_handler = codec_model
    # three evaluated facts of str.capitalize (the function stays uninterpreted elsewhere)
    ex.str_axioms['capitalize'] = lambda s, r, f: [f(z3.StringVal(k)) == z3.StringVal(k.capitalize()) for k in SAMESITE]
    reg.add_model(cookies.SimpleCookie, lambda I, *a: _new_jar(I))
    reg.inline.add(HELP + ':_is_ascii_encodable')


def _legal_key_re():
    """http.cookies._LegalChars: one or more of the ASCII letters, digits and !#$%&'*+-.^_`|~:"""
    R = lambda a, b: z3.Range(z3.StringVal(a), z3.StringVal(b))  # noqa: E731
    chars = [R('a', 'z'), R('A', 'Z'), R('0', '9')] + [z3.Re(z3.StringVal(c)) for c in "!#$%&'*+-.^_`|~:"]
    return z3.Plus(z3.Union(*chars))


def _new_jar(I):
    jar = Jar(I.ctx.ghost['v'])
    jar.reject_next_key = I.ctx.ghost.get('reject-key', False)
    I.ctx.ghost['created-jar'] = jar
    return jar


@stubclass
class Options:
    def __init__(self, secure_cookies_by_default):
        self.secure_cookies_by_default = secure_cookies_by_default


def morsels(v, jar):
    """Observation of a jar (stub or the real SimpleCookie on replay): [(name, value, {attribute: value actually set})]."""
    if jar is None:
        return []
    if isinstance(jar, Jar):
        # like Morsel.OutputString, an attribute holding the empty string is not emitted
        return [(m.key, m.value, {k: x for k, x in m.attrs.items() if not (isinstance(x, str) and x == '')}) for m in jar.entries]
    return [(m.key, m.value, {k: x for k, x in m.items() if not (isinstance(x, str) and x == '')}) for m in jar.values()]


def attrs_eq(got, want):
    if sorted(got) != sorted(want):
        return False
    conj = []
    for k in want:
        g, w = got[k], want[k]
        if isinstance(w, bool) or isinstance(g, bool):
            if g is not w:
                return False
        else:
            conj.append(g == w)
    return And(*conj) if conj else True


def prior_jar(v, kind, name):
    """0: no jar yet; 1: a jar holding another cookie; 2: a jar already holding this name, with attributes from an earlier call."""
    if kind == 0:
        return None, None
    if v.concrete:
        from http.cookies import SimpleCookie

        jar = SimpleCookie()
        if kind == 1:
            jar['zz-other'] = 'kept'
            jar['zz-other']['path'] = '/kept'
            v.assume(name != 'zz-other')
        else:
            jar[name] = 'stale'
            jar[name]['domain'] = 'stale.example'
            jar[name]['max-age'] = 99
        return jar, morsels(v, jar)
    jar = Jar(v)
    if kind == 1:
        on = v.str('other_cookie_name')
        v.assume(on != name)
        m = Morsel(v, on, v.str('other_cookie_value'), 'other_cookie')
        m.attrs['path'] = v.str('other_cookie_path')
    else:
        m = Morsel(v, name, v.str('stale_value'), 'stale_cookie')
        m.attrs['domain'] = v.str('stale_domain')
        m.attrs['max-age'] = 99
    jar.entries.append(m)
    return jar, morsels(v, jar)


def find_cookie(v, ms, name):
    for m in ms:
        if m[0] is name:
            return m
    for m in ms:
        if m[0] == name:
            return m
    return None


def others_untouched(v, before, after, name):
    b = [m for m in (before or []) if m[0] is not name and not (v.concrete and m[0] == name)]
    a = [m for m in after if m[0] is not name and not (v.concrete and m[0] == name)]
    if len(a) != len(b):
        return False
    return And(*[And(x[0] == y[0], x[1] == y[1], attrs_eq(x[2], y[2])) for x, y in zip(a, b)]) if a else True


def cookie_inputs(v):
    """The arguments of set_cookie."""
    a = {}
    ek = pick(v, 'expires', 3)
    a['expires'] = None if ek == 0 else GhostDT(v, None if ek == 1 else v.real('datetime:timezone')(v.real('datetime:timedelta')(hours=2)), 'expires')
    mk = pick(v, 'max_age', 6)  # 0 absent, 1 any int, 2 float, 3 str, 4 zero, 5 any non-zero int
    a['max_age'] = [None, None, 3.7, '15', 0, None][mk] if mk not in (1, 5) else v.int('max_age')
    if mk == 5:
        v.assume(a['max_age'] != 0)
    for k in ('domain', 'path'):
        a[k] = v.str(k) if pick(v, k + '?', 2) else None
    sk = pick(v, 'secure', 3)
    a['secure'] = [None, True, False][sk]
    a['http_only'] = bool(pick(v, 'http_only', 2))
    ssk = pick(v, 'same_site', 7)
    a['same_site'] = [None, None, 'Lax', 'STRICT', 'none', 'bogus', ''][ssk] if ssk != 1 else v.str('same_site')
    a['partitioned'] = bool(pick(v, 'partitioned', 2))
    return a


def _set_cookie(v):
    if v.hdef.opts.get('fixed_name'):
        name, value = v.hdef.opts['fixed_name']
    else:
        name, value = v.str('name'), v.str('value')
    a = cookie_inputs(v)
    # the app option varies independently of the argument: an explicit secure=True / False must win over either setting
    default_secure = bool(v.choose(2, 'secure_cookies_by_default'))
    jk = pick(v, 'jar', 3)
    # whether the jar accepts the name is decided by the stdlib's legal-key set (http.cookies._is_legal_key)
    reject = bool(jk != 2 and pick(v, 'jar-rejects-the-name', 2))
    if v.concrete:
        from http.cookies import _is_legal_key

        if name.isascii() or jk == 2:
            v.assume(reject == (not _is_legal_key(name)))
    elif isinstance(name, SStr):
        legal = mk_bool(z3.InRe(name.t, _legal_key_re()))
        v.assume(Implies(in_range(name, 127), Iff(reject, Not(legal))))
        if jk == 2:
            v.assume(legal)
    jar, before = prior_jar(v, jk, name)
    if jar is not None and not v.concrete:
        jar.reject_next_key = reject
    other = v.str('other_key')
    hdrs, H = header_map(v, [other])
    X = extra_lines(v)
    X0 = None if X is None else list(X)
    resp = mk_resp(v, hdrs, X, jar, options=Options(default_secure))
    if not v.concrete:
        v.ctx.ghost['v'] = v
        v.ctx.ghost['reject-key'] = reject
    out = v.call(resp, name, value, **a)
    v.check('plain-headers-and-raw-lines-untouched', And(map_of(v, resp).eq(H), v.get(resp, '_extra_headers') is X, True if X is None else pairs_eq(X, X0)))
    jar1 = v.get(resp, '_cookies')
    after = morsels(v, jar1)
    if not in_range(name, 127):
        v.check('non-ascii-name-raises-keyerror', out.exc is not None and out.exc.isa(KeyError))
        v.check('rejected-cookie-leaves-the-jar-untouched', jar1 is jar and others_untouched(v, before, after, None))
        v.cover('non-ascii-name')
        return
    if not in_range(value, 127):
        v.check('non-ascii-value-raises-valueerror', out.exc is not None and out.exc.isa(ValueError))
        v.check('rejected-cookie-leaves-the-jar-untouched', jar1 is jar and others_untouched(v, before, after, None))
        v.cover('non-ascii-value')
        return
    if reject:
        v.check('name-the-jar-rejects-raises-keyerror', out.exc is not None and out.exc.isa(KeyError) and not out.exc.isa(v.real('http.cookies:CookieError')))
        v.check('rejected-cookie-is-not-in-the-jar', find_cookie(v, after, name) is None)
        v.cover('illegal-name')
        return
    # ---- the attribute table, from the statement --------------------------------------------------
    want = {}
    ss = a['same_site']
    if ss is not None and Len(ss) > 0:
        low = lower(ss)
        if Or(*[low == k for k in SAMESITE]):
            if isinstance(low, str):
                want['samesite'] = SAMESITE[low]
            else:
                want['samesite'] = low.capitalize()
        else:
            v.check('invalid-samesite-raises-valueerror', out.exc is not None and out.exc.isa(ValueError))
            v.cover('invalid-samesite')
            return
    v.check('no-exception', out.exc is None)
    if out.exc is not None:
        return
    dt = a['expires']
    if dt is not None:
        if dt.tzinfo is None:
            v.check('naive-expires-formatted-as-given', dt.formats == [HTTP_DATE_FMT] and dt.converted_to == [])
            src = dt
        else:
            v.check('aware-expires-converted-to-utc-then-formatted', dt.converted_to == [v.real('datetime:timezone').utc] and dt.formats == []
                    and dt.utc is not None and dt.utc.formats == [HTTP_DATE_FMT])
            src = dt.utc
        if src is None or len(src.rendered) != 1:
            return
        want['expires'] = src.rendered[0]
    ma = a['max_age']
    if ma is not None:
        if ma == 0:
            v.cover('max-age-zero')
            zero = True
        else:
            zero = False
            want['max-age'] = ma if not isinstance(ma, (float, str)) else int(ma)
    else:
        zero = False
    for k in ('domain', 'path'):
        if a[k] is not None and Len(a[k]) > 0:
            want[k] = a[k]
    if (default_secure if a['secure'] is None else a['secure']):
        want['secure'] = True
    if a['http_only']:
        want['httponly'] = True
    if a['partitioned']:
        want['partitioned'] = True
    mine = find_cookie(v, after, name)
    v.check('cookie-stored-under-its-name-with-its-value', mine is not None and And(mine[0] == name, mine[1] == value))
    if mine is None:
        return
    v.check('one-entry-per-cookie-name-others-untouched', And(len(after) == (len(before or []) + (0 if jk == 2 else 1)), others_untouched(v, before, after, name)))
    if isinstance(want.get('samesite'), SStr):
        got = mine[2].get('samesite')
        v.check('samesite-capitalised', got is not None and Or(*[And(lower(ss) == k, got == c) for k, c in SAMESITE.items()]))
    got = dict(mine[2])
    if zero:
        # `max_age=0` asks for Max-Age=0 (expire now); stated on its own so that the table below is not blurred by it
        v.check('max-age-zero-is-written', 'max-age' in got and got['max-age'] == 0)
        got.pop('max-age', None)
    if jk == 2:
        v.cover('re-set')
        v.check('re-set-cookie-carries-exactly-the-requested-attributes', attrs_eq(got, want))
    else:
        v.check('cookie-carries-exactly-the-requested-attributes', attrs_eq(got, want))
        v.cover('set')


_DEFAULTS = {'expires': [0], 'max_age': [0], 'domain?': [0], 'path?': [0], 'secure': [0], 'http_only': [1], 'same_site': [0], 'partitioned': [0],
             'jar': [0], 'jar-rejects-the-name': [0], 'X-shape': [0]}
SC_TARGET = RESP + '.set_cookie'
# every combination of the attribute arguments (samesite: absent / arbitrary string; max_age: absent / arbitrary non-zero int), split for parallel runs
for _ex in range(3):
    for _sec in range(3):
        harness(PROP, SC_TARGET, name='set_cookie[expires=%d,secure=%d]' % (_ex, _sec), setup=_cookie_setup, fixed_name=('sid', 'abc123'),
                only=dict(_DEFAULTS, **{'expires': [_ex], 'secure': [_sec], 'max_age': [0, 5], 'domain?': [0, 1], 'path?': [0, 1], 'http_only': [0, 1],
                                       'same_site': [0, 1], 'partitioned': [0, 1]}))(_set_cookie)
# samesite in concrete spellings (replayable), max_age coercions (float, str, zero), jar states (other cookie / same name again / rejected name)
harness(PROP, SC_TARGET, name='set_cookie[samesite-spellings]', setup=_cookie_setup, only=dict(_DEFAULTS, **{'same_site': [2, 3, 4, 5, 6], 'jar': [0, 1]}))(_set_cookie)
harness(PROP, SC_TARGET, name='set_cookie[max-age-coercion]', setup=_cookie_setup, only=dict(_DEFAULTS, **{'max_age': [1, 2, 3, 4]}))(_set_cookie)
harness(PROP, SC_TARGET, name='set_cookie[jar-states]', setup=_cookie_setup,
        only=dict(_DEFAULTS, **{'jar': [0, 1, 2], 'jar-rejects-the-name': [0, 1], 'X-shape': [0, 2], 'max_age': [0, 5], 'domain?': [0, 1]}))(_set_cookie)


@harness(PROP, RESP + '.unset_cookie', setup=_cookie_setup)
def unset_cookie(v):
    name = v.str('name')
    jk = v.choose(3, 'jar')
    if v.concrete:
        from http.cookies import _is_legal_key

        v.assume(bool(_is_legal_key(name)))
    else:
        v.assume(mk_bool(z3.InRe(name.t, _legal_key_re())))  # a name the jar accepts (see ASSUMPTIONS)
        v.ctx.ghost['v'] = v
    jar, before = prior_jar(v, jk, name)
    kw = {}
    sk = v.choose(2, 'samesite?')
    if sk:
        kw['samesite'] = v.str('samesite')
        v.assume(Len(kw['samesite']) > 0)
    for k in ('domain', 'path'):
        if v.choose(2, k + '?'):
            kw[k] = v.str(k)
    other = v.str('other_key')
    hdrs, H = header_map(v, [other])
    X = extra_lines(v)
    X0 = None if X is None else list(X)
    resp = mk_resp(v, hdrs, X, jar)
    out = v.call(resp, name, **kw)
    v.check('no-exception', out.exc is None)
    v.check('plain-headers-and-raw-lines-untouched', And(map_of(v, resp).eq(H), v.get(resp, '_extra_headers') is X, True if X is None else pairs_eq(X, X0)))
    if out.exc is not None:
        return
    after = morsels(v, v.get(resp, '_cookies'))
    mine = find_cookie(v, after, name)
    v.check('unset-cookie-is-in-the-jar-with-an-empty-value', mine is not None and And(mine[0] == name, mine[1] == ''))
    if mine is None:
        return
    v.check('one-entry-per-cookie-name-others-untouched', And(len(after) == (len(before or []) + (0 if jk == 2 else 1)), others_untouched(v, before, after, name)))
    want = {'expires': -1, 'samesite': kw.get('samesite', 'Lax')}
    for k in ('domain', 'path'):
        if k in kw and Len(kw[k]) > 0:
            want[k] = kw[k]
    got = mine[2]
    # Max-Age takes precedence over Expires (RFC 6265, 5.3 step 3): an expired cookie has Expires in the past and no Max-Age
    expired = 'expires' in got and got['expires'] == -1 and 'max-age' not in got
    if jk == 2:
        # a cookie set earlier in the same response (set_cookie(...); unset_cookie(...)): named separately
        v.cover('unset-after-set')
        v.check('unset-after-set-cookie-is-expired', expired)
        v.check('unset-after-set-cookie-carries-the-given-samesite-domain-path', And(*[k in got and got[k] == want[k] for k in want] or [True]))
    else:
        v.cover('unset')
        v.check('unset-cookie-is-expired', expired)
        v.check('unset-cookie-carries-exactly-expiry-samesite-domain-path', attrs_eq(got, want))


# ---------------------------------------------------------------------------
# append_link: the URI-bearing parts go through the encoders on every path

REL_CANARIES = ['http://example.com/ext-type', 'alternate http://example.com/ext-type']


def _append_link(v):
    samples = pick(v, 'uri-sample', 2) == 0
    target = URI_CANARY if samples else v.str('target')
    rk = pick(v, 'rel', 3)
    if rk == 0:
        rel = v.str('rel')
        v.assume(Not(rel.contains('//') if isinstance(rel, SStr) else ('//' in rel)))  # a registered relation type; extension relation types (URIs) are the concrete variants
        want_rel = rel
    else:
        rel = REL_CANARIES[rk - 1]
        want_rel = '"' + ' '.join(enc(v, 'uri.encode_check_escaped', r) for r in rel.split()) + '"'
    kw = {}
    want = '<' + enc(v, 'uri.encode_check_escaped', target) + '>; rel=' + want_rel
    if pick(v, 'title?', 2):
        kw['title'] = v.str('title')
        want = want + '; title="' + kw['title'] + '"'
    if pick(v, 'title_star?', 2):
        kw['title_star'] = (v.str('title_lang'), URI_CANARY if samples else v.str('title_text'))
        want = want + "; title*=UTF-8\'" + kw['title_star'][0] + "\'" + enc(v, 'uri.encode_value_check_escaped', kw['title_star'][1])
    if pick(v, 'type_hint?', 2):
        kw['type_hint'] = v.str('type_hint')
        want = want + '; type="' + kw['type_hint'] + '"'
    hk = pick(v, 'hreflang', 3)
    if hk == 1:
        kw['hreflang'] = v.str('hreflang')
        want = want + '; hreflang=' + kw['hreflang']
    elif hk == 2:
        kw['hreflang'] = [v.str('hreflang0'), v.str('hreflang1')]
        want = want + '; hreflang=' + kw['hreflang'][0] + '; hreflang=' + kw['hreflang'][1]
    if pick(v, 'anchor?', 2):
        kw['anchor'] = URI_CANARY if samples else v.str('anchor')
        want = want + '; anchor="' + enc(v, 'uri.encode_check_escaped', kw['anchor']) + '"'
    ck = pick(v, 'crossorigin', 4)
    if ck:
        kw['crossorigin'] = [None, 'anonymous', 'Use-Credentials', 'bogus'][ck]
        want = want + [None, '; crossorigin', '; crossorigin="use-credentials"', ''][ck]
    xk = pick(v, 'link_extension', 3)
    if xk:
        kw['link_extension'] = [(v.str('ext_param%d' % i), v.str('ext_value%d' % i)) for i in range(xk)]
        want = want + '; ' + kw['link_extension'][0][0] + '=' + kw['link_extension'][0][1]
        if xk == 2:
            want = want + '; ' + kw['link_extension'][1][0] + '=' + kw['link_extension'][1][1]
    other = v.str('other_key')
    hdrs, H = header_map(v, ['link', other])
    X = extra_lines(v)
    X0 = None if X is None else list(X)
    resp = mk_resp(v, hdrs, X)
    out = v.call(resp, target, rel, **kw)
    H1 = map_of(v, resp)
    v.check('extra-lines-and-cookies-untouched', untouched(v, resp, X, X0, None))
    if ck == 3:
        v.check('unknown-crossorigin-raises-valueerror', out.exc is not None and out.exc.isa(ValueError))
        v.check('rejected-link-leaves-the-map-untouched', H1.eq(H))
        v.cover('bad-crossorigin')
        return
    v.check('no-exception', out.exc is None)
    if out.exc is not None:
        return
    if H.has('link'):
        E = H.put('link', H.val('link') + ', ' + want)
        v.cover('appended')
    else:
        E = H.put('link', want)
        v.cover('first-link')
    v.check('frame-at-any-other-key', H1.same_at(E, other))
    v.check('link-value-has-the-uri-parts-encoded-and-is-appended-comma-separated', And(H1.has('link'), H1.val('link') == E.val('link')))
    v.check('only-the-link-header-changes', H1.eq(E))


_LINK_DEFAULTS = {'X-shape': [0], 'uri-sample': [1]}
# concrete non-ASCII samples for the URI-bearing arguments first (the real encoders run: counter-models replay) ...
harness(PROP, RESP + '.append_link', name='append_link[samples]', setup=_prop_setup,
        only={'X-shape': [0], 'uri-sample': [0], 'title?': [0], 'type_hint?': [0], 'hreflang': [0], 'link_extension': [0]})(_append_link)
# ... then arbitrary strings, every combination of the optional arguments
for _rk in range(3):
    for _ck in range(4):
        harness(PROP, RESP + '.append_link', name='append_link[rel=%d,crossorigin=%d]' % (_rk, _ck), setup=_prop_setup,
                only=dict(_LINK_DEFAULTS, rel=[_rk], crossorigin=[_ck]))(_append_link)


KILLS = [
    # 0  name normalisation dropped in ONE method (set_header stores under the name as given)
    ('falcon/response.py',
     "        value = str(value)\n\n        # NOTE(kgriffs): normalize name by lowercasing it\n        name = name.lower()\n\n        if name == 'set-cookie':\n"
     "            raise HeaderNotSupported('This method cannot be used to set cookies')\n\n        self._headers[name] = value\n",
     "        value = str(value)\n\n        if name.lower() == 'set-cookie':\n"
     "            raise HeaderNotSupported('This method cannot be used to set cookies')\n\n        self._headers[name] = value\n",
     'Response.set_header#stores-str-of-value-under-the-lower-cased-name-and-nothing-else'),
    # 1  get_header looks the name up as given
    ('falcon/response.py',
     "        name = name.lower()\n\n        if name == 'set-cookie':\n            raise HeaderNotSupported('Getting Set-Cookie is not currently supported.')\n",
     "        if name.lower() == 'set-cookie':\n            raise HeaderNotSupported('Getting Set-Cookie is not currently supported.')\n",
     'Response.get_header#returns-the-value-stored-under-the-lower-cased-name'),
    # 2  Set-Cookie guard removed from delete_header
    ('falcon/response.py', "        if name == 'set-cookie':\n            raise HeaderNotSupported('This method cannot be used to remove cookies')\n\n", '',
     'Response.delete_header#set-cookie-cannot-be-deleted'),
    # 3  Set-Cookie guard removed from set_headers
    ('falcon/response.py', "            if name == 'set-cookie':\n                raise HeaderNotSupported('This method cannot be used to set cookies')\n\n            _headers[name] = value\n",
     "            _headers[name] = value\n", 'Response.set_headers#set-cookie-cannot-be-set-in-bulk'),
    # 3b set_headers keeps an existing value (first one wins): breaks the fold at an arbitrary index of an arbitrary-length iterable
    ('falcon/response.py', "                raise HeaderNotSupported('This method cannot be used to set cookies')\n\n            _headers[name] = value\n",
     "                raise HeaderNotSupported('This method cannot be used to set cookies')\n\n            _headers.setdefault(name, value)\n", 'Response.set_headers#inv:for#0:preserve'),
    # 4  append overwrites instead of joining
    ('falcon/response.py', "            if name in self._headers:\n                value = self._headers[name] + ', ' + value\n\n", '',
     'Response.append_header#joins-with-comma-space-when-present-else-stores-and-nothing-else'),
    # 5  frame: set_header also drops another header
    ('falcon/response.py', "            raise HeaderNotSupported('This method cannot be used to set cookies')\n\n        self._headers[name] = value\n\n    def delete_header",
     "            raise HeaderNotSupported('This method cannot be used to set cookies')\n\n        self._headers[name] = value\n        self._headers.pop('content-length', None)\n\n    def delete_header",
     'Response.set_header#frame-at-any-other-key'),
    # 6  the default content-type overrides an explicit one (WSGI emission)
    ('falcon/response.py', "        if media_type is not None and 'content-type' not in headers:\n            headers['content-type'] = media_type\n",
     "        if media_type is not None:\n            headers['content-type'] = media_type\n",
     'Response._wsgi_headers#default-content-type-only-when-absent-never-overrides'),
    # 7  cookies merged into one Set-Cookie line
    ('falcon/response.py', "            items += [('set-cookie', c.OutputString()) for c in self._cookies.values()]\n",
     "            items += [('set-cookie', ', '.join([c.OutputString() for c in self._cookies.values()]))]\n",
     'Response._wsgi_headers#then-the-raw-lines-then-one-set-cookie-line-per-cookie'),
    # 8  ASGI: cookie lines emitted with a capitalised name
    ('falcon/asgi/response.py', "                (b'set-cookie', c.OutputString().encode('ascii'))\n", "                (b'Set-Cookie', c.OutputString().encode('ascii'))\n",
     'Response._asgi_headers#then-the-raw-lines-then-one-set-cookie-line-per-cookie-as-lower-case-bytes'),
    # 9  ASGI: raw Set-Cookie lines forgotten
    ('falcon/asgi/response.py', "        if self._extra_headers:\n            items += [\n                (n.encode('ascii'), v.encode('ascii')) for n, v in self._extra_headers\n            ]\n", '',
     'Response._asgi_headers#then-the-raw-lines-then-one-set-cookie-line-per-cookie-as-lower-case-bytes'),
    # 10 a typed property writes a different header
    ('falcon/response.py', "    location: Optional[str] = _header_property(\n        'Location',\n", "    location: Optional[str] = _header_property(\n        'Content-Location',\n",
     'Response.location#stores-the-transformed-value-under-its-fixed-lower-case-name-and-nothing-else'),
    # 11 the factory forgets the transform
    ('falcon/response_helpers.py', '                self._headers[normalized_name] = transform(value)\n', '                self._headers[normalized_name] = str(value)\n',
     '_header_property#fset-applies-the-transform-exactly-once-to-the-value'),
    # 12 the factory stores under the name as given (not lower-cased)
    ('falcon/response_helpers.py', '    normalized_name = name.lower()\n', '    normalized_name = name\n',
     '_header_property#fset-stores-the-transformed-value-under-the-lower-case-name-and-nothing-else'),
    # 13 the app option for Secure is ignored
    # the ASCII fallback of a download filename lets Unicode letters through
    ('falcon/util/misc.py', "_UNSAFE_CHARS = re.compile(r'[^a-zA-Z0-9.-]')", "_UNSAFE_CHARS = re.compile(r'[^\\w.-]')", 'secure_filename#every-code-point-is-mapped-into-the-portable-ascii-filename-alphabet'),
    ('falcon/response.py', '        is_secure = self.options.secure_cookies_by_default if secure is None else secure\n', '        is_secure = True if secure is None else secure\n',
     'Response.set_cookie#cookie-carries-exactly-the-requested-attributes'),
    # 14 samesite is not validated
    ('falcon/response.py', "            if same_site not in _RESERVED_SAMESITE_VALUES:\n                raise ValueError(\n"
     "                    \"same_site must be set to either 'lax', 'strict', or 'none'\"\n                )\n\n", '',
     'Response.set_cookie#invalid-samesite-raises-valueerror'),
    # 15 max_age is not coerced to int
    ('falcon/response.py', "            self._cookies[name]['max-age'] = int(max_age)\n", "            self._cookies[name]['max-age'] = max_age\n",
     'Response.set_cookie#cookie-carries-exactly-the-requested-attributes'),
    # 16 an aware expires is formatted without converting to UTC
    ('falcon/response.py', "                gmt_expires = expires.astimezone(timezone.utc)\n", "                gmt_expires = expires\n",
     'Response.set_cookie#aware-expires-converted-to-utc-then-formatted'),
    # 17 unset_cookie does not expire the cookie
    ('falcon/response.py', "        self._cookies[name]['expires'] = -1\n", "        self._cookies[name]['expires'] = 3600\n",
     'Response.unset_cookie#unset-cookie-is-expired'),
    # 18 the Link anchor is emitted without URI encoding
    ('falcon/response.py', "            value += f'; anchor=\"{uri_encode(anchor)}\"'\n", "            value += f'; anchor=\"{anchor}\"'\n",
     'Response.append_link#link-value-has-the-uri-parts-encoded-and-is-appended-comma-separated'),
    # 19 a second link overwrites the first
    ('falcon/response.py', "            _headers['link'] += f', {value}'\n", "            _headers['link'] = value\n",
     'Response.append_link#link-value-has-the-uri-parts-encoded-and-is-appended-comma-separated'),
    # 20 non-ASCII download filenames are emitted raw
    ('falcon/response_helpers.py', "    if value.isascii():\n        return '%s; filename=\"%s\"' % (disposition_type, value)\n", "    if True:\n        return '%s; filename=\"%s\"' % (disposition_type, value)\n",
     'Response.downloadable_as#stores-the-transformed-value-under-its-fixed-lower-case-name-and-nothing-else'),
    # 21 a response constructed without options (Response() / options=None) no longer gets the default options (set_cookie would fail on resp.options)
    ('falcon/response.py', '        self.options = options if options is not None else ResponseOptions()\n', '        self.options = options  # type: ignore[assignment]\n',
     'Response.__init__#without-options-a-fresh-default-responseoptions-is-used'),
]
HARMLESS = [
    # locals renamed in set_header
    ('falcon/response.py',
     "        value = str(value)\n\n        # NOTE(kgriffs): normalize name by lowercasing it\n        name = name.lower()\n\n        if name == 'set-cookie':\n"
     "            raise HeaderNotSupported('This method cannot be used to set cookies')\n\n        self._headers[name] = value\n",
     "        key = name.lower()\n        text = str(value)\n\n        if key == 'set-cookie':\n"
     "            raise HeaderNotSupported('This method cannot be used to set cookies')\n\n        headers = self._headers\n        headers[key] = text\n"),
    # two independent attribute blocks of set_cookie swapped
    ('falcon/response.py', "        if domain:\n            self._cookies[name]['domain'] = domain\n\n        if path:\n            self._cookies[name]['path'] = path\n\n        is_secure",
     "        if path:\n            self._cookies[name]['path'] = path\n\n        if domain:\n            self._cookies[name]['domain'] = domain\n\n        is_secure"),
    # _wsgi_headers: setdefault-style rewrite of the default content-type
    ('falcon/response.py', "        if media_type is not None and 'content-type' not in headers:\n            headers['content-type'] = media_type\n",
     "        if media_type is not None:\n            if 'content-type' not in headers:\n                headers['content-type'] = media_type\n"),
]


# --- misc.secure_filename: the ASCII fallback of download filenames (callee contract of downloadable_as / viewable_as) ----------------
# The function is a per-character map after a normalisation that works code point by code point (NFKD decomposes each code point on its own;
# canonical reordering only permutes combining marks), so its output alphabet is decided by COMPLETE ENUMERATION of the 1,112,064 Unicode scalar
# values -- a finite decision, run natively on the real function, like the encoder tables of C10.


@harness(PROP, 'falcon.util.misc:secure_filename', name='secure_filename_alphabet')
def secure_filename_alphabet(v):
    if v.concrete:
        return
    import re as _re

    fn = v.real('falcon.util.misc:secure_filename')
    safe = _re.compile(r'[A-Za-z0-9._-]+\Z')
    bad, dotted = [], []
    for cp in range(0x110000):
        if 0xD800 <= cp <= 0xDFFF:
            continue
        ch = chr(cp)
        for text in (ch, 'a' + ch + 'b'):
            try:
                r = fn(text)
            except Exception as e:  # noqa: BLE001
                r = e
            if not isinstance(r, str) or safe.match(r) is None:
                bad.append((cp, repr(r)[:40]))
                break
            if r.startswith('.'):
                dotted.append(cp)
                break
        if len(bad) > 5:
            break
    v.check('every-code-point-is-mapped-into-the-portable-ascii-filename-alphabet', not bad, first=bad[:5])
    v.check('result-never-starts-with-a-dot', not dotted, first=dotted[:5])
    out = None
    try:
        fn('')
    except ValueError as e:
        out = e
    v.check('empty-name-raises-ValueError', isinstance(out, ValueError))
    v.cover('enumerated')


ASSUMPTIONS = [
    'str.lower is an uninterpreted total function str -> str shared by the program and the specification; the only fact assumed is idempotence '
    '(lower(lower(s)) == lower(s)), used for "keys stay lower-case"; for the concrete sample names the native value is linked to it by two evaluated facts',
    'class invariant of Response assumed in every pre-state and re-proved by every mutator: "set-cookie" is not a key of _headers, every key of _headers is '
    'lower-case, every raw line of _extra_headers is named "set-cookie"; base case Response.__init__ (harness response_starts_empty)',
    'header values are str (or int where the API documents it); other objects go through str() as the executor models it (str -> itself, int -> decimal digits)',
    'uri.encode_check_escaped / uri.encode_value_check_escaped / uri.encode_value and misc.secure_filename are opaque total functions str -> str '
    '(contract of C10: the output is ASCII and decodes back to the input); proved here: the encoder IS applied to target, anchor, title_star text, extension '
    'relation types, Location, Content-Location and the filename* part on every path, and nothing else is stored',
    'datetime: only tzinfo / strftime(fmt) / astimezone(tz) are used; strftime returns some non-empty str (the Expires / Last-Modified / cookie expires value IS '
    'that str, produced with the format "%a, %d %b %Y %H:%M:%S GMT"); that strftime renders the instant correctly is the stdlib contract',
    'http.cookies (stdlib, not proved): SimpleCookie()[name] = value creates a Morsel or re-uses the existing one of that name (its attributes stay), raises '
    'CookieError exactly for names outside http.cookies._LegalChars; Morsel[attr] = x stores x under the lower-cased attribute; values() yields the morsels in '
    'insertion order; OutputString() renders one morsel as some str (ASCII for the ASGI emission harnesses)',
    'three evaluated facts of str.capitalize: capitalize("lax") == "Lax", ("strict") == "Strict", ("none") == "None"',
    'str.encode("ascii" | "latin-1"): same code points as bytes, UnicodeEncodeError exactly when a code point is outside the range',
    'ASGI: appended raw Set-Cookie lines and rendered cookies are ASCII (a raw line with a latin-1 character makes _asgi_headers raise UnicodeEncodeError '
    'although the WSGI list accepts it and plain headers accept latin-1: not covered by the statement, see NOT_DECIDED)',
    'etag setter: the value is a non-empty str (resp.etag = "" raises IndexError in _format_etag_header)',
    'unset_cookie: the name is one the jar accepts (a CookieError for an illegal name is not translated by unset_cookie) and samesite, when given, is non-empty',
    'set_headers: proved for an iterable / mapping of ARBITRARY length by a loop contract (map == in-order fold F(i); the defining equation of the uninterpreted fold F is assumed at the visited index only); the variants with 0..3 CONCRETE pairs are kept because their counter-models replay natively',
    'Response.__init__ without options: ResponseOptions.__init__ runs from its source, the Handlers() table it creates is an opaque object (C11 / C12)',
    'inputs deliberately left at one value because the method under contract does not read them (they only appear in frame clauses): the cookie jar is None for '
    'the plain-header / typed-property / append_link / set_stream harnesses, the raw-line list is None for append_link / set_stream / headers, '
    'resp.options is absent for every method except set_cookie and __init__ (no other method of this chain reads it), resp.stream is None before set_stream',
]
NOT_DECIDED = [
    'set_headers[any-length]: a mapping argument is modelled as an object whose items() yields pairs (keys of a real mapping are pairwise distinct -- not assumed: the fold is right for repeated names too); termination of the loop',
    'the cross product of ALL set_cookie attribute arguments is explored for one concrete legal name/value ("sid", "abc123"); arbitrary names and values '
    '(non-ASCII -> KeyError/ValueError, names the jar rejects -> KeyError, jar already holding cookies) are explored in the variants jar-states, '
    'samesite-spellings and max-age-coercion where fewer attributes vary at a time',
    'a cookie echoed back in a Cookie header is read by the request API as the same name and value: request side (_parse_cookie_header, C09) and the rendering '
    'of Morsel.OutputString are stdlib / other properties; proved here is which name, value and attributes are written into the jar',
    'URI-bearing helpers: "pure ASCII and decodes back" is the contract of the encoders (C10); title, type_hint, hreflang, rel without "//" and link_extension '
    'are emitted as given (documented: use title_star for non-ASCII titles)',
    'append_link with an extension relation type given as an arbitrary symbolic string (rel containing "//"): two concrete samples instead '
    '(str.split on a symbolic string has no model here)',
    'set_cookie is not atomic: when same_site is invalid the ValueError is raised after the cookie and its other attributes were already written to the jar '
    '(the statement does not speak about the jar after a failed call)',
    'fdel of a typed property whose header is absent raises KeyError (not AttributeError): only "the map is unchanged" is stated for that case',
    '_asgi_headers over an arbitrary map uses the callee contract of _encode_items_to_latin1 (proved separately for maps with 0..2 concrete keys; '
    'end to end in asgi_headers_small); the Cython twin falcon/cyutil/misc.pyx is out of reach',
    'order of the plain headers in the emitted list (dict order) is not specified by the statement; stated: each key exactly once, before raw lines, before cookies',
]
TRUSTED = [
    'stub cookie jar (classes Jar, Morsel in contracts/C15_headers.py) substituted for http.cookies.SimpleCookie / Morsel in symbolic runs: records '
    'jar[name] = value and jar[name][attr] = x; replays use the real stdlib classes',
    'stubs GhostDT (datetime), Transform (arbitrary transform callable), Options (resp.options), Prop (what property(...) returns), Latin1Items / callee contract '
    'of _encode_items_to_latin1, codec_model (ascii / latin-1 strict) in contracts/C15_headers.py',
    'opaque encoders are substituted by uninterpreted functions through Registry.add_model on the real function objects (falcon.util.uri.encode_check_escaped, '
    'encode_value_check_escaped, encode_value) and a call-site stub for falcon.util.misc.secure_filename',
    'pyvc.core.SegList / SDictItems: list(d.items()) of a symbolic dict is kept as a concatenation of segments (dict semantics: each key exactly once)',
    'typed properties are reached through the executor\'s attribute lookup on the real class object: property -> nested fget/fset/fdel located in the current '
    'source of _header_property by name and first line, free variables (normalized_name, transform) taken from the real closure cells',
]
