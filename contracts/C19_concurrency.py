"""C19 -- concurrent requests do not influence one another (SUFFICIENT CONDITIONS only).

Contracts cannot enumerate thread schedules.  What is proved here are the
ownership / lock-discipline conditions that make interference impossible under
the stated assumptions (CPython executes attribute reads and writes atomically
and in program order; user callables keep no shared state):

 (1) lazy compilation (CompiledRouter._compile_and_find): `_compile()` runs only
     while the compile lock is held and only if the re-check
     `self._find == self._compile_and_find` still holds; `_find` is published
     inside the lock, after `_compile()` returned (so after the side tables are
     complete); the dispatch reads the tables after leaving the lock.
 (2) per-call freshness: CompiledRouter.find allocates its params dict per call
     (C01 contract), and no statement of the request path writes to an attribute
     of the router / app object or to a module global: frame conditions checked
     on the extracted AST of every function on that path (re-read from the
     current source on every run).
 (3) process-wide caches are memo tables of functions whose bodies have no side
     effects on shared state (frame condition on their AST), so a shared memo
     cannot change a result; the ASGI header-name cache maps a name to a pure
     function of the name.
"""
from __future__ import annotations

import ast

from pyvc.harness import harness, stubclass

PROP = 'C19'
RM = 'falcon.routing.compiled'
CR = RM + ':CompiledRouter'


@harness(PROP, CR + '._compile_and_find')
def lazy_compile_under_lock(v):
    if v.concrete:
        return
    log = []

    @stubclass
    class Lock:
        held = False

        def __enter__(self_):
            log.append('acquire')
            v.check('lock-not-reentered', not self_.held)
            self_.held = True
            # while this thread waited for the lock another thread may have finished compiling
            if v.choose(2, 'compiled-by-another-thread-meanwhile?') == 1:
                router._fields['_find'] = other_compiled
                state['raced'] = True
            return self_

        def __exit__(self_, *a):
            log.append('release')
            self_.held = False
            return False

    @stubclass
    class Compiled:
        def __init__(self_, tag):
            self_.tag = tag

        def __call__(self_, path, rv, pats, convs, params):
            log.append(('dispatch', self_.tag, lock.held, rv is tables['rv'], pats is tables['p'], convs is tables['c']))
            return 'NODE'

    state = {'raced': False}
    lock = Lock()
    other_compiled = Compiled('other')
    mine = Compiled('mine')
    tables = {'rv': [object()], 'p': [object()], 'c': [object()]}

    def compile_stub(I, self):
        log.append(('compile', lock.held))
        # the real _compile rebuilds the three side tables and returns the finder
        self._fields['_return_values'] = tables['rv'] = [object()]
        self._fields['_patterns'] = tables['p'] = [object()]
        self._fields['_converters'] = tables['c'] = [object()]
        return mine

    v.registry.stubs[CR + '._compile'] = compile_stub
    router = v.obj(CR, _compile_lock=lock, _return_values=tables['rv'], _patterns=tables['p'], _converters=tables['c'])
    # initial state: not yet compiled (_find is the bound lazy method)
    from pyvc.interp import BoundMethod

    lazy = v.interp.getattr(router, '_compile_and_find')
    router._fields['_find'] = lazy
    params = {}
    out = v.call(router, ['x'], None, None, None, params)
    v.check('no-exception', out.exc is None)
    compiles = [e for e in log if isinstance(e, tuple) and e[0] == 'compile']
    dispatches = [e for e in log if isinstance(e, tuple) and e[0] == 'dispatch']
    raced = state['raced']
    v.check('compile-only-while-holding-the-lock', all(e[1] for e in compiles))
    v.check('compile-at-most-once-and-skipped-when-already-compiled', len(compiles) == (0 if raced else 1))
    v.check('published-finder-is-a-compiled-one', router._fields['_find'] is (other_compiled if raced else mine))
    v.check('lock-released-before-dispatch', len(dispatches) == 1 and dispatches[0][2] is False and log.index('release') < log.index(dispatches[0]))
    v.check('dispatch-uses-the-current-side-tables', dispatches[0][3] and dispatches[0][4] and dispatches[0][5])
    v.check('dispatch-passes-the-callers-params', out.value == 'NODE')


# --- frame conditions on the extracted AST ------------------------------------------------------------


def _fn_node(v, target):
    mod, _, qn = target.partition(':')
    info = v.index.find(mod, qn)
    v.registry_touch(info)
    return info.node


def shared_writes(fn, self_names=('self',)):
    """Statements of `fn` (not nested defs' own locals) that store to an attribute of self / cls or declare globals."""
    bad = []
    for n in ast.walk(fn):
        targets = []
        if isinstance(n, ast.Assign):
            targets = n.targets
        elif isinstance(n, (ast.AugAssign, ast.AnnAssign)):
            targets = [n.target]
        elif isinstance(n, ast.Delete):
            targets = n.targets
        elif isinstance(n, (ast.Global, ast.Nonlocal)) and isinstance(n, ast.Global):
            bad.append('global ' + ', '.join(n.names))
        for t in targets:
            for sub in ast.walk(t):
                if isinstance(sub, ast.Attribute) and isinstance(sub.value, ast.Name) and sub.value.id in self_names and isinstance(sub.ctx, (ast.Store, ast.Del)):
                    bad.append('%s.%s' % (sub.value.id, sub.attr))
                if isinstance(sub, ast.Subscript) and isinstance(sub.ctx, (ast.Store, ast.Del)):
                    base = sub.value
                    if isinstance(base, ast.Attribute) and isinstance(base.value, ast.Name) and base.value.id in self_names:
                        bad.append('%s.%s[...]' % (base.value.id, base.attr))
    return bad


REQUEST_PATH = [
    'falcon.app:App.__call__', 'falcon.app:App._get_responder', 'falcon.app:App._handle_exception', 'falcon.app:App._get_body',
    'falcon.app:App._find_error_handler', 'falcon.app:App._compose_error_response', 'falcon.app:App._compose_status_response',
    'falcon.app:App._http_status_handler', 'falcon.app:App._http_error_handler', 'falcon.app:App._python_error_handler',
    'falcon.asgi.app:App.__call__', 'falcon.asgi.app:App._handle_exception', 'falcon.asgi.app:App._python_error_handler',
    RM + ':CompiledRouter.find',
]


@harness(PROP, 'falcon.app:App.__call__', name='request_path_writes_no_shared_state')
def request_path_frames(v):
    if v.concrete:
        return
    for target in REQUEST_PATH:
        fn = _fn_node(v, target)
        bad = shared_writes(fn)
        v.check('no-write-to-app-or-router-state:' + target.split(':')[1], not bad, writes=bad)
    # req / resp / params / dependent stack are allocated inside __call__
    for target in ('falcon.app:App.__call__', 'falcon.asgi.app:App.__call__'):
        fn = _fn_node(v, target)
        assigned = {}
        for n in ast.walk(fn):
            if isinstance(n, ast.Assign) and len(n.targets) == 1 and isinstance(n.targets[0], ast.Name):
                assigned.setdefault(n.targets[0].id, ast.unparse(n.value))
            if isinstance(n, ast.AnnAssign) and isinstance(n.target, ast.Name) and n.value is not None:
                assigned.setdefault(n.target.id, ast.unparse(n.value))
        def fresh(name, kinds):
            # "created per call": bound, inside __call__, to a display / constructor call that allocates a new object on every evaluation
            src = assigned.get(name, '')
            return any(src == k or (k.endswith('(') and src.startswith(k)) for k in kinds)

        v.check('request-object-is-created-per-call:' + target, fresh('req', ['self._request_type(']))
        v.check('response-object-is-created-per-call:' + target, fresh('resp', ['self._response_type(']))
        v.check('params-dict-is-created-per-call:' + target, fresh('params', ['{}', 'dict()']))
        v.check('dependent-response-stack-is-created-per-call:' + target, fresh('dependent_mw_resp_stack', ['[]', 'list()', 'deque()', 'collections.deque()']))
    # the lazy compile writes router state only inside the lock -- decided over _compile_and_find AND the private methods it calls on self
    # (so that moving the lock / re-check / compile into a helper method is neither missed nor reported): interprocedural, lexical lock scope
    tree = v.index.module(RM)[0]
    cls = next(n for n in tree.body if isinstance(n, ast.ClassDef) and n.name == 'CompiledRouter')
    methods = {n.name: n for n in cls.body if isinstance(n, (ast.FunctionDef, ast.AsyncFunctionDef))}
    v.registry_touch(v.index.find(RM, 'CompiledRouter._compile_and_find'))
    unlocked_writes, compile_calls, seen = [], [], set()

    def is_lock(w):
        return any(ast.unparse(it.context_expr) == 'self._compile_lock' for it in w.items)

    def visit(node, locked, owner):
        if isinstance(node, (ast.FunctionDef, ast.AsyncFunctionDef, ast.Lambda, ast.ClassDef)) and node is not methods.get(owner):
            return
        if isinstance(node, (ast.With, ast.AsyncWith)) and is_lock(node):
            for it in node.items:
                visit(it.context_expr, locked, owner)
            for st in node.body:
                visit(st, True, owner)
            return
        if isinstance(node, (ast.Assign, ast.AugAssign, ast.AnnAssign, ast.Delete)) and not locked:
            unlocked_writes.extend('%s: %s' % (owner, w) for w in shared_writes(ast.Module(body=[node], type_ignores=[])))
        if isinstance(node, ast.Call) and isinstance(node.func, ast.Attribute) and isinstance(node.func.value, ast.Name) and node.func.value.id == 'self':
            callee = node.func.attr
            if callee == '_compile':
                compile_calls.append((owner, locked))
            elif callee in methods and (callee, locked) not in seen:
                seen.add((callee, locked))
                for st in methods[callee].body:
                    visit(st, locked, callee)
        for ch in ast.iter_child_nodes(node):
            visit(ch, locked, owner)

    seen.add(('_compile_and_find', False))
    for st in methods['_compile_and_find'].body:
        visit(st, False, '_compile_and_find')
    v.check('router-state-written-only-inside-the-compile-lock', not unlocked_writes, writes=unlocked_writes)
    v.check('compile-is-guarded-by-self._compile_lock', len(compile_calls) >= 1 and all(lk for _, lk in compile_calls), calls=compile_calls)


PER_REQUEST_CLASSES = [
    'falcon.request:Request', 'falcon.asgi.request:Request', 'falcon.response:Response', 'falcon.asgi.response:Response',
    'falcon.stream:BoundedStream', 'falcon.asgi.stream:BoundedStream', 'falcon.media.multipart:BodyPart', 'falcon.media.multipart:MultipartForm',
    'falcon.asgi.multipart:BodyPart', 'falcon.asgi.multipart:MultipartForm', 'falcon.asgi.ws:WebSocket', 'falcon.asgi.ws:_BufferedReceiver',
    'falcon.util.reader:BufferedReader', 'falcon.asgi.reader:BufferedReader', 'falcon.forwarded:Forwarded', 'falcon.util.structures:Context',
]
_MUTABLE_FACTORIES = {'dict', 'list', 'set', 'defaultdict', 'OrderedDict', 'bytearray', 'deque', 'CaseInsensitiveDict', 'Context', 'SimpleCookie'}
# deliberate process-wide memo tables of pure functions of their key (see (3) in the module docstring)
_ALLOWED_SHARED = {('falcon.asgi.request:Request', 'get_header', '_name_cache')}


def _is_mutable_container(e):
    if isinstance(e, (ast.Dict, ast.List, ast.Set, ast.ListComp, ast.DictComp, ast.SetComp)):
        return True
    if isinstance(e, ast.Call):
        f = e.func
        name = f.id if isinstance(f, ast.Name) else (f.attr if isinstance(f, ast.Attribute) else '')
        return name in _MUTABLE_FACTORIES
    return False


@harness(PROP, 'falcon.request:Request.__init__', name='per_request_objects_own_their_mutable_state')
def per_request_state_is_per_instance(v):
    """A mutable container bound at class level (or as a default argument) is ONE object shared by every request of the process: whatever one
    request stores in it is observed by the others.  Objects created per request must allocate their containers per instance."""
    if v.concrete:
        return
    for target in PER_REQUEST_CLASSES:
        mod, _, cname = target.partition(':')
        tree = v.index.module(mod)[0]
        cls = next((n for n in tree.body if isinstance(n, ast.ClassDef) and n.name == cname), None)
        v.check('per-request-class-present:' + target, cls is not None)
        if cls is None:
            continue
        shared = []
        for st in cls.body:
            name = val = None
            if isinstance(st, ast.Assign):
                name, val = ast.unparse(st.targets[0]), st.value
            elif isinstance(st, ast.AnnAssign) and st.value is not None:
                name, val = ast.unparse(st.target), st.value
            if val is not None and name != '__slots__' and _is_mutable_container(val):
                shared.append('%s = %s' % (name, ast.unparse(val)[:40]))
            if isinstance(st, (ast.FunctionDef, ast.AsyncFunctionDef)):
                a = st.args
                pos = a.posonlyargs + a.args
                for arg, d in list(zip(pos[len(pos) - len(a.defaults):], a.defaults)) + [(k, d) for k, d in zip(a.kwonlyargs, a.kw_defaults) if d is not None]:
                    if _is_mutable_container(d) and (target, st.name, arg.arg) not in _ALLOWED_SHARED:
                        shared.append('%s(%s=%s)' % (st.name, arg.arg, ast.unparse(d)[:40]))
        v.check('no-mutable-container-shared-between-instances:' + target.split(':')[0].replace('falcon.', '') + '.' + cname, not shared, shared=shared)
    v.cover('classes-scanned')


# --- objects configured once and then shared by every request: their request-time methods write nothing on themselves -----------------------
#
# Route converters live in the router's side table, media handlers in the Handlers mapping, static routes / sinks in the app's tables,
# middleware in the prepared stacks: ONE instance serves all concurrent requests.  A request-time method that stores anything on `self`
# (a memo of "the last value", a scratch buffer, a counter) lets one request observe another.  Frame condition, decided on the extracted AST
# of every method of these classes except the configuration-time ones (classes are DISCOVERED in the module, so a new converter / handler is
# covered without touching this list).
SHARED_SERVICE_MODULES = {
    # module: (class filter, configuration-time methods that may write self)
    'falcon.routing.converters': (lambda cls: any(isinstance(n, (ast.FunctionDef, ast.AsyncFunctionDef)) and n.name == 'convert' for n in cls.body), {'__init__'}),
    'falcon.media.json': (lambda cls: cls.name.endswith(('Handler', 'HandlerWS')), {'__init__'}),
    'falcon.media.urlencoded': (lambda cls: cls.name.endswith('Handler'), {'__init__'}),
    'falcon.media.msgpack': (lambda cls: cls.name.endswith(('Handler', 'HandlerWS')), {'__init__'}),
    'falcon.media.multipart': (lambda cls: cls.name.endswith('Handler'), {'__init__'}),
    'falcon.media.base': (lambda cls: cls.name.endswith(('Handler', 'HandlerWS')), {'__init__'}),
    'falcon.routing.static': (lambda cls: cls.name.startswith('StaticRoute'), {'__init__'}),
    'falcon.middleware': (lambda cls: cls.name.endswith('Middleware'), {'__init__'}),
}


@harness(PROP, 'falcon.routing.converters:DateTimeConverter.convert', name='shared_service_objects_are_not_written_at_request_time')
def shared_services_frame(v):
    if v.concrete:
        return
    scanned = 0
    for mod, (want, config_time) in sorted(SHARED_SERVICE_MODULES.items()):
        try:
            tree = v.index.module(mod)[0]
        except KeyError:
            v.check('shared-service-module-present:' + mod, False)
            continue
        for cls in [n for n in tree.body if isinstance(n, ast.ClassDef) and want(n)]:
            for fn in [n for n in cls.body if isinstance(n, (ast.FunctionDef, ast.AsyncFunctionDef)) and n.name not in config_time]:
                try:
                    v.registry_touch(v.index.find(mod, cls.name + '.' + fn.name))
                except KeyError:
                    pass
                bad = shared_writes(fn, self_names=('self', 'cls'))
                v.check('request-time-method-writes-nothing-on-the-shared-object:%s.%s.%s' % (mod.replace('falcon.', ''), cls.name, fn.name), not bad, writes=bad)
                scanned += 1
    v.check('shared-service-classes-were-found', scanned >= 20, scanned=scanned)
    v.cover('services-scanned')


PURE_CACHED = [
    'falcon.util.misc:http_status_to_code', 'falcon.util.misc:code_to_http_status', 'falcon.util.mediatypes:_parse_media_ranges',
    'falcon.util.mediatypes:_parse_media_type_header' if False else 'falcon.util.mediatypes:_MediaType.parse', 'falcon.util.mediatypes:_MediaRange.parse',
    'falcon.asgi.ws:_supports_reason',
]


@harness(PROP, 'falcon.util.misc:code_to_http_status', name='process_wide_caches_memoise_pure_functions')
def caches_are_pure(v):
    if v.concrete:
        return
    for target in PURE_CACHED:
        try:
            fn = _fn_node(v, target)
        except KeyError:
            v.check('cached-function-present:' + target, False)
            continue
        bad = shared_writes(fn, self_names=('self', 'cls'))
        v.check('memoised-function-has-no-shared-side-effects:' + target.split(':')[1], not bad, writes=bad)
    # the resolver cached per Handlers instance reads self.data only (C11 proves cache coherence)
    fn = _fn_node(v, 'falcon.media.handlers:Handlers._create_resolver')
    v.check('handler-resolver-writes-no-shared-state', not shared_writes(fn))
    # ASGI Request.get_header keeps a process-wide name cache: value is a pure function of the key, bounded in size
    fn = _fn_node(v, 'falcon.asgi.request:Request.get_header')
    src = ast.unparse(fn)
    v.check('header-name-cache-maps-name-to-a-pure-function-of-the-name',
            "_name_cache[name] = asgi_name" in src and "asgi_name = name.lower().encode('latin1')" in src)


_CP = 'falcon/routing/compiled.py'
KILLS = [
    # the compile lock removed
    (_CP, "        with self._compile_lock:\n            if self._find == self._compile_and_find:\n", "        if True:\n            if self._find == self._compile_and_find:\n", '_compile_and_find#'),
    # the re-check inside the lock removed: a second thread compiles again while the first one's finder is in use
    (_CP, "        with self._compile_lock:\n            if self._find == self._compile_and_find:\n", "        with self._compile_lock:\n            if True:\n",
     'compile-at-most-once-and-skipped-when-already-compiled'),
    # stale side tables handed to the finder
    (_CP, "        return self._find(\n            path, self._return_values, self._patterns, self._converters, params\n        )\n\n\n_NO_CHILDREN_ERR",
     "        return self._find(path, _return_values, _patterns, _converters, params)\n\n\n_NO_CHILDREN_ERR", 'dispatch-uses-the-current-side-tables'),
    # a per-request container hoisted to class level (the file's own "fall back to class variable(s) when unset" idiom applied to a dict)
    ('falcon/asgi/request.py', "    _cached_uri: Optional[str] = None\n", "    _cached_uri: Optional[str] = None\n    _params: dict = {}\n",
     'no-mutable-container-shared-between-instances:asgi.request.Request'),
    # request state stored on the app object
    ('falcon/app.py', "        req_succeeded = False\n\n        try:\n            if req.method in self._META_METHODS:", "        req_succeeded = False\n        self._last_request = req\n\n        try:\n            if req.method in self._META_METHODS:",
     'no-write-to-app-or-router-state:App.__call__'),
    # a converter remembers its last conversion in two attributes (a "PERF" memo): one request can be handed another request's value
    ('falcon/routing/converters.py', "        try:\n            return strptime(value, self._format_string)\n        except ValueError:\n            return None\n",
     "        try:\n            self._last = strptime(value, self._format_string)\n        except ValueError:\n            return None\n        return self._last\n",
     'request-time-method-writes-nothing-on-the-shared-object:routing.converters.DateTimeConverter.convert'),
    # params dict hoisted to the router
    (_CP, "        params: Dict[str, Any] = {}\n        node: Optional[CompiledRouterNode] = self._find(", "        self._params: Dict[str, Any] = {}\n        params = self._params\n        node: Optional[CompiledRouterNode] = self._find(",
     'no-write-to-app-or-router-state:CompiledRouter.find'),
]

ASSUMPTIONS = [
    'CPython executes attribute reads/writes atomically under the GIL and in program order; threading.Lock is a mutual-exclusion lock',
    'functools.lru_cache is thread-safe; user callables (responders, middleware, handlers) keep no shared mutable state',
]
NOT_DECIDED = [
    'the serialisability statement itself: thread interleavings are NOT explored (no thread model); only the sufficient conditions above are proved',
    'ASGI task interleavings inside user code; races with a concurrent add_route (compile=True publishes without the lock)',
]
TRUSTED = ['the list SHARED_SERVICE_MODULES of modules whose classes are shared between requests (classes inside them are discovered, modules are not)', 'syntactic frame scan shared_writes() in contracts/C19_concurrency.py (attribute/subscript stores on self/cls, global statements)']
