"""C20 -- the built-in CORS policy grants exactly the configured origins.

Contracts on falcon/middleware.py: CORSMiddleware.__init__ (configuration normal
form) and process_response (full decision table over the abstract header map,
with frame: every header not named by the policy is unchanged).  The response is
the real falcon.Response whose header methods are executed from their source
(inlined) over a symbolic map String -> Option String.
"""
from __future__ import annotations

import z3

from pyvc.core import And, Iff, Implies, Ite, Len, Not, Or, SDict, Store, opt_sort, mk_bool, _s, is_sym
from pyvc.harness import harness, stubclass

PROP = 'C20'
M = 'falcon.middleware'
CM = M + ':CORSMiddleware'
RESP = 'falcon.response:Response'

ACAO = 'access-control-allow-origin'
ACAC = 'access-control-allow-credentials'
ACEH = 'access-control-expose-headers'
ACAM = 'access-control-allow-methods'
ACAH = 'access-control-allow-headers'
ACMA = 'access-control-max-age'
ALLOW = 'allow'
KEYS = [ACAO, ACAC, ACEH, ACAM, ACAH, ACMA, ALLOW]
GRANTS = [ACAO, ACAC, ACEH, ACAM, ACAH, ACMA]

INLINE = [RESP + '.get_header', RESP + '.set_header', RESP + '.delete_header']


# --- a tiny functional map API that works on SMT arrays and on python dicts -------


class Map:
    """Immutable view used by the specification side."""

    def __init__(self, raw):
        self.raw = raw  # z3 array term or python dict

    @property
    def sym(self):
        return not isinstance(self.raw, dict)

    def put(self, k, val):
        if self.sym:
            return Map(Store(self.raw, k, val))
        d = dict(self.raw)
        d[k] = val
        return Map(d)

    def delete(self, k):
        if self.sym:
            return Map(Store(self.raw, k, None))
        d = dict(self.raw)
        d.pop(k, None)
        return Map(d)

    def has(self, k):
        if self.sym:
            return mk_bool(opt_sort().is_some(z3.Select(self.raw, _s(k))))
        return k in self.raw

    def val(self, k):
        if self.sym:
            from pyvc.core import mk_str

            return mk_str(opt_sort().val(z3.Select(self.raw, _s(k))), 'str')
        return self.raw.get(k, '')

    def eq(self, other):
        if self.sym:
            return mk_bool(self.raw == other.raw)
        return self.raw == other.raw


def header_map(v, keys, base='H'):
    """An arbitrary header map; its entries at `keys` are named so that counter-models replay."""
    if v.concrete:
        d = {}
        for k in keys:
            p = v.bool('%s_has_%s' % (base, k))
            s = v.str('%s_val_%s' % (base, k))
            if p:
                d[k] = s
        return d, Map(dict(d))
    sd = SDict.fresh(v.ctx, base)
    O = opt_sort()
    for k in keys:
        p = v.bool('%s_has_%s' % (base, k))
        s = v.str('%s_val_%s' % (base, k))
        sel = z3.Select(sd.arr, _s(k))
        v.assume(mk_bool(z3.If(p.t, sel == O.some(s.t), sel == O.none)))
    return sd, Map(sd.arr)


def map_of(v, resp):
    h = v.get(resp, '_headers')
    return Map(h.arr if isinstance(h, SDict) else dict(h))


@stubclass
class OriginSet:
    """A frozenset of origins, observed only through membership of the request's origin."""

    def __init__(self, origin, member, nonempty=True):
        self.origin = origin
        self.member = member
        self.nonempty = nonempty

    def __pyvc_contains__(self, x):
        if x is self.origin:
            return self.member
        from pyvc.core import Unreached

        raise Unreached('membership query for something other than the request origin')

    def __pyvc_eq__(self, o):
        return False  # a frozenset never equals the str '*'

    def __pyvc_truth__(self):
        return self.nonempty  # an empty configured set is falsy (allow_origins=[] / allow_credentials=None)


@stubclass
class Req:
    """falcon.Request as far as the middleware uses it: method + case-insensitive get_header (C09)."""

    def __init__(self, v):
        self.v = v
        self.method = v.str('method')
        self.h = {}
        for name in ('Origin', 'Access-Control-Request-Method', 'Access-Control-Request-Headers'):
            present = v.choose(2, 'req-has-' + name)
            self.h[name.lower()] = v.str('req_' + name.replace('-', '_')) if present else None

    def get_header(self, name, required=False, default=None):
        val = self.h[name.lower()]
        return default if val is None else val


def config_set(v, name, origin):
    if v.choose(2, name + '-wildcard?'):
        return '*', True, None
    mem = v.bool(name + '_contains_origin')
    nonempty = v.bool(name + '_nonempty')  # read only if the subject asks for the set's truth value
    v.assume(Implies(mem, nonempty))
    if origin is not None:
        # normal form established by __init__ (harness cors_init): a configured set never contains '*'
        v.assume(Implies(origin == '*', Not(mem)))
    else:
        v.assume(Not(mem))  # None is never a member of a set of origin strings
    if v.concrete:
        if mem and origin is not None:
            return frozenset([origin]), False, mem
        return frozenset(['https://unlisted.invalid'] if nonempty else []), False, mem
    return OriginSet(origin, mem, nonempty), False, mem


def cors_process_response(v):
    req = Req(v)
    origin = req.h['origin']
    ao, ao_wild, ao_mem = config_set(v, 'allow_origins', origin)
    ac, ac_wild, ac_mem = config_set(v, 'allow_credentials', origin)
    expose = v.str('expose_headers') if v.choose(2, 'expose?') else None
    mw = v.obj(CM, allow_origins=ao, allow_credentials=ac, expose_headers=expose)
    hdrs, H = header_map(v, KEYS)
    resp = v.obj(RESP, _headers=hdrs, _extra_headers=None, _cookies=None)
    req_succeeded = v.bool('req_succeeded')
    resource = None

    out = v.call(mw, req, resp, resource, req_succeeded)
    v.check('no-exception', out.exc is None)
    if out.exc is not None:
        return
    H1 = map_of(v, resp)
    # frame beyond the header map: raw Set-Cookie lines, cookies and the policy configuration itself are never touched
    v.check('extra-lines-cookies-and-configuration-untouched',
            v.get(resp, '_extra_headers') is None and v.get(resp, '_cookies') is None and v.get(mw, 'allow_origins') is ao
            and v.get(mw, 'allow_credentials') is ac and v.get(mw, 'expose_headers') is expose)

    # ---- specification, written from the property statement -------------------------
    if origin is None:
        v.check('no-origin-response-untouched', H1.eq(H))
        v.cover('no-origin')
        return
    allowed = True if ao_wild else ao_mem
    if not allowed:
        v.check('disallowed-origin-response-untouched', H1.eq(H))
        v.cover('disallowed')
        return
    E = H
    cred_cfg = True if ac_wild else ac_mem
    pre_acao = H.has(ACAO)
    wrote_origin = Not(pre_acao)
    grant_cred = And(wrote_origin, cred_cfg)
    if wrote_origin:
        if cred_cfg:
            E = E.put(ACAC, 'true').put(ACAO, origin)
        else:
            E = E.put(ACAO, '*' if ao_wild else origin)
    if expose is not None and Len(expose) > 0:
        E = E.put(ACEH, expose)
    acrm = req.h['access-control-request-method']
    preflight = And(req_succeeded, req.method == 'OPTIONS', acrm is not None and Len(acrm) > 0)
    if preflight:
        had_allow = E.has(ALLOW)
        allow_val = E.val(ALLOW)
        E = E.delete(ALLOW)
        if had_allow:
            acrh = req.h['access-control-request-headers']
            E = E.put(ACAM, allow_val).put(ACAH, '*' if acrh is None else acrh).put(ACMA, '86400')
            v.cover('preflight-approved')
        else:
            for k in GRANTS:
                E = E.delete(k)
            v.check('preflight-without-allow-withdraws-every-grant', And(*[Not(H1.has(k)) for k in GRANTS]))
            v.cover('preflight-denied')
        v.check('preflight-removes-allow', Not(H1.has(ALLOW)))
    v.check('decision-table-and-frame', H1.eq(E))

    # ---- the security sentences of the statement, each on its own ------------------------
    mw_wrote_acao = wrote_origin
    # wildcard origin never coexists with a credentials grant written by the policy
    # (RFC 6454: an Origin header carries a serialized origin or "null", never the wildcard: the literal request header
    # `Origin: *` is outside this one sentence only; every other clause holds for it too)
    v.check('wildcard-never-with-credentials',
            Implies(origin != '*', Not(And(mw_wrote_acao, Not(H.has(ACAC)), H1.has(ACAO), H1.val(ACAO) == '*', H1.has(ACAC)))))
    # credentials only for origins configured for them
    v.check('credentials-only-for-configured-origins', Implies(And(Not(H.has(ACAC)), H1.has(ACAC)), And(allowed, cred_cfg)))
    # the allowed origin is echoed whenever credentials are granted
    v.check('origin-echoed-when-credentials-granted', Implies(And(Not(H.has(ACAC)), H1.has(ACAC)), And(H1.has(ACAO), H1.val(ACAO) == origin)))
    # approval only for a successful OPTIONS exchange that advertised Allow
    approved = And(H1.has(ACAM), Not(H.has(ACAM)))
    v.check('preflight-approved-only-for-successful-options-with-allow', Implies(approved, And(preflight, H.has(ALLOW))))


for _o in (0, 1):
    for _m in (0, 1):
        for _w in (0, 1):
            for _c in (0, 1):
                if _o == 0:
                    continue  # see below: one variant without Origin in which everything else still varies
                harness(PROP, CM + '.process_response', name='cors_process_response[origin=%d,acrm=%d,ao*=%d,ac*=%d]' % (_o, _m, _w, _c), inline=INLINE,
                        fix={'req-has-Origin': _o, 'req-has-Access-Control-Request-Method': _m, 'allow_origins-wildcard?': _w,
                             'allow_credentials-wildcard?': _c})(cors_process_response)


# "Requests without an Origin header are left untouched" -- for EVERY configuration and request: only the absence of
# Origin is fixed; Access-Control-Request-*, wildcard / set configurations, expose_headers, method, outcome all vary.
harness(PROP, CM + '.process_response', name='cors_process_response[origin=0]', inline=INLINE,
        fix={'req-has-Origin': 0})(cors_process_response)


def _record_process_response(reg, ex):
    def stub(I, self, *args, **kwargs):
        I.ctx.ghost.setdefault('delegated', []).append((self, args, kwargs))
        return None

    reg.stubs[CM + '.process_response'] = stub


@harness(PROP, CM + '.process_response_async', setup=_record_process_response)
def cors_process_response_async(v):
    """The async twin delegates to process_response exactly once with the same arguments."""
    mw = v.obj(CM, allow_origins='*', allow_credentials='*', expose_headers=None)
    a = [object(), object(), object(), v.bool('req_succeeded')]
    if v.concrete:
        return
    out = v.call(mw, *a)
    calls = v.ctx.ghost.get('delegated', [])
    v.check('async-twin-delegates-once-with-same-arguments',
            out.exc is None and len(calls) == 1 and calls[0][0] is mw and len(calls[0][1]) == 4
            and all(x is y for x, y in zip(calls[0][1], a)) and not calls[0][2])


# --- configuration normal form ------------------------------------------------------------


@harness(PROP, CM + '.__init__')
def cors_init(v):
    """'*' is only accepted as the string literal; a '*' inside an iterable raises ValueError."""
    mw = v.obj(CM)

    def arg(name):
        """-> (argument, kind, the origins the normal form must hold exactly)"""
        k = v.choose(9, name + '-shape')
        if k == 0:
            return '*', 'wild', None
        if k == 1:
            s = v.str(name + '_single')
            v.assume(s != '*')
            return s, 'single', [s]
        if k == 2:
            a = v.str(name + '_a')
            b = v.str(name + '_b')
            v.assume(And(a != '*', b != '*'))
            return [a, b], 'list', [a, b]
        if k == 3:
            a = v.str(name + '_a')
            return [a, '*'], 'list-with-star', None
        if k == 4:
            return None, 'none', []
        if k == 5:  # the wildcard is refused wherever it stands in the iterable
            a = v.str(name + '_a')
            v.assume(a != '*')
            return ['*', a], 'list-with-star', None
        if k == 6:  # the wildcard alone in an iterable is still not the string literal
            return ['*'], 'list-with-star', None
        if k == 7:  # an empty iterable configures nobody (it is not the wildcard)
            return [], 'empty', []
        a = v.str(name + '_a')  # any iterable, not only a list
        v.assume(a != '*')
        return (a,), 'tuple', [a]

    ao, ao_kind, ao_items = arg('allow_origins')
    if ao_kind == 'none':
        v.cut()
    ac, ac_kind, ac_items = arg('allow_credentials')
    ex_k = v.choose(5, 'expose-shape')
    ex = [None, v.str('expose'), [v.str('expose_a'), v.str('expose_b')], [v.str('expose_a')], []][ex_k]
    out = v.call(mw, ao, ex, ac)
    bad = ao_kind == 'list-with-star' or ac_kind == 'list-with-star'
    v.check('star-inside-iterable-rejected', (out.exc is not None and out.exc.isa(ValueError)) if bad else out.exc is None)
    if out.exc is not None:
        return
    got_ao = v.get(mw, 'allow_origins')
    got_ac = v.get(mw, 'allow_credentials')
    v.check('allow-origins-normal-form', (got_ao == '*') if ao_kind == 'wild' else _is_set_without_star(v, got_ao))
    v.check('allow-credentials-normal-form',
            (got_ac == '*') if ac_kind == 'wild' else _is_set_without_star(v, got_ac))
    if ac_kind == 'none':
        v.check('no-credentials-by-default', _is_empty_set(got_ac))
    # "grants exactly the configured origins": the stored set holds the given origins and nothing else
    if ao_items is not None:
        v.check('allow-origins-set-holds-exactly-the-given-origins', _is_set_of(got_ao, ao_items))
    if ac_items is not None:
        v.check('allow-credentials-set-holds-exactly-the-given-origins', _is_set_of(got_ac, ac_items))
    got_ex = v.get(mw, 'expose_headers')
    if ex_k == 0:
        v.check('expose-none', got_ex is None)
    elif ex_k == 1:
        v.check('expose-string-kept', got_ex == ex)
    elif ex_k == 2:
        v.check('expose-list-joined', got_ex == ex[0] + ', ' + ex[1])
    elif ex_k == 3:
        v.check('expose-single-element-list-is-that-element', got_ex == ex[0])
    else:
        # normal form read by process_response: None or a str; an empty list exposes nothing
        v.check('expose-empty-list-exposes-nothing', got_ex is None or (isinstance(got_ex, str) and got_ex == ''))


def _is_set_without_star(v, s):
    from pyvc.models import SymSetOf

    if isinstance(s, SymSetOf):
        return Not(Or(*[x == '*' for x in s.items]))
    return isinstance(s, frozenset) and '*' not in s


def _is_set_of(s, items):
    """s is a set whose members are exactly `items` (symbolic members: the same terms, in any order)"""
    from pyvc.models import SymSetOf

    if isinstance(s, SymSetOf):
        return len(s.items) == len(items) and all(any(x is y for y in items) for x in s.items) and all(any(x is y for x in s.items) for y in items)
    if not isinstance(s, frozenset):
        return False
    return s == frozenset(items)


def _is_empty_set(s):
    from pyvc.models import SymSetOf

    if isinstance(s, SymSetOf):
        return len(s.items) == 0
    return isinstance(s, frozenset) and len(s) == 0


# breaking edits (each must refute the named obligation on a scratch copy; ./check C20 --tier thorough runs all of them).
# Every one manifests only for an input value that an earlier version of this file held fixed.
_MW = 'falcon/middleware.py'
KILLS = [
    # no Origin header + wildcard allow_origins (the no-Origin variant used to fix set configurations and no ACR-Method)
    (_MW, "        if origin is None:\n            return", "        if origin is None and self.allow_origins != '*':\n            return",
     'no-origin-response-untouched'),
    # no Origin header + Access-Control-Request-Method present
    (_MW, "        if origin is None:\n            return",
     "        if origin is None and not req.get_header('Access-Control-Request-Method'):\n            return", 'no-origin-response-untouched'),
    # no Origin header + wildcard allow_credentials
    (_MW, "        if origin is None:\n            return", "        if origin is None and self.allow_credentials != '*':\n            return",
     'no-origin-response-untouched'),
    # an EMPTY configured set is falsy ("empty means everybody"): the set stub used to be always true
    (_MW, "if self.allow_origins != '*' and origin not in self.allow_origins:",
     "if self.allow_origins and self.allow_origins != '*' and origin not in self.allow_origins:", 'disallowed-origin-response-untouched'),
    # the literal request header `Origin: *` (used to be assumed away for every clause, now only for the wildcard sentence)
    (_MW, "        if origin is None:\n            return", "        if origin is None or origin == '*':\n            return", 'decision-table-and-frame'),
    # __init__: empty iterable
    (_MW, "            self.allow_origins = frozenset(allow_origins)\n", "            self.allow_origins = frozenset(allow_origins) or '*'\n",
     'star-inside-iterable-rejected'),
    # __init__: the wildcard anywhere in the iterable, not only in last position
    (_MW, "            if '*' in self.allow_origins:", "            if allow_origins[-1] == '*':", 'star-inside-iterable-rejected'),
    # __init__: empty expose list must still be normalised to None / str
    (_MW, "if expose_headers is not None and not isinstance(expose_headers, str):", "if expose_headers and not isinstance(expose_headers, str):",
     'expose-empty-list-exposes-nothing'),
    # __init__: iterables other than list
    (_MW, "            if isinstance(allow_origins, str):", "            if not isinstance(allow_origins, list):",
     'allow-origins-set-holds-exactly-the-given-origins'),
    # __init__: every given origin is kept
    (_MW, "            allow_credentials = frozenset(allow_credentials)\n", "            allow_credentials = frozenset(allow_credentials[:1])\n",
     'allow-credentials-set-holds-exactly-the-given-origins'),
]

ASSUMPTIONS = [
    'Request.get_header(name, default) is a case-insensitive lookup returning the header value or the default (contract of C09, stubbed here)',
    'a configured origin set is observed only through membership of the request origin (uninterpreted membership = one fresh boolean) '
    'and through its truth value (a second fresh boolean, implied by membership); None is never a member',
    'wildcard-never-with-credentials only: the request header is not the literal `Origin: *` (RFC 6454: a serialized origin or "null"); '
    'every other clause of process_response is proved for that header value too',
    'process_response: the configuration is in the normal form established by __init__ (harness cors_init): allow_origins / '
    'allow_credentials are the str "*" or a frozenset without "*", expose_headers is None or a str',
    'inputs held fixed in cors_process_response because the code under contract does not read them (falcon/middleware.py:100-143, '
    'falcon/response.py:664-770 get_header/set_header/delete_header): resource=None, Response._extra_headers=None, Response._cookies=None '
    '(the frame clause still demands they stay None); any other Response field is absent, so a change that starts reading one stops as unreached',
    'cors_process_response_async: the configuration fields and the four arguments are opaque constants -- process_response is replaced by a '
    'recording stub there, so nothing reads them; the twin takes positional arguments only (`*args`)',
    'cors_init: iterables are given as list (0, 1, 2 elements, "*" first / last / alone) or 1-tuple; set / frozenset / generator arguments are '
    'not separate cases (frozenset(iterable) is the only consumer and its model iterates any iterable alike); allow_origins=None is outside '
    'the documented argument types (path cut)',
]
NOT_DECIDED = ['wiring of cors_enable in App.__init__ / add_middleware duplicate guard (read, not proved)',
               'sources of Allow (default OPTIONS responder: C02 contract; StaticRoute OPTIONS branch: C16)']
TRUSTED = ['stub Req (Request.get_header/method) and OriginSet in contracts/C20_cors.py']
