"""C10 -- URI encode/decode are total, lossless inverses with RFC 3986 output.

Contracts on falcon/util/uri.py:

    _create_char_encoder, _create_str_encoder(...).encoder, the four public encoders
    (encode, encode_value, encode_check_escaped, encode_value_check_escaped),
    _HEX_TO_BYTE, _join_tokens_bytearray, _join_tokens_list, decode, parse_host,
    unquote_string.

Decided here
  * FINITE TABLES, by complete enumeration (a decision): all 256 entries of every encoder
    character map (reached through the real factory run from its source, and through the
    closure cells of the four public encoders of the imported overlay module) and all 65536
    two-byte keys against _HEX_TO_BYTE; the allowed sets against RFC 3986.
  * the token-level decoders (both joiners, and decode's in-place path) against ONE token
    spec   D(tokens) = utf8r(t0 ++ SUM f(t_i)),  f(t) = byte(t[:2]) ++ t[2:] if t[:2] is a hex
    pair else '%' ++ t,   for lists of 1..9 arbitrary byte strings; `decode` itself for every
    input string with at most 8 '%' characters (no bound on its length or content);
  * the encoder closure (the factory is run from its source, then its inner `encoder`): every
    string of allowed characters is returned as is; every string with a character that is
    neither allowed nor '%' goes byte-wise through the table; strings of allowed characters
    and k <= 5 '%' are built piece by piece (escape bodies / the four malformed shapes): with
    check_is_escaped the string is returned unchanged iff every '%' starts a well-formed
    escape, else -- and always without the flag -- it goes through the table.  Two lemma
    harnesses tie that construction to the statement's regular languages;
  * parse_host on the RFC 3986 authority forms (word equations, decided by cvc5) and its
    escape set; unquote_string path-wise (without escaped backslashes).

NOT decided (needs induction over the token list / over the string): see NOT_DECIDED and the
clearly labelled `bounded` stand-in at the end of this module.
"""
from __future__ import annotations

import ast as _ast
import hashlib as _hashlib
import re as _re

import z3

from pyvc.core import _unescape_z3, And, ExcVal, Iff, Len, Not, Outcome, PyRaise, SStr, Unreached, cur, mk_bool, mk_int, mk_str, _s
from pyvc.harness import harness, stubclass

PROP = 'C10'
M = 'falcon.util.uri'

# ---------------------------------------------------------------------------
# RFC 3986 character classes, written from the RFC (section 2.2, 2.3), not from the code

ALPHA = ''.join(chr(c) for c in range(0x41, 0x5B)) + ''.join(chr(c) for c in range(0x61, 0x7B))
DIGIT = '0123456789'
RFC_UNRESERVED = frozenset(ALPHA + DIGIT + '-._~')
GEN_DELIMS = ':/?#[]@'
SUB_DELIMS = "!$&'()*+,;="
RFC_RESERVED = frozenset(GEN_DELIMS + SUB_DELIMS)
RFC_URI_ALLOWED = RFC_UNRESERVED | RFC_RESERVED
HEXDIG = frozenset('0123456789ABCDEFabcdef')  # RFC 3986 2.1: upper and lower case are equivalent on input
UPPER = '0123456789ABCDEF'


def allowed_set(is_value):
    return RFC_UNRESERVED if is_value else RFC_URI_ALLOWED


def spec_char(b, allowed):
    """The statement's per-byte map: the character itself if allowed, else an upper-case %XX escape."""
    return chr(b) if chr(b) in allowed else '%' + UPPER[b >> 4] + UPPER[b & 15]


def hexval(c):
    return '0123456789abcdef'.index(chr(c).lower()) if chr(c) in HEXDIG else None


# ---------------------------------------------------------------------------
# reference functions on concrete values (used by concrete replays; the bounded stand-in has its own copy)


def ref_token_bytes(tokens):
    """t0 ++ SUM f(t_i) on concrete byte strings."""
    out = bytes(tokens[0])
    for t in tokens[1:]:
        t = bytes(t)
        if len(t) >= 2 and chr(t[0]) in HEXDIG and chr(t[1]) in HEXDIG:
            out += bytes([16 * hexval(t[0]) + hexval(t[1])]) + t[2:]
        else:
            out += b'%' + t
    return out


def ref_decode(s, unquote_plus=True):
    """The reference decoder of the statement, as a left-to-right scanner."""
    if unquote_plus:
        s = s.replace('+', ' ')
    out = bytearray()
    i = 0
    while i < len(s):
        c = s[i]
        if c == '%' and i + 2 < len(s) and s[i + 1] in HEXDIG and s[i + 2] in HEXDIG:
            out.append(16 * hexval(ord(s[i + 1])) + hexval(ord(s[i + 2])))
            i += 3
        else:
            out += c.encode('utf-8')
            i += 1
    return bytes(out).decode('utf-8', 'replace')


def ref_fully_escaped(s, allowed):
    i = 0
    while i < len(s):
        if s[i] == '%':
            if not (i + 2 < len(s) and s[i + 1] in HEXDIG and s[i + 2] in HEXDIG):
                return False
            i += 3
        elif s[i] in allowed:
            i += 1
        else:
            return False
    return True


def ref_encode(s, is_value, check):
    allowed = allowed_set(is_value)
    if all(c in allowed for c in s):
        return s
    if check and ref_fully_escaped(s, allowed):
        return s
    return ''.join(spec_char(b, allowed) for b in s.encode('utf-8'))


def has_surrogate(s):
    return any(0xD800 <= ord(c) <= 0xDFFF for c in s)


# ---------------------------------------------------------------------------
# SMT side: regular languages, uninterpreted codecs

_RE = {}
_STR = z3.StringSort()


def _char_class(chars):
    """Union of ranges covering exactly `chars`."""
    key = ('cls', ''.join(sorted(set(chars))))
    if key not in _RE:
        cps = sorted(ord(c) for c in set(chars))
        runs, start, prev = [], None, None
        for c in cps:
            if start is None:
                start = prev = c
            elif c == prev + 1:
                prev = c
            else:
                runs.append((start, prev))
                start = prev = c
        if start is not None:
            runs.append((start, prev))
        rs = [z3.Range(z3.StringVal(chr(a)), z3.StringVal(chr(b))) for a, b in runs]
        _RE[key] = rs[0] if len(rs) == 1 else z3.Union(*rs)
    return _RE[key]


def _re_hexpair():
    if 'hexpair' not in _RE:
        h = _char_class(HEXDIG)
        _RE['hexpair'] = z3.Concat(h, h)
    return _RE['hexpair']


def _re_star(chars):
    key = ('star', ''.join(sorted(set(chars))))
    if key not in _RE:
        _RE[key] = z3.Star(_char_class(chars))
    return _RE[key]


def _re_escaped(chars, upper_only=False):
    """( allowed-char | '%' HEXDIG HEXDIG )*"""
    key = ('esc', ''.join(sorted(set(chars))), upper_only)
    if key not in _RE:
        h = _char_class(UPPER if upper_only else HEXDIG)
        _RE[key] = z3.Star(z3.Union(_char_class(chars), z3.Concat(z3.Re(z3.StringVal('%')), h, h)))
    return _RE[key]


def _re_digits():
    if 'digits' not in _RE:
        _RE['digits'] = z3.Plus(_char_class(DIGIT))
    return _RE['digits']


UTF8ENC = z3.Function('utf8.encode', _STR, _STR)  # str -> bytes, defined on strings without lone surrogates
UTF8R = z3.Function('utf8.decode[errors=replace]', _STR, _STR)  # bytes -> str, total
SURR = z3.Function('has-lone-surrogate', _STR, z3.BoolSort())
HEXBYTE = z3.Function('_HEX_TO_BYTE[key]', _STR, _STR)  # the value stored under a two-hex-digit key (decided by hex_to_byte_table)
PCT = '%'


def in_star(x, chars):
    if isinstance(x, SStr):
        return mk_bool(z3.InRe(x.t, _re_star(chars)))
    return all(c in chars for c in x)


def fully_escaped(x, chars):
    if isinstance(x, SStr):
        return mk_bool(z3.InRe(x.t, _re_escaped(chars)))
    return ref_fully_escaped(x, chars)


def contains(s, sub):
    if isinstance(s, SStr):
        return s.contains(sub)
    return sub in s


def utf8_encoded(ctx, x):
    """utf8(x) with the facts of the codec documentation that the contracts use (x has no lone surrogate)."""
    if not isinstance(x, SStr):
        return x.encode('utf-8')
    # facts of the codec that justify the reading but that no obligation needs are left out of the solver's way:
    #   UTF8R(UTF8ENC(x)) == x (no replacement is ever needed for valid UTF-8), and 0x25 occurs exactly where x has '%'
    r = UTF8ENC(x.t)
    return SStr(r, 'bytes')


def codec_model(ctx, direction, s, enc, errors):
    e = enc.lower().replace('_', '-')
    e = {'utf8': 'utf-8'}.get(e, e)
    if e != 'utf-8':
        raise Unreached('%s with codec %r has no model' % (direction, enc))
    if direction == 'encode' and errors == 'strict':
        if ctx.branch(SURR(s.t), label='utf8-unencodable'):
            raise PyRaise(ExcVal(UnicodeEncodeError, ('utf-8', '', 0, 1, 'surrogates not allowed')))
        return utf8_encoded(ctx, s)
    if direction == 'decode' and errors == 'replace':
        return SStr(UTF8R(s.t), 'str')  # total: never raises
    raise Unreached('%s(utf-8, errors=%r) has no model' % (direction, errors))


def replaced(ctx, s, old, new):
    """s.replace(old, new) for single ASCII characters old -> new (new may be empty): uninterpreted, with the facts used."""
    if not isinstance(s, SStr):
        return s.replace(old, new)
    if not (isinstance(old, (str, bytes)) and isinstance(new, (str, bytes)) and len(old) == 1 and len(new) <= 1 and old != new):
        raise Unreached('replace(%r, %r) on a symbolic string has no model' % (old, new))
    f = z3.Function('str.replace[%r->%r]' % (old, new), _STR, _STR)
    r = f(s.t)
    o = _s(old)
    facts = [z3.Not(z3.Contains(r, o)), z3.Implies(z3.Not(z3.Contains(s.t, o)), r == s.t), SURR(r) == SURR(s.t)]
    if len(new) == 1:
        facts.append(z3.Length(r) == z3.Length(s.t))
    else:
        facts.append(z3.Length(r) <= z3.Length(s.t))
    if old != PCT and new != PCT and s.kind == 'str':
        facts.append(z3.Contains(r, z3.StringVal(PCT)) == z3.Contains(s.t, z3.StringVal(PCT)))
    ctx.assume(mk_bool(z3.And(*facts)))
    return SStr(r, s.kind)


def _hook_replace(ctx, s, old, new):
    return replaced(ctx, s, old, new)


def _hook_slice(ctx, s, start, stop):
    """s[a:b] for literal a, b >= 0 is exactly str.substr(s, a, b - a) (SMT-LIB clamps like Python does); s[a:] is substr(s, a, |s|)."""

    def lit(x):
        return x is None or (isinstance(x, int) and not isinstance(x, bool) and x >= 0)

    inner = ctx.ghost.get('$inner', {}).get(s.t.get_id())
    if inner is not None and start == 1 and stop == -1:
        return inner[1]  # the harness built s as '"' ++ inner ++ '"'
    if not (lit(start) and lit(stop)):
        return NotImplemented
    head = ctx.ghost.get('$heads', {}).get(s.t.get_id())
    if head is not None and start in (None, 0) and stop == 2:
        return head[1]  # the harness built this piece as head ++ rest with |head| = min(2, |piece|)
    a = start or 0
    if stop is None:
        return mk_str(z3.SubString(s.t, a, z3.Length(s.t)), s.kind)
    return mk_str(z3.SubString(s.t, a, max(stop - a, 0)), s.kind)


_SUBSTRINGS = {}


def _hook_contains(ctx, s, sub):
    """`x in "literal"` for a symbolic x: x is one of the finitely many substrings of the literal (exact, and a regular language)."""
    if not (isinstance(sub, SStr) and z3.is_string_value(s.t)):
        return NotImplemented
    lit = _unescape_z3(s.t.as_string())
    if len(lit) > 64:
        return NotImplemented
    if lit not in _SUBSTRINGS:
        subs = sorted({lit[i:j] for i in range(len(lit) + 1) for j in range(i, len(lit) + 1)})
        _SUBSTRINGS[lit] = z3.Union(*[z3.Re(z3.StringVal(x)) for x in subs]) if len(subs) > 1 else z3.Re(z3.StringVal(''))
    return mk_bool(z3.InRe(sub.t, _SUBSTRINGS[lit]))


class HeadStr(SStr):
    """The first one or two characters of a piece the harness built from explicit single-character strings:
    its length and its characters are known by construction (each character variable is constrained to a one-character class)."""

    __slots__ = ('chars',)

    def __init__(self, chars):
        t = _s(chars[0]) if len(chars) == 1 else z3.Concat(*[_s(c) for c in chars])
        SStr.__init__(self, t, 'str')
        self.chars = list(chars)

    def length(self):
        return len(self.chars)

    def __getitem__(self, k):
        if isinstance(k, int) and not isinstance(k, bool) and -len(self.chars) <= k < len(self.chars):
            return self.chars[k]
        return SStr.__getitem__(self, k)

    __hash__ = SStr.__hash__


def _rstrip_axioms(s_t, r, f):
    """r = s.rstrip(chars): r is empty exactly when s consists of chars only.

    (The subject only asks whether the result is empty; the rest of the exact characterisation -- what was cut consists of chars,
    r does not end in one -- is not needed and is left out: fewer assumed facts.)
    """
    name = f.name()
    if ':' not in name:
        return []
    chars = _ast.literal_eval(name.split(':', 1)[1])
    built = cur().ghost.get('$pieces', {}).get(s_t.get_id())
    if built is not None and built[3] is not None and frozenset(chars) - {PCT} == built[3]:
        # a string the harness built as allowed-character pieces joined by at least one '%': lemma harness `constructed_classes`
        # decides  s in allowed*  == False  and  s in (allowed | '%')*  == True  for exactly this construction
        return [mk_bool((z3.Length(r) == 0) == z3.BoolVal(PCT in chars))]
    return [mk_bool((z3.Length(r) == 0) == z3.InRe(s_t, _re_star(chars)))]


def _split_model(ctx, s, sep, maxsplit=-1):
    """s.split(sep) into exactly n pieces, n chosen by the harness: s == p0 ++ sep ++ p1 ... and no piece lets sep start inside it."""
    if maxsplit != -1 or not isinstance(sep, (str, bytes)) or len(sep) == 0:
        raise Unreached('split with a symbolic separator or maxsplit')
    reg = ctx.ghost.get('$pieces', {}).get(s.t.get_id())
    if reg is not None and reg[1] == sep:
        ctx.ghost.setdefault('splits', []).append((s, sep, reg[2]))
        return list(reg[2])
    v = ctx.ghost['v']
    lo, hi = ctx.ghost['split-range']
    n = lo + v.choose(hi - lo + 1, 'split-pieces')
    toks = [ctx.fresh_str('piece%d' % i, s.kind) for i in range(n)]
    sep_t = _s(sep)
    whole = toks[0].t
    for t in toks[1:]:
        whole = z3.Concat(whole, sep_t, t.t)
    ctx.assume(mk_bool(s.t == whole))
    for i, t in enumerate(toks):
        tt = z3.Concat(t.t, _s(sep[:-1])) if (len(sep) > 1 and i < n - 1) else t.t
        ctx.assume(mk_bool(z3.Not(z3.Contains(tt, sep_t))))
    ctx.ghost.setdefault('splits', []).append((s, sep, toks))
    return toks


@stubclass
class HexTable:
    """falcon.util.uri._HEX_TO_BYTE seen through its decided content: exactly the two-hex-digit keys, one byte each."""

    def __init__(self, real):
        self.real = real

    def __pyvc_getitem__(self, k):
        c = cur()
        if not isinstance(k, SStr):
            try:
                return self.real[k]
            except KeyError:
                c.raise_py(KeyError, k)
        if c.branch(z3.InRe(k.t, _re_hexpair()), label='hex-pair'):
            r = HEXBYTE(k.t)
            c.assume(mk_bool(z3.Length(r) == 1))
            return SStr(r, 'bytes')
        c.raise_py(KeyError, k)


class hex_table:
    """While the subject runs symbolically, the module-level table is the HexTable view (a 484-way fork otherwise)."""

    def __init__(self, v):
        self.v = v

    def __enter__(self):
        if self.v.concrete:
            return None
        self.mod = self.v.real(M)
        self.saved = self.mod.__dict__['_HEX_TO_BYTE']
        self.mod._HEX_TO_BYTE = HexTable(self.saved)
        return None

    def __exit__(self, *a):
        if not self.v.concrete:
            self.mod._HEX_TO_BYTE = self.saved
        return False


def f_token(t):
    """f(t) of the token spec, named by a definitional constant (one per token and path) so that terms stay small."""
    ctx = cur()
    cache = ctx.ghost.setdefault('$f-token', {})
    key = t.t.get_id()
    if key not in cache:
        k = t[:2]
        kt, tt = _s(k), _s(t)
        d = ctx.fresh_str('f_token', 'bytes')
        ctx.assume(mk_bool(d.t == z3.If(z3.InRe(kt, _re_hexpair()), z3.Concat(HEXBYTE(kt), _s(t[2:])), z3.Concat(z3.StringVal(PCT), tt))))
        cache[key] = (d, t)
    return cache[key][0].t


def spec_tokens(tokens):
    """D(tokens) = utf8r(t0 ++ SUM f(t_i)); both modes."""
    if not any(isinstance(t, SStr) for t in tokens):
        return ref_token_bytes(tokens).decode('utf-8', 'replace')
    acc = _s(tokens[0])
    for t in tokens[1:]:
        acc = z3.Concat(acc, f_token(t) if isinstance(t, SStr) else _s(ref_token_bytes([b'', t])))
    return mk_str(UTF8R(acc), 'str')


def _bytearray_model(I, x=b''):
    # bytearray(b): a mutable copy of b.  The subject only rebinds the local with `+=` and finally decodes it, and
    # the object is never aliased, so the immutable byte string is an exact model.
    return x


def _common_setup(reg, ex):
    ex.codec_handler = codec_model
    ex.split_handler = _split_model
    hooks = dict(getattr(ex, 'str_hooks', None) or {})
    hooks['replace'] = _hook_replace
    hooks['slice'] = _hook_slice
    hooks['contains'] = _hook_contains
    ex.str_hooks = hooks
    ex.str_axioms['rstrip'] = _rstrip_axioms
    reg.add_model(bytearray, _bytearray_model)


def touch(v, target):
    if not v.concrete:
        v.closure(target)


def scalar_str(v, name):
    """A str argument: any sequence of Unicode scalar values (ASSUMPTIONS: no lone surrogates)."""
    s = v.str(name)
    if v.concrete:
        v.assume(not has_surrogate(s))
    else:
        v.assume(mk_bool(z3.Not(SURR(s.t))))
    return s


# ---------------------------------------------------------------------------
# 1. finite tables -- complete enumeration


def _table_of(get):
    out = []
    for b in range(256):
        try:
            out.append(get(b))
        except Exception as e:  # noqa: BLE001
            out.append(e)
    return out


def check_table(v, table, allowed, prefix=''):
    bad_allowed = [b for b in range(256) if chr(b) in allowed and table[b] != chr(b)]
    bad_other = [b for b in range(256) if chr(b) not in allowed and table[b] != spec_char(b, allowed)]
    v.check(prefix + 'every-allowed-byte-maps-to-its-own-character', not bad_allowed, witnesses=bad_allowed[:5])
    v.check(prefix + 'every-other-byte-maps-to-its-upper-case-percent-escape', not bad_other, witnesses=[(b, repr(table[b])) for b in bad_other[:5]])


def _char_encoder_table(v):
    """_create_char_encoder(allowed), run from its current source, on the module's own constants: all 256 entries."""
    which = v.choose(2, 'allowed-set')
    const = ['_UNRESERVED', '_ALL_ALLOWED'][which]
    rfc = [RFC_UNRESERVED, RFC_URI_ALLOWED][which]
    allowed = v.real(M + ':' + const)
    if which == 1:
        delims = v.real(M + ':_DELIMITERS')
        v.check('delimiters-constant-is-gen-delims-plus-sub-delims', frozenset(delims) == RFC_RESERVED,
                extra=sorted(frozenset(delims) - RFC_RESERVED), missing=sorted(RFC_RESERVED - frozenset(delims)))
    v.check('allowed-constant-is-exactly-the-rfc3986-set', isinstance(allowed, str) and frozenset(allowed) == rfc,
            extra=sorted(frozenset(allowed) - rfc), missing=sorted(rfc - frozenset(allowed)))
    if not v.concrete:
        v.interp.max_unroll = 300  # the factory loops over range(256)
    out = v.call(allowed)
    v.check('factory-never-raises', out.exc is None)
    if out.exc is not None:
        return
    get = out.value
    table = _table_of(get)
    check_table(v, table, rfc)
    outside = []
    for b in (-1, 256, 0x20AC):
        try:
            get(b)
            outside.append(b)
        except KeyError:
            pass
    v.check('table-has-exactly-the-256-byte-values', not outside)
    v.cover('enumerated')


for _w in (0, 1):
    harness(PROP, M + ':_create_char_encoder', name='char_encoder_table[%s]' % ['unreserved', 'uri'][_w], fix={'allowed-set': _w})(_char_encoder_table)

PUBLIC = {  # name -> (is_value, check_is_escaped), from the documentation of the four functions
    'encode': (False, False),
    'encode_value': (True, False),
    'encode_check_escaped': (False, True),
    'encode_value_check_escaped': (True, True),
}


@harness(PROP, M + ':_create_str_encoder', name='public_encoder_closures')
def public_encoder_closures(v):
    """The four public encoders of the imported module are closures of the factory over the right set / flag / table."""
    touch(v, M + ':_create_str_encoder')
    for name, (is_value, check) in sorted(PUBLIC.items()):
        fn = v.real(M + ':' + name)
        code = getattr(fn, '__code__', None)
        ok = code is not None and fn.__closure__ is not None and getattr(fn, '__qualname__', '').endswith('_create_str_encoder.<locals>.encoder')
        v.check(name + ':is-an-encoder-closure-of-the-factory', ok)
        if not ok:
            continue
        cells = dict(zip(code.co_freevars, [c.cell_contents for c in fn.__closure__]))
        rfc = allowed_set(is_value)
        v.check(name + ':allowed-set-is-the-rfc3986-set', frozenset(cells.get('allowed_chars', '\x00')) == rfc)
        v.check(name + ':percent-is-the-only-extra-character-of-the-escaped-check',
                frozenset(cells.get('allowed_chars_plus_percent', '')) == rfc | {'%'})
        v.check(name + ':check-escaped-flag', cells.get('check_is_escaped') is check)
        get = cells.get('encode_char')
        table = _table_of(get) if callable(get) else [None] * 256
        check_table(v, table, rfc, prefix=name + ':')
    v.cover('inspected')


@harness(PROP, M + ':_join_tokens_bytearray', name='hex_to_byte_table')
def hex_to_byte_table(v):
    """_HEX_TO_BYTE against all 65536 two-byte keys: present iff both are hex digits, value = that byte."""
    touch(v, M + ':_join_tokens_bytearray')
    table = v.real(M + ':_HEX_TO_BYTE')
    v.check('is-a-dict', isinstance(table, dict))
    wrong_presence, wrong_value = [], []
    for a in range(256):
        for b in range(256):
            k = bytes([a, b])
            want = chr(a) in HEXDIG and chr(b) in HEXDIG
            if (k in table) != want:
                wrong_presence.append(k)
            elif want and table[k] != bytes([16 * hexval(a) + hexval(b)]):
                wrong_value.append(k)
    v.check('key-present-iff-two-hex-digits-of-either-case', not wrong_presence, witnesses=wrong_presence[:5])
    v.check('value-is-the-byte-the-two-digits-denote', not wrong_value, witnesses=wrong_value[:5])
    v.check('has-exactly-the-484-two-hex-digit-keys-and-no-other', len(table) == 22 * 22 and all(isinstance(k, bytes) and len(k) == 2 for k in table))
    digits = v.real(M + ':_HEX_DIGITS')
    v.check('hex-digits-constant-is-rfc3986-hexdig-both-cases', frozenset(digits) == HEXDIG)
    v.cover('enumerated')


# ---------------------------------------------------------------------------
# 2. token-level decoders


def _joiner(which):
    def body(v):
        n = 1 + v.choose(9, 'tokens')
        toks = [v.bytes('t%d' % i) for i in range(n)]
        with hex_table(v):
            out = v.call(list(toks))
        v.check('never-raises', out.exc is None)
        if out.exc is not None:
            return
        v.check('result-is-utf8-replace-of-first-token-then-each-token-decoded-or-kept-literal', out.value == spec_tokens(toks))
        v.cover('returns')

    return body


for _fn in ('_join_tokens_bytearray', '_join_tokens_list'):
    for _n in range(9):
        harness(PROP, M + ':' + _fn, name='%s[tokens=%d]' % (_fn[1:], _n + 1), setup=_common_setup, fix={'tokens': _n})(_joiner(_fn))


def _joiners_agree(v):
    """Both joiners on the same list: the platform switch (and decode's short/long switch) cannot change the result."""
    n = 1 + v.choose(6, 'tokens')
    toks = [v.bytes('t%d' % i) for i in range(n)]
    with hex_table(v):
        a = v.call(list(toks), target=M + ':_join_tokens_bytearray')
        b = v.call(list(toks), target=M + ':_join_tokens_list')
    v.check('neither-raises', a.exc is None and b.exc is None)
    if a.exc is None and b.exc is None:
        v.check('same-result', a.value == b.value)
        v.cover('agree')


for _n in range(6):  # (for 7..9 tokens agreement follows from both being equal to D, decided above)
    harness(PROP, M + ':_join_tokens_list', name='joiners_agree[tokens=%d]' % (_n + 1), setup=_common_setup, fix={'tokens': _n})(_joiners_agree)


def _decode_setup(reg, ex):
    _common_setup(reg, ex)

    def joiner_contract(I, tokens):
        # callee contract, decided for 1..9 tokens by the join_tokens_* harnesses
        I.ctx.ghost.setdefault('joined', []).append(list(tokens))
        return spec_tokens(list(tokens))

    reg.stubs[M + ':_join_tokens_bytearray'] = joiner_contract
    reg.stubs[M + ':_join_tokens_list'] = joiner_contract


def _decode(v):
    """decode(s, unquote_plus) for every s with k '%' characters, k fixed per harness."""
    k = v.choose(9, 'percents')  # number of '%' in the input: 0..8  (1..9 tokens)
    s = scalar_str(v, 's')
    # 0: False, 1: True, 2: omitted (documented default True; argument binding only, so explored for 0 and 1 '%' only)
    mode = v.choose(3 if k <= 1 else 2, 'unquote_plus')
    up = mode != 0
    if not v.concrete:
        v.ctx.ghost['v'] = v
        v.ctx.ghost['split-range'] = (k + 1, k + 1)
    with hex_table(v):
        out = v.call(s) if mode == 2 else v.call(s, bool(up))
    v.check('never-fails', out.exc is None)
    if out.exc is not None:
        return
    if v.concrete:
        v.check('equals-the-reference-decoder', out.value == ref_decode(s, up))  # whatever the number of '%' in the replayed string
        return
    s1 = replaced(v.ctx, s, '+', ' ') if up else s  # '+' becomes a space only when requested
    splits = v.ctx.ghost.get('splits', [])
    if k == 0:
        v.assume(Not(contains(s, PCT)))
        v.check('without-percent-nothing-is-decoded', len(splits) == 0)
        v.check('equals-the-reference-decoder', out.value == s1)
        v.cover('no-percent')
        return
    v.assume(contains(s, PCT))
    enc = utf8_encoded(v.ctx, s1)
    ok = len(splits) == 1 and splits[0][1] == b'%'
    v.check('tokens-are-the-percent-split-of-the-utf8-bytes', And(ok, splits[0][0] == enc) if ok else False)
    if not ok:
        return
    toks = splits[0][2]
    v.check('equals-the-reference-decoder', out.value == spec_tokens(toks))
    joined = v.ctx.ghost.get('joined', [])
    if k + 1 >= 8:
        v.check('long-input-goes-through-a-joiner-with-the-same-tokens', len(joined) == 1 and len(joined[0]) == len(toks) and all(a is b for a, b in zip(joined[0], toks)))
    if all(l.endswith('=1') for l in v.ctx.labels if l.startswith('hex-pair')):
        v.cover('percent')  # one satisfiability query per harness is enough for the canary


for _k in range(9):
    if _k < 5:
        harness(PROP, M + ':decode', name='decode[percents=%d]' % _k, setup=_decode_setup, fix={'percents': _k})(_decode)
    else:  # split further for the worker pool
        for _m in (0, 1):
            harness(PROP, M + ':decode', name='decode[percents=%d,unquote_plus=%s]' % (_k, bool(_m)), setup=_decode_setup,
                    fix={'percents': _k, 'unquote_plus': _m})(_decode)


# ---------------------------------------------------------------------------
# 3. the encoder closure


@stubclass
class MapView:
    """map(table.__getitem__, <symbolic bytes>): only ever joined; the join is one uninterpreted function per table content."""

    def __init__(self, fn, seq):
        self.fn = fn
        self.seq = seq

    def __pyvc_iter__(self):
        raise Unreached('iteration over map() of a symbolic byte string')

    def __pyvc_join__(self, I, sep):
        if not (isinstance(sep, str) and sep == ''):
            raise Unreached('join of a mapped symbolic byte string with a separator')
        table = getattr(self.fn, '__self__', None)
        if not (isinstance(table, dict) and getattr(self.fn, '__name__', '') == '__getitem__'):
            raise Unreached('map() of something other than a dict lookup over symbolic bytes')
        I.ctx.ghost.setdefault('mapped', []).append((table, self.seq))
        return SStr(pct_join(table)(self.seq.t), 'str')


def pct_join(table):
    """''.join(table[b] for b in bytes): named by the table's content, so two different tables never share a function."""
    items = sorted((int(k), str(v)) for k, v in table.items())
    h = _hashlib.sha1(repr(items).encode()).hexdigest()[:12]
    return z3.Function('join-of-table-%s-over-bytes' % h, _STR, _STR)


def spec_table(is_value):
    allowed = allowed_set(is_value)
    return {b: spec_char(b, allowed) for b in range(256)}


def _map_model(I, fn, seq, *rest):
    if rest:
        raise Unreached('map() over several iterables')
    if isinstance(seq, SStr):
        return MapView(fn, seq)
    return [I.call(fn, [x], {}) for x in I.iterate(seq)]


_H = z3.Union(z3.Range('0', '9'), z3.Range('a', 'f'), z3.Range('A', 'F'))
_WS = z3.Union(z3.Range(chr(9), chr(13)), z3.Re(' '))  # what int() strips within ASCII (cross-checked against CPython on all 2-character ASCII strings)
_INT16_ASCII = z3.Concat(z3.Star(_WS), z3.Option(z3.Union(z3.Re('+'), z3.Re('-'))), z3.Option(z3.Concat(z3.Re('0'), z3.Union(z3.Re('x'), z3.Re('X')), z3.Option(z3.Re('_')))),
                         _H, z3.Star(z3.Concat(z3.Option(z3.Re('_')), _H)), z3.Star(_WS))
_PY_INT16 = z3.Function('py.int16', z3.StringSort(), z3.IntSort())


def int16_model(I, x, *rest):
    """int(s, 16) on a symbolic str: exact acceptance for ASCII text (the literal grammar of the language reference: blanks, sign, 0x, digits with
    single underscores); for text with non-ASCII characters (Unicode digits and spaces are accepted too) either outcome; the value is opaque."""
    if not rest or rest[0] != 16 or len(rest) > 1:
        raise Unreached('int() of a symbolic string with base %r' % (rest,))
    ctx = I.ctx
    if ctx.branch(z3.InRe(x.t, _INT16_ASCII), label='int16-arg-is-an-ascii-hex-literal'):
        return mk_int(_PY_INT16(x.t))
    if ctx.branch(z3.InRe(x.t, z3.Star(z3.Range(chr(0), chr(127)))), label='int16-arg-is-ascii'):
        ctx.raise_py(ValueError, 'invalid literal for int() with base 16')
    if ctx.choose(2, 'int16-of-non-ascii') == 0:
        ctx.raise_py(ValueError, 'invalid literal for int() with base 16')
    return mk_int(_PY_INT16(x.t))


def _encoder_setup(reg, ex):
    _common_setup(reg, ex)
    reg.add_model(map, _map_model)
    reg.int_parser = int16_model  # not used by the current source; a change that validates escapes with int(.., 16) stays decidable


def _run(v, fn, *args):
    if v.concrete:
        try:
            return Outcome(value=fn(*args))
        except Exception as e:  # noqa: BLE001
            return Outcome(exc=ExcVal(type(e), e.args, real=e))
    return v.interp.run(fn, args, {})


MAX_ESCAPES = 5


def in_class(x, chars):
    """x is exactly one character of `chars`."""
    if isinstance(x, SStr):
        return mk_bool(z3.InRe(x.t, _char_class(chars)))
    return len(x) == 1 and x in chars


SHAPES = ['empty', 'one-character', 'first-not-hex', 'second-not-hex']  # the four ways a text after '%' is NOT two hex digits + rest


def _piece(v, i, shape, allowed):
    """A text between two '%' (no '%' inside, allowed characters only) of the given shape, built from explicit first characters.

    Returns (piece, head) with head == piece[:2].  Shapes: 'escape' = HEXDIG HEXDIG allowed*; the four SHAPES; 'any' = allowed*.
    """
    if shape == 'any':
        p = v.str('p%d' % i)
        v.assume(in_star(p, allowed))
        return p, None
    if shape == 'empty':
        return '', ''
    c0 = v.str('p%d_c0' % i)
    if shape == 'one-character':
        v.assume(in_class(c0, allowed))
        return c0, (c0 if v.concrete else HeadStr([c0]))
    c1, rest = v.str('p%d_c1' % i), v.str('p%d_rest' % i)
    first = {'escape': HEXDIG, 'first-not-hex': allowed - HEXDIG, 'second-not-hex': HEXDIG}[shape]
    second = {'escape': HEXDIG, 'first-not-hex': allowed, 'second-not-hex': allowed - HEXDIG}[shape]
    v.assume(And(in_class(c0, first), in_class(c1, second), in_star(rest, allowed)))
    head = c0 + c1 if v.concrete else HeadStr([c0, c1])
    return head + rest, head


def _register_pieces(v, whole, pieces, heads, allowed=None):
    """The harness built `whole` as pieces joined by '%', no piece containing '%': that IS whole.split('%') (split is unique)."""
    if v.concrete:
        return
    g = v.ctx.ghost
    if isinstance(whole, SStr):
        g.setdefault('$pieces', {})[whole.t.get_id()] = (whole, PCT, list(pieces), allowed)
    for p, h in zip(pieces, heads):
        if isinstance(p, SStr) and h is not None:
            g.setdefault('$heads', {})[p.t.get_id()] = (p, h)


def _built_from_pieces(v, allowed):
    """p0 % p1 % ... % pk (1 <= k <= MAX_ESCAPES), every piece of allowed characters; the pieces before `malformed` are escapes
    (two hex digits + rest), piece `malformed` has one of the four SHAPES, the pieces after it are arbitrary (0: all are escapes)."""
    k = 1 + v.choose(MAX_ESCAPES, 'percents')
    malformed = v.choose(k + 1, 'first-malformed-escape')
    shape = SHAPES[v.choose(4, 'malformed-shape')] if malformed else None
    pieces, heads = [], []
    for i in range(k + 1):
        sh = 'any' if (i == 0 or (malformed and i > malformed)) else (shape if i == malformed else 'escape')
        p, h = _piece(v, i, sh, allowed)
        pieces.append(p)
        heads.append(h)
    uri = pieces[0]
    for p in pieces[1:]:
        uri = uri + PCT + p
    _register_pieces(v, uri, pieces, heads, allowed)
    if isinstance(uri, SStr):
        v.assume(mk_bool(z3.Not(SURR(uri.t))))  # ASCII only
    return uri, malformed


def _constructed_classes(v):
    """Lemma: the strings built by _built_from_pieces are what the encoder harness takes them for, by the statement's regular languages."""
    touch(v, M + ':_create_str_encoder')
    allowed = allowed_set(bool(v.choose(2, 'is_value')))
    uri, malformed = _built_from_pieces(v, allowed)
    v.check('has-a-character-outside-the-allowed-set', Not(in_star(uri, allowed)))
    v.check('consists-of-allowed-characters-and-percent-only', in_star(uri, allowed | {PCT}))
    v.check('fully-escaped-iff-no-malformed-escape', Iff(fully_escaped(uri, allowed), not malformed))
    v.cover('classified')


for _iv in (0, 1):
    harness(PROP, M + ':_create_str_encoder', name='constructed_classes[is_value=%d]' % _iv, setup=_common_setup, fix={'is_value': _iv})(_constructed_classes)

INPUT_CLASSES = ['only-allowed-characters', 'some-character-neither-allowed-nor-percent', 'allowed-characters-and-percents']  # of _encoder


def _encoder(v):
    """_create_str_encoder(is_value, check_is_escaped) run from source, then its inner `encoder` on every string of three classes."""
    is_value = bool(v.choose(2, 'is_value'))
    check = bool(v.choose(2, 'check_is_escaped'))
    allowed = allowed_set(is_value)
    if not v.concrete:
        v.interp.max_unroll = 300
    fac = v.call(is_value, check)
    v.check('factory-never-raises', fac.exc is None)
    if fac.exc is not None:
        return
    cls = v.choose(len(INPUT_CLASSES), 'input-class')
    malformed = None
    if cls == 0:
        uri = scalar_str(v, 'uri')
        v.assume(in_star(uri, allowed))
    elif cls == 1:
        uri = scalar_str(v, 'uri')
        v.assume(Not(in_star(uri, allowed | {PCT})))
    else:
        uri, malformed = _built_from_pieces(v, allowed)
    out = _run(v, fac.value, uri)
    v.check('never-raises', out.exc is None)
    if out.exc is not None:
        return
    r = out.value
    mapped = [] if v.concrete else v.ctx.ghost.get('mapped', [])
    # (that class 2 is what its name says, by the independent regular expressions of the statement: harness constructed_classes)
    if cls == 1:
        v.check('class-is-not-fully-escaped', Not(fully_escaped(uri, allowed)))
    # --- specification -------------------------------------------------------------------------------------------------------------
    if cls == 0:
        v.check('allowed-only-string-is-returned-unchanged', r == uri)
        v.check('unchanged-string-is-not-encoded', len(mapped) == 0)
        v.cover('only-allowed')
        return
    if check and cls == 2 and not malformed:
        v.check('fully-escaped-string-is-returned-unchanged', r == uri)
        v.check('unchanged-string-is-not-encoded', len(mapped) == 0)
        v.cover('already-escaped')
        return
    if v.concrete:
        v.check('otherwise-every-utf8-byte-goes-through-the-character-table', r == ref_encode(uri, is_value, check))
        return
    want = SStr(pct_join(spec_table(is_value))(_s(utf8_encoded(v.ctx, uri))), 'str')
    v.check('otherwise-every-utf8-byte-goes-through-the-character-table', r == want)
    v.check('the-table-used-is-the-rfc3986-table', len(mapped) == 1 and mapped[0][0] == spec_table(is_value))
    v.cover('encoded')


for _iv in (0, 1):
    for _ck in (0, 1):
        harness(PROP, M + ':_create_str_encoder', name='encoder[is_value=%d,check_is_escaped=%d]' % (_iv, _ck), setup=_encoder_setup,
                inline=[M + ':_create_char_encoder'], fix={'is_value': _iv, 'check_is_escaped': _ck})(_encoder)


@harness(PROP, M + ':_create_str_encoder', name='escape_shapes_are_exhaustive', setup=_common_setup)
def escape_shapes_are_exhaustive(v):
    """A text of allowed characters is an escape body (HEXDIG HEXDIG rest) or has exactly one of the four malformed SHAPES."""
    touch(v, M + ':_create_str_encoder')
    if v.concrete:
        return
    is_value = bool(v.choose(2, 'is_value'))
    allowed = allowed_set(is_value)
    x = v.str('x')
    v.assume(in_star(x, allowed))
    a, h, nh = _char_class(allowed), _char_class(HEXDIG), _char_class(allowed - HEXDIG)
    star = _re_star(allowed)
    shapes = [z3.Re(z3.StringVal('')), a, z3.Concat(nh, a, star), z3.Concat(h, nh, star), z3.Concat(h, h, star)]
    v.check('every-allowed-text-has-one-of-the-five-shapes', mk_bool(z3.InRe(x.t, z3.Union(*shapes))))
    v.cover('checked')


# ---------------------------------------------------------------------------
# 4. parse_host, unquote_string

PY_INT = z3.Function('int(str)', _STR, z3.IntSort())
INT_MAX_STR_DIGITS = 4300  # sys.int_info.default_max_str_digits: int() of a longer digit string raises ValueError


def is_port_digits(x):
    """1*DIGIT (a numeric RFC 3986 port), short enough for int()."""
    if isinstance(x, SStr):
        return mk_bool(z3.And(z3.InRe(x.t, _re_digits()), z3.Length(x.t) <= INT_MAX_STR_DIGITS))
    return bool(_re.fullmatch('[0-9]+', x)) and len(x) <= INT_MAX_STR_DIGITS


def port_value(x):
    if isinstance(x, SStr):
        return mk_int(z3.StrToInt(x.t))
    return int(x)


def int_model(I, x, *rest):
    """int(s): the decimal value for 1*DIGIT; anything else either raises ValueError or (sign, blanks, '_', non-ASCII digits) yields some int."""
    if rest:
        raise Unreached('int() with a base')
    ctx = I.ctx
    calls = ctx.ghost.setdefault('int-calls', [])
    if ctx.branch(_b(is_port_digits(x)), label='int-arg-is-digits'):
        calls.append((x, 'digits'))
        return port_value(x)
    if ctx.choose(2, 'int-of-non-digits') == 0:
        calls.append((x, 'raised'))
        ctx.raise_py(ValueError, 'invalid literal for int() with base 10')
    calls.append((x, 'other-literal'))
    return mk_int(PY_INT(x.t))


def _b(x):
    return x.t if hasattr(x, 't') else z3.BoolVal(bool(x))


def _occurrence(ctx, s, sep, last=False):
    """s == head ++ sep ++ tail at the first (last) occurrence of the literal sep (a word equation), or no occurrence."""
    cache = ctx.ghost.setdefault('$occ', {})
    sep_t = _s(sep)
    key = (s.t.get_id(), sep, last)
    if key in cache:
        return cache[key][0]
    if ctx.branch(z3.Contains(s.t, sep_t), label='contains-%s' % (sep,)):
        h, t = ctx.fresh_str('head', s.kind), ctx.fresh_str('tail', s.kind)
        ctx.assume(mk_bool(s.t == z3.Concat(h.t, sep_t, t.t)))
        if not last:
            ctx.assume(mk_bool(z3.Not(z3.Contains(z3.Concat(h.t, _s(sep[:-1])) if len(sep) > 1 else h.t, sep_t))))
        else:
            ctx.assume(mk_bool(z3.Not(z3.Contains(z3.Concat(_s(sep[1:]), t.t) if len(sep) > 1 else t.t, sep_t))))
        res = (True, h, t)
    else:
        res = (False, None, None)
    cache[key] = (res, s.t)
    return res


def _lit(x):
    return isinstance(x, str) and len(x) > 0


def _hook_find(ctx, s, sub, start=0):
    if not _lit(sub) or not (isinstance(start, int) and start == 0):
        return NotImplemented
    found, h, t = _occurrence(ctx, s, sub)
    return h.length() if found else -1


def _hook_rfind(ctx, s, sub):
    if not _lit(sub):
        return NotImplemented
    found, h, t = _occurrence(ctx, s, sub, last=True)
    return h.length() if found else -1


def _hook_partition(ctx, s, sep):
    if not _lit(sep):
        return NotImplemented
    found, h, t = _occurrence(ctx, s, sep)
    return (h, sep, t) if found else (s, '', '')


def _host_setup(reg, ex):
    _common_setup(reg, ex)
    reg.int_parser = int_model
    ex.str_hooks.update({'find': _hook_find, 'rfind': _hook_rfind, 'partition': _hook_partition})
    # z3 5.x leaves these word-equation VCs unknown, cvc5 decides them in well under a second: hand over quickly
    ex.incremental_timeout_ms = 300
    ex.check_timeout_ms = 1500
    ex.branch_timeout_ms = 1000


def _default_port(v):
    return v.int('default_port') if v.choose(2, 'default-port-given') else None


FORMS = ['[ip-literal]:port', '[ip-literal]', 'name:port', 'name', 'bare-ipv6']


def _parse_host_forms(v):
    """The RFC 3986 authority forms (host [":" port]); ports are 1*DIGIT."""
    form = v.choose(len(FORMS), 'form')
    dp = _default_port(v)
    if form in (0, 1):
        a = v.str('ip_literal')  # IPv6address / IPvFuture: never contains ']'
        v.assume(Not(contains(a, ']')))
        if form == 0:
            p = v.str('port')
            v.assume(is_port_digits(p))
            host, want = '[' + a + ']:' + p, (a, port_value(p))
        else:
            host, want = '[' + a + ']', (a, dp)
    elif form == 2:
        n, p = v.str('name'), v.str('port')  # reg-name / IPv4address: no ':' and no leading '['
        v.assume(And(Not(contains(n, ':')), Not(n.startswith('[')), is_port_digits(p)))
        host, want = n + ':' + p, (n, port_value(p))
    elif form == 3:
        n = v.str('name')
        v.assume(And(Not(contains(n, ':')), Not(n.startswith('['))))
        host, want = n, (n, dp)
    else:
        x, y, z = v.str('x'), v.str('y'), v.str('z')  # an address with at least two colons, not in brackets
        host = x + ':' + y + ':' + z
        v.assume(Not(host.startswith('[')))
        want = (host, dp)
    out = v.call(host, dp) if dp is not None else v.call(host)
    v.check('valid-authority-never-raises', out.exc is None)
    if out.exc is not None:
        return
    got = out.value
    ok = isinstance(got, tuple) and len(got) == 2
    v.check('returns-a-host-port-pair', ok)
    if not ok:
        return
    v.check('host-part', got[0] == want[0])
    if want[1] is None:
        v.check('port-is-the-default-when-absent', got[1] is None)
    else:
        v.check('port-is-the-default-when-absent' if form in (1, 3, 4) else 'port-is-the-number-after-the-colon', got[1] is not None and got[1] == want[1])
    v.cover('form-%d' % form)


for _f in range(len(FORMS)):
    harness(PROP, M + ':parse_host', name='parse_host[%s]' % FORMS[_f], setup=_host_setup, fix={'form': _f})(_parse_host_forms)


def ref_port_part(host):
    """The text parse_host hands to int(), by the documentation (None when the authority carries no port)."""
    if host.startswith('['):
        return host.rsplit(']:', 1)[1] if ']:' in host else None
    return host.split(':')[1] if host.count(':') == 1 else None


@harness(PROP, M + ':parse_host', name='parse_host[any-string]', setup=_host_setup)
def parse_host_any(v):
    """Any string at all: the only escape is int()'s ValueError on a port part that is not a number (recorded for C09)."""
    host = v.str('host')
    dp = _default_port(v)
    out = v.call(host, dp) if dp is not None else v.call(host)
    if v.concrete:
        part = ref_port_part(host)
        if out.exc is not None:
            v.check('raises-only-ValueError', out.exc.isa(ValueError))
            v.check('raises-only-when-the-port-part-is-not-an-integer', part is not None and not is_port_digits(part))
        else:
            v.check('digit-port-is-returned-as-its-value', part is None or not is_port_digits(part) or out.value[1] == int(part))
        return
    calls = v.ctx.ghost.get('int-calls', [])
    if out.exc is not None:
        v.check('raises-only-ValueError', out.exc.isa(ValueError))
        ok = len(calls) == 1 and calls[0][1] == 'raised'
        v.check('raises-only-when-the-port-part-is-not-an-integer', And(host.endswith(calls[0][0]), Not(is_port_digits(calls[0][0]))) if ok else False)
        v.cover('raises')
        return
    got = out.value
    v.check('returns-a-host-port-pair', isinstance(got, tuple) and len(got) == 2)
    if calls and calls[0][1] == 'digits':
        v.check('digit-port-is-returned-as-its-value', And(got[1] == port_value(calls[0][0]), host.endswith(calls[0][0])))
        v.cover('numeric-port')
    if not calls:
        v.check('without-a-port-the-default-is-returned-unchanged', (got[1] is None) if dp is None else (got[1] == dp))
        v.cover('no-port')


BS = '\\'


def ref_unquote(q):
    """RFC 7230 quoted-string, as a left-to-right scanner: drop the DQUOTEs, a backslash quotes the next character."""
    if len(q) < 2 or q[0] != '"' or q[-1] != '"':
        return q
    inner, out, i = q[1:-1], [], 0
    while i < len(inner):
        if inner[i] == BS and i + 1 < len(inner):
            out.append(inner[i + 1])
            i += 2
        elif inner[i] == BS:
            i += 1  # a trailing lone backslash quotes nothing
        else:
            out.append(inner[i])
            i += 1
    return ''.join(out)


UNQUOTE_CLASSES = ['shorter-than-two', 'not-enclosed-in-double-quotes', 'quoted-without-backslash', 'quoted-with-quoted-pairs']


@harness(PROP, M + ':unquote_string', name='unquote_string', setup=_common_setup)
def unquote_string(v):
    """Path-wise over four classes of input that together are every string without an escaped backslash inside the quotes."""
    cls = v.choose(4, 'class')
    inner = None
    if cls == 0:
        q = v.str('quoted')
        v.assume(Len(q) < 2)
    elif cls == 1:
        q = v.str('quoted')
        v.assume(And(Len(q) >= 2, Not(And(q.startswith('"'), q.endswith('"')))))
    else:
        inner = v.str('inner')
        v.assume(Not(contains(inner, BS)) if cls == 2 else And(contains(inner, BS), Not(contains(inner, BS + BS))))
        q = '"' + inner + '"'
        if not v.concrete:
            v.ctx.ghost.setdefault('$inner', {})[q.t.get_id()] = (q, inner)  # q[1:-1] is `inner` by construction
    out = v.call(q)
    v.check('never-raises', out.exc is None)
    if out.exc is not None:
        return
    r = out.value
    if cls in (0, 1):
        v.check('not-quoted-is-returned-unchanged', r == q)
    elif cls == 2:
        v.check('quoted-text-is-returned-without-the-quotes', r == inner)
    elif v.concrete:
        v.check('quoted-pairs-lose-their-backslash', r == ref_unquote(q))
    else:
        # no backslash is itself escaped here, so every backslash quotes the character after it: they all disappear
        v.check('quoted-pairs-lose-their-backslash', r == replaced(v.ctx, inner, BS, ''))
    v.cover(UNQUOTE_CLASSES[cls])


# ---------------------------------------------------------------------------

ASSUMPTIONS = [
    'str arguments are sequences of Unicode scalar values (no lone surrogates): str.encode("utf-8") raises UnicodeEncodeError otherwise. '
    'Witnesses outside the assumption, unchanged tree: uri.decode("%\\ud800") and uri.encode_value("\\ud800") raise UnicodeEncodeError '
    '(WSGI / ASGI servers hand over latin-1 / utf-8 decoded text, which never contains one)',
    'Python codecs: utf8 = str.encode("utf-8") and utf8r = bytes.decode("utf-8", "replace") are uninterpreted functions; utf8r is total (never raises). '
    'Used in the READING of the token spec, not by any obligation: utf8r(utf8(s)) == s, and utf8(s) contains the byte 0x25 exactly where s contains "%" '
    '(so "k percent characters" and "k+1 tokens" are the same thing)',
    'str.replace(a, b) for single ASCII characters is an uninterpreted function with: no a left, identity when a is absent, length kept (b non-empty), '
    '"%" neither added nor removed, no surrogate added or removed',
    'str.rstrip(chars): the result is empty exactly when the string consists of chars only (all the subject asks)',
    'str.split(sep) is modelled exactly for a harness-chosen number of pieces: s == p0 ++ sep ++ ... ++ pn with no occurrence of sep starting inside a piece; '
    'each decode harness fixes the number of pieces (this is the bound stated under NOT_DECIDED); a string the harness built itself as pieces joined by "%" '
    '(pieces without "%") splits into exactly those pieces (uniqueness of split)',
    's[a:b] for literal non-negative a, b is str.substr(s, a, b - a), s[a:] is str.substr(s, a, |s|) (SMT-LIB substr clamps exactly like Python slicing); '
    '"x in <literal>" is "x is one of the finitely many substrings of the literal"',
    'bytearray(b) is modelled by the immutable byte string b (the subject only uses += on an unaliased local and .decode)',
    "''.join(map(table.__getitem__, bs)) over a symbolic byte string is one uninterpreted function per table CONTENT (per-byte homomorphism not axiomatised)",
    'int(s) returns the decimal value for 1*DIGIT up to sys.int_info.default_max_str_digits = 4300 digits; for any other text it raises ValueError or returns some int '
    '(sign, blanks, underscores, non-ASCII digits)',
    '_HEX_TO_BYTE is read through the HexTable view (key present iff two hex digits; one byte) -- exactly what hex_to_byte_table decides by enumeration on the same run',
    'the token spec D equals the scanner reading of the statement (a "%" starts an escape iff the next two characters are hex digits; hex digits are never "%", so '
    'escapes cannot overlap): paper argument; the bounded stand-in compares against the scanner',
    'encoder harnesses: the three input classes (allowed only / some character neither allowed nor "%" / allowed characters and k >= 1 percents) are complementary by '
    'definition; inside the third, each text after a "%" is an escape body or has one of four malformed shapes (harness escape_shapes_are_exhaustive decides that), '
    'and harness constructed_classes decides with the statement\'s regular languages that the constructed strings are / are not "fully escaped" as the encoder harness takes them',
]
NOT_DECIDED = [
    'falcon/cyutil/uri.pyx (the Cython twin of decode / parse_query_string) is out of reach of the ast executor; with the compiled extension present it REPLACES decode at import '
    '(the bounded stand-in records whether it is in use: not on the source-only overlay)',
    'decode for inputs with more than 8 "%" and the joiners for more than 9 tokens: the same loop body runs once per token; proved by unrolling up to 9 tokens '
    '(the 2-token case is the inductive step "accumulator ++ f(token)" for an arbitrary accumulator); the induction itself is not mechanised -> bounded stand-in',
    'decode(encode_value(s)) == s, decode(encode(s), unquote_plus=False) == s, idempotence of the check-escaped encoders: need induction over the string -> bounded stand-in',
    'encoder output alphabet on the slow path follows from "result = join(map(table, utf8 bytes))" (decided) and the table enumeration (decided) by a one-line homomorphism '
    'argument that is not mechanised -> also bounded',
    'the already-escaped early return is decided for at most %d "%%" characters per string (any length otherwise) -> beyond that bounded' % MAX_ESCAPES,
    'unquote_string on texts containing an escaped backslash (split on two backslashes, join): loop over a symbolic split -> bounded stand-in against the scanner',
    'parse_host on strings that are not RFC 3986 authorities is only shown total up to ValueError (e.g. "[abc" -> ("ab", default)); '
    'an empty port ("example.org:") is a valid RFC 3986 authority (port = *DIGIT) without a NUMERIC port and raises ValueError: listed as an observation by the bounded '
    'stand-in, same root cause as the C09 finding (unguarded int()); authorities with userinfo ("user@host") are not Host header values and are not covered',
    'decode(encode(s)) with the DEFAULT unquote_plus=True is not the identity when s contains "+" (encode keeps the sub-delim "+", decode turns it into a space): '
    'the statement speaks of encoded VALUES; listed as an observation by the bounded stand-in',
    'parse_query_string (property C08) and the wiring of these helpers into Request / Response (C09, C15)',
]
TRUSTED = [
    'codec_model, replaced, _rstrip_axioms, _split_model, _hook_slice, _hook_contains, HeadStr, _bytearray_model, MapView/_map_model, int_model, '
    '_occurrence hooks (find / rfind / partition as word equations), HexTable in contracts/C10_uri.py',
    'the module-level name _HEX_TO_BYTE is rebound to the HexTable view while a subject runs symbolically (class hex_table)',
    'table harnesses inspect live objects of the overlay import (closure cells of the public encoders, the module dict) -- evaluation of the current source, not symbolic execution; '
    'the factory itself is additionally run from its source by the executor (char_encoder_table, encoder[...])',
    'Explorer timeouts are shortened for the parse_host harnesses so that the cvc5 portfolio decides their word-equation VCs (z3 5.x returns unknown on them)',
    'lemma harnesses (constructed_classes, escape_shapes_are_exhaustive) are used by the encoder harnesses as facts about the same construction function (_built_from_pieces)',
]

# ---------------------------------------------------------------------------
# BOUNDED STAND-IN -- never counted as proved.  Runs in a subprocess on the source-only overlay.

_BOUNDED_SCRIPT = r"""
import itertools, json, random, re, sys, time
tier, seed = sys.argv[1], int(sys.argv[2])
from falcon.util import uri as U

ALPHABET = ['%', '+', '4', '1', 'a', 'F', 'g', '/', '-', ' ', '\x00', 'é', '€', '\U0001F600']
UNRESERVED = set('ABCDEFGHIJKLMNOPQRSTUVWXYZabcdefghijklmnopqrstuvwxyz0123456789-._~')
RESERVED = set(":/?#[]@!$&'()*+,;=")
HEX = set('0123456789ABCDEFabcdef')
UP = '0123456789ABCDEF'
MAXLEN = 5 if tier == 'thorough' else 4
NRANDOM = 4000 if tier == 'thorough' else 400
results = []


class Bucket:
    def __init__(self, name, bound):
        self.d = {'name': name, 'bound': bound, 'cases': 0, 'failures': [], 'label': 'bounded -- not counted as proved'}
        results.append(self.d)

    def case(self, n=1):
        self.d['cases'] += n

    def fail(self, obligation, inp, got=None, want=None):
        if sum(1 for f in self.d['failures'] if f['obligation'] == obligation) < 5:
            self.d['failures'].append({'obligation': obligation, 'input': repr(inp), 'got': repr(got), 'want': repr(want)})

    def note(self, text):
        self.d.setdefault('observations', [])
        if text not in self.d['observations'] and len(self.d['observations']) < 2:
            self.d['observations'].append(text)


def hv(c):
    return '0123456789abcdef'.index(c.lower())


def ref_decode(s, plus=True):
    # the statement: well-formed %XX -> byte, malformed stays literal, '+' -> ' ' only when requested, UTF-8 with replacement
    out = bytearray()
    i, n = 0, len(s)
    while i < n:
        c = s[i]
        if c == '%' and i + 2 < n and s[i + 1] in HEX and s[i + 2] in HEX:
            out.append(16 * hv(s[i + 1]) + hv(s[i + 2]))
            i += 3
            continue
        if c == '+' and plus:
            c = ' '
        out += c.encode('utf-8')
        i += 1
    return bytes(out).decode('utf-8', 'replace')


def ref_escaped(s, allowed):
    i, n = 0, len(s)
    while i < n:
        if s[i] == '%':
            if not (i + 2 < n and s[i + 1] in HEX and s[i + 2] in HEX):
                return False
            i += 3
        elif s[i] in allowed:
            i += 1
        else:
            return False
    return True


def ref_encode(s, allowed, check):
    if all(c in allowed for c in s):
        return s
    if check and ref_escaped(s, allowed):
        return s
    return ''.join(chr(b) if chr(b) in allowed else '%' + UP[b >> 4] + UP[b & 15] for b in s.encode('utf-8'))


ENCODERS = [('encode', U.encode, UNRESERVED | RESERVED, False), ('encode_value', U.encode_value, UNRESERVED, False),
            ('encode_check_escaped', U.encode_check_escaped, UNRESERVED | RESERVED, True),
            ('encode_value_check_escaped', U.encode_value_check_escaped, UNRESERVED, True)]


def out_re(allowed, any_case):
    cls = ''.join(re.escape(c) for c in sorted(allowed))
    return re.compile('(?:[' + cls + ']|%[0-9A-F' + ('a-f' if any_case else '') + ']{2})*\\Z')


OUT_RE = {name: out_re(allowed, check) for name, fn, allowed, check in ENCODERS}


def exhaustive(alphabet, maxlen):
    for n in range(maxlen + 1):
        for t in itertools.product(alphabet, repeat=n):
            yield ''.join(t)


rng = random.Random(seed)
PIECES = ['%', '%41', '%e9', '%C3%A9', '%F0%9F%98%80', '%zz', '%4', '%%', '+', 'a', 'Zz09-._~', 'é', '\U0001F600', ' ', '\x00', '/', '?k=v&', '%2B', '%25', '%fF']


def random_long():
    n = rng.choice([1, 2, 7, 8, 9, 20, 200, 1500])
    parts = []
    for _ in range(n):
        c = rng.random()
        if c < 0.15:
            parts.append('%' + rng.choice(UP + 'abcdefgz') + rng.choice(UP + 'abcdef+ '))
        else:
            parts.append(rng.choice(PIECES))
    return ''.join(parts)


def call(fn, *a, **k):
    try:
        return fn(*a, **k), None
    except Exception as e:  # noqa: BLE001
        return None, e


def check_string(B, s):
    # (a) decode against the reference
    for plus in (True, False):
        got, exc = call(U.decode, s, unquote_plus=plus)
        B['decode'].case()
        if exc is not None:
            B['decode'].fail('decode#never-fails', (s, plus), exc)
        elif got != ref_decode(s, plus):
            B['decode'].fail('decode#equals-the-reference-decoder', (s, plus), got, ref_decode(s, plus))
    got, exc = call(U.decode, s)
    if exc is not None or got != ref_decode(s, True):
        B['decode'].fail('decode#default-unquotes-plus', s, got if exc is None else exc, ref_decode(s, True))
    if '%' in s:
        # both token joiners directly (only one of them is reachable through decode on a given interpreter)
        tokens = s.encode('utf-8').split(b'%')
        want = ref_decode(s, False)
        for jn in ('_join_tokens_bytearray', '_join_tokens_list'):
            got, exc = call(getattr(U, jn), list(tokens))
            B['decode'].case()
            if exc is not None or got != want:
                B['decode'].fail(jn + '#equals-the-reference-decoder-on-the-split-tokens', s, got if exc is None else exc, want)
    for name, fn, allowed, chk in ENCODERS:
        e, exc = call(fn, s)
        B['encode'].case()
        if exc is not None:
            B['encode'].fail(name + '#never-raises', s, exc)
            continue
        # (d) output alphabet, and the reference encoder
        if not OUT_RE[name].match(e):
            B['encode'].fail(name + '#emits-only-allowed-characters-and-percent-escapes', s, e)
        if e != ref_encode(s, allowed, chk):
            B['encode'].fail(name + '#equals-the-reference-encoder', s, e, ref_encode(s, allowed, chk))
        if chk:
            # (c) fully escaped -> unchanged; idempotent
            if ref_escaped(s, allowed) and e != s:
                B['encode'].fail(name + '#fully-escaped-string-is-returned-unchanged', s, e, s)
            e2, exc2 = call(fn, e)
            if exc2 is not None or e2 != e:
                B['encode'].fail(name + '#idempotent', s, e2 if exc2 is None else exc2, e)
        else:
            # (b) round trips
            B['roundtrip'].case()
            if name == 'encode_value':
                for plus in (True, False):
                    d, exc3 = call(U.decode, e, unquote_plus=plus)
                    if exc3 is not None or d != s:
                        B['roundtrip'].fail('decode-of-encode_value-is-the-identity', (s, plus), d if exc3 is None else exc3, s)
            else:
                d, exc3 = call(U.decode, e, unquote_plus=False)
                if exc3 is not None or d != s:
                    B['roundtrip'].fail('decode-of-encode-is-the-identity(unquote_plus=False)', s, d if exc3 is None else exc3, s)
                d2, _ = call(U.decode, e)
                if d2 != s:
                    B['roundtrip'].note("decode(encode(s)) with the default unquote_plus=True is not s when s contains '+', e.g. s=%r -> %r "
                                        "(encode keeps the sub-delim '+'; not a value encoding)" % (s, d2))


t0 = time.time()
B = {
    'decode': Bucket('decode == reference decoder', 'all strings of length <= %d over the 14-symbol alphabet of the quantifier, both unquote_plus values; '
                     '+ token sequences crossing the 8-token switch; + %d seeded random strings up to several KB; both joiners directly on the split tokens' % (MAXLEN, NRANDOM)),
    'encode': Bucket('encoders == reference encoder; output alphabet; check-escaped unchanged/idempotent', 'same strings, four encoders; + all sequences of '
                     '<= %d items over an alphabet of allowed characters and escapes (fully escaped strings)' % MAXLEN),
    'roundtrip': Bucket('decode(encode_value(s)) == s, decode(encode(s), unquote_plus=False) == s', 'same strings'),
}
for s in exhaustive(ALPHABET, MAXLEN):
    check_string(B, s)
# the short/long switch: 7, 8, 9, 10 tokens (6..9 '%'), every mix of well-formed / malformed escapes
SW = ['%41', '%g', '%', 'x+']
for k in ((6, 7, 8, 9) if tier == 'thorough' else (6, 7, 8)):
    for t in itertools.product(SW[:3] if k > 7 else SW, repeat=k):
        for lead in ('', 'p'):
            check_string(B, lead + ''.join(t))
for _ in range(NRANDOM):
    check_string(B, random_long())
# fully escaped strings, systematically
ESC = ['a', 'Z', '0', '-', '~', '%41', '%e9', '%C3', '%00', '/', '+', '%2f']
for s in exhaustive(ESC, MAXLEN):
    check_string(B, s)

# (e) parse_host on RFC 3986 authorities (host [":" port]); Host header values carry no userinfo
H = Bucket('parse_host on RFC 3986 authorities', 'reg-names, IPv4, bracketed IP-literals x ports (none, 1..5 digits incl. leading zeros, seeded random) x default_port in (None, 8000); '
           'bare IPv6 addresses')
NAMES = ['example.org', 'localhost', 'a-b.c', 'xn--9ca', 'EXAMPLE.COM.', 'a_b~c', '%41bc', "sub!$&'()*+,;=x", '', '127.0.0.1', '0.0.0.0', '255.255.255.255']
LITERALS = ['::1', '2001:db8::1', '::ffff:192.0.2.1', 'v1.fe80::a+en1', '::', '2001:db8:85a3:8d3:1319:8a2e:370:7348', 'fe80::1%25eth0']
PORTS = [None, '0', '80', '443', '8080', '65535', '00080'] + [str(rng.randrange(0, 65536)) for _ in range(20)] + [''.join(rng.choice('0123456789') for _ in range(rng.randrange(1, 6))) for _ in range(20)]
for dp in (None, 8000):
    for host_text, host_want in [(n, n) for n in NAMES] + [('[' + l + ']', l) for l in LITERALS]:
        for port in PORTS:
            auth = host_text if port is None else host_text + ':' + port
            want = (host_want, dp if port is None else int(port))
            got, exc = call(U.parse_host, auth, dp) if dp is not None else call(U.parse_host, auth)
            H.case()
            if exc is not None:
                H.fail('parse_host#valid-authority-never-raises', (auth, dp), exc)
            elif got != want:
                H.fail('parse_host#returns-host-and-numeric-port', (auth, dp), got, want)
        # port = *DIGIT: the empty port is a valid RFC 3986 authority without a numeric port
        got, exc = call(U.parse_host, host_text + ':', dp)
        if exc is not None:
            H.note('empty port (RFC 3986 port = *DIGIT), e.g. parse_host(%r) raises %s; an authority without a NUMERIC port is outside the statement; '
                   'same root cause as the C09 finding (unguarded int())' % (host_text + ':', type(exc).__name__))
    for l in LITERALS[:6]:
        got, exc = call(U.parse_host, l, dp)
        H.case()
        if exc is not None or got != (l, dp):
            H.fail('parse_host#bare-ipv6-address-is-returned-whole', (l, dp), got if exc is None else exc, (l, dp))

# unquote_string against the left-to-right quoted-string scanner
Q = Bucket('unquote_string == RFC 7230 quoted-string scanner', 'all strings of length <= %d over {DQUOTE, backslash, a, space}' % (9 if tier == 'thorough' else 7))


def ref_unquote(q):
    if len(q) < 2 or q[0] != '"' or q[-1] != '"':
        return q
    inner, out, i = q[1:-1], [], 0
    while i < len(inner):
        if inner[i] == '\\' and i + 1 < len(inner):
            out.append(inner[i + 1])
            i += 2
        elif inner[i] == '\\':
            i += 1
        else:
            out.append(inner[i])
            i += 1
    return ''.join(out)


for q in exhaustive(['"', '\\', 'a', ' '], 9 if tier == 'thorough' else 7):
    got, exc = call(U.unquote_string, q)
    Q.case()
    if exc is not None:
        Q.fail('unquote_string#never-raises', q, exc)
    elif got != ref_unquote(q):
        Q.fail('unquote_string#equals-the-quoted-string-reading', q, got, ref_unquote(q))

meta = {'cython_decode_in_use': getattr(U, '_cy_uri', None) is not None, 'module_file': U.__file__, 'seconds': round(time.time() - t0, 1)}
for r in results:
    r['meta'] = meta
print(json.dumps(results))
"""


def bounded(tier, seed, overlay_dir):
    """BOUNDED stand-in for the parts of C10 that need induction.  Never counted as proved."""
    import json
    import os
    import subprocess

    env = dict(os.environ, PYTHONPATH=overlay_dir, PYTHONDONTWRITEBYTECODE='1')
    env.pop('PYTHONHOME', None)
    p = subprocess.run(['/venv/bin/python', '-B', '-c', _BOUNDED_SCRIPT, 'thorough' if tier == 'thorough' else 'quick', str(int(seed or 0))],
                       capture_output=True, text=True, env=env, cwd=overlay_dir, timeout=3600)
    if p.returncode != 0:
        return [{'name': 'C10 bounded stand-in', 'bound': '', 'cases': 0, 'failures': [], 'error': (p.stderr or p.stdout)[-3000:]}]
    return json.loads(p.stdout.strip().splitlines()[-1])


_F = 'falcon/util/uri.py'
# (file, old text occurring exactly once, new text, substring of an obligation that must be refuted).  All were run on scratch
# copies (PYVC_REPO); "proof" = refuted by a proof obligation with a counter-model replayed on the edited code, "bounded" = also (or
# only) reported by the bounded stand-in.
KILLS = [
    # lower-case hex in the encoder table                                        -> proof (table enumeration) + bounded
    (_F, "            encoded_char = '%{0:02X}'.format(code_point)\n", "            encoded_char = '%{0:02x}'.format(code_point)\n",
     '_create_char_encoder#every-other-byte-maps-to-its-upper-case-percent-escape'),
    # '!' added to the unreserved set                                             -> proof only (no '!' in the quantifier's alphabet)
    (_F, "0123456789-._~'\n", "0123456789-._~!'\n", '_create_char_encoder#allowed-constant-is-exactly-the-rfc3986-set'),
    # '*' removed from the delimiters                                             -> proof only
    (_F, "_DELIMITERS = \":/?#[]@!$&'()*+,;=\"\n", "_DELIMITERS = \":/?#[]@!$&'()+,;=\"\n", '_create_char_encoder#delimiters-constant-is-gen-delims-plus-sub-delims'),
    # lower-case hex digits no longer accepted on input                          -> proof (65536-key enumeration) + bounded
    (_F, "_HEX_DIGITS = '0123456789ABCDEFabcdef'\n", "_HEX_DIGITS = '0123456789ABCDEF'\n", '_join_tokens_bytearray#key-present-iff-two-hex-digits-of-either-case'),
    # decode's in-place (< 8 tokens) path forgets the literal '%' of a malformed escape -> proof + bounded
    (_F, "                reencoded_uri += b'%' + token\n", "                reencoded_uri += token\n", 'decode#equals-the-reference-decoder'),
    # the bytearray joiner drops the tail of a decoded token                     -> proof + bounded
    (_F, "            decoded_uri += _HEX_TO_BYTE[token_partial] + token[2:]\n", "            decoded_uri += _HEX_TO_BYTE[token_partial]\n",
     '_join_tokens_bytearray#result-is-utf8-replace-of-first-token-then-each-token-decoded-or-kept-literal'),
    # the list joiner (PyPy only) forgets the literal '%'                        -> proof; bounded only through the direct joiner differential
    (_F, "            decoded.append(b'%' + token)\n", "            decoded.append(token)\n",
     '_join_tokens_list#result-is-utf8-replace-of-first-token-then-each-token-decoded-or-kept-literal'),
    # '+' decoded unconditionally                                                 -> proof + bounded
    (_F, "    if '+' in decoded_uri and unquote_plus:\n", "    if '+' in decoded_uri:\n", 'decode#equals-the-reference-decoder'),
    # parse_host: find -> rfind, a bare IPv6 address is torn apart                -> proof (cvc5 / z3) + bounded
    (_F, "    if (pos == -1) or (pos != host.find(':')):\n", "    if (pos == -1) or (pos != host.rfind(':')):\n", 'parse_host#valid-authority-never-raises'),
    # parse_host: port slice off by one                                           -> proof + bounded
    (_F, "            return (host[1:pos], int(host[pos + 2 :]))\n", "            return (host[1:pos], int(host[pos + 1 :]))\n", 'parse_host#valid-authority-never-raises'),
    # already-escaped check looks at the first hex digit only                     -> proof + bounded
    (_F, "                if not (hex_octet[0] in _HEX_DIGITS and hex_octet[1] in _HEX_DIGITS):\n", "                if not (hex_octet[0] in _HEX_DIGITS):\n",
     '_create_str_encoder#otherwise-every-utf8-byte-goes-through-the-character-table'),
    # encoder fast path taken for strings that contain '%'                        -> proof + bounded
    (_F, "        if not uri.rstrip(allowed_chars):\n", "        if not uri.rstrip(allowed_chars_plus_percent):\n",
     '_create_str_encoder#otherwise-every-utf8-byte-goes-through-the-character-table'),
    # unquote_string keeps the closing quote                                      -> proof + bounded
    (_F, "    tmp_quoted = quoted[1:-1]\n", "    tmp_quoted = quoted[1:]\n", 'unquote_string#quoted-text-is-returned-without-the-quotes'),
]
HARMLESS = [
    # the short/long switch moved: both paths compute the same function
    (_F, "    if len(tokens) < 8:\n", "    if len(tokens) < 6:\n"),
    # a local renamed
    (_F, "        token_partial = token[:2]\n        try:\n            decoded.append(_HEX_TO_BYTE[token_partial] + token[2:])\n",
     "        head = token[:2]\n        try:\n            decoded.append(_HEX_TO_BYTE[head] + token[2:])\n"),
    # find and rfind exchanged in BOTH places of parse_host: the same predicate "exactly one colon"
    (_F, "    pos = host.rfind(':')\n    if (pos == -1) or (pos != host.find(':')):\n", "    pos = host.find(':')\n    if (pos == -1) or (pos != host.rfind(':')):\n"),
]
