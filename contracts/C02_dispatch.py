"""C02 -- dispatch order; 404 / 405 / OPTIONS are exact.

Contracts on
  falcon/app.py        App._get_responder, add_sink, add_static_route, _update_sink_and_static_routes
  falcon/asgi/app.py   App.add_sink
  falcon/routing/util.py   map_http_methods, set_default_responders
  falcon/responders.py     path_not_found[_async], bad_request[_async], create_method_not_allowed, create_default_options
  falcon/routing/static.py StaticRoute.match
"""
from __future__ import annotations

from pyvc.core import And, Iff, Implies, Ite, Len, Not, Or
from pyvc.harness import harness, stubclass

PROP = 'C02'
APP = 'falcon.app:App'
AAPP = 'falcon.asgi.app:App'


# ---------------------------------------------------------------------------
# opaque participants


class Tok:
    """An opaque object (a resource, a responder, a sink, a params dict ...) known only by identity."""

    __pyvc_symbolic__ = True

    def __init__(self, name):
        self.name = name

    def __repr__(self):
        return '<%s>' % self.name


@stubclass
class Req:
    """falcon.Request as far as _get_responder reads it."""

    def __init__(self, v):
        self.path = v.str('path')
        self.method = v.str('method')
        self.is_websocket = v.bool('is_websocket')


@stubclass
class RouterSearch:
    """The router's find(): opaque, returns what the harness decided."""

    def __init__(self, result):
        self.result = result
        self.calls = []

    def __call__(self, path, req=None):
        self.calls.append((path, req))
        return self.result


@stubclass
class MethodMap:
    """An arbitrary mapping: the looked-up key is either bound to `responder` or absent."""

    def __init__(self, v, has, responder):
        self.v = v
        self.has = has
        self.responder = responder
        self.asked = []

    def __pyvc_getitem__(self, k):
        self.asked.append(k)
        if self.has:
            return self.responder
        self.v.ctx.raise_py(KeyError, k)

    def __getitem__(self, k):
        self.asked.append(k)
        if self.has:
            return self.responder
        raise KeyError(k)


@stubclass
class MatchObj:
    """What a sink pattern's match() returns on success (re.Match): truthy, has groupdict()."""

    def __init__(self, owner):
        self.owner = owner

    def groupdict(self):
        o = self.owner
        o.v.check('groupdict-only-asked-of-a-sink-match', o.is_sink)
        return o.groups


@stubclass
class Matcher:
    """A sink prefix pattern or a static route, observed through match(path) only (a pure predicate of the path)."""

    def __init__(self, v, idx, is_sink, matches, log):
        self.v = v
        self.idx = idx
        self.is_sink = is_sink
        self.matches = matches  # symbolic bool: does this entry match the request path
        self.groups = Tok('groupdict%d' % idx)
        self.log = log

    def match(self, path):
        self.log.append((self.idx, path))
        if self.matches:  # forks
            return MatchObj(self) if self.is_sink else True
        return None if self.is_sink else False


def app_obj(v, asgi, **fields):
    return v.obj(AAPP if asgi else APP, **fields)


def same_str(a, b):
    return a == b


# ---------------------------------------------------------------------------
# _get_responder


def get_responder(v):
    asgi = v.choose(2, 'asgi-app?')
    cls = v.real(AAPP if asgi else APP)
    req = Req(v)
    RES, RESP, PARAMS = Tok('resource'), Tok('responder'), Tok('route-params')
    tmpl = v.str('uri_template')
    kind = v.choose(5, 'route-result')
    has = None
    mm = None
    if kind == 0:
        route = None
    elif kind in (1, 2):
        has = v.choose(2, 'method-in-map?')
        mm = MethodMap(v, has, RESP)
        route = (RES, mm, PARAMS, tmpl) if kind == 1 else (RES, mm, PARAMS)
    elif kind == 3:
        route = (None, None, None)  # legacy routers: "not found"
    else:
        route = (None, None, None, None)
    search = RouterSearch(route)

    n = v.choose(4, 'table-length')
    log = []
    entries = []
    ms = []
    for i in range(n):
        is_sink = bool(v.choose(2, 'entry%d-is-sink?' % i))
        m = v.bool('match%d' % i)
        ms.append(m)
        mt = Matcher(v, i, is_sink, m, log)
        entries.append((mt, Tok('sink%d' % i) if is_sink else mt, is_sink))
    app = app_obj(v, asgi, _router_search=search, _sink_and_static_routes=tuple(entries))

    out = v.call(app, req)
    v.check('no-exception', out.exc is None)
    if out.exc is not None:
        return
    responder, params, resource, uri_template = out.value
    expected_key = 'WEBSOCKET' if req.is_websocket else req.method  # forks in symbolic mode
    v.check('router-searched-once-with-request-path',
            len(search.calls) == 1 and search.calls[0][0] is req.path and search.calls[0][1] is req)

    if kind in (1, 2):
        # a route matched
        v.check('route-masks-sinks-and-static-routes', len(log) == 0)
        v.check('route-lookup-is-by-request-method-or-WEBSOCKET', len(mm.asked) == 1 and same_str(mm.asked[0], expected_key))
        if has:
            v.check('route-responder-is-method-map-entry', responder is RESP)
            v.cover('route-with-method')
        else:
            v.check('route-without-method-gets-bad-request-default', responder is cls._default_responder_bad_request)
            v.cover('route-without-method')
        v.check('route-fields-are-the-params', params is PARAMS)
        v.check('route-resource-returned', resource is RES)
        v.check('route-template-returned', (uri_template is tmpl) if kind == 1 else (uri_template is None))
        return

    # no route: ordered scan of the combined table
    v.check('no-route-resource-is-none', resource is None)
    v.check('no-route-template-is-none', uri_template is None)
    v.check('matchers-see-the-request-path', all(p is req.path for _, p in log))
    consulted = [i for i, _ in log]
    none_matches = And(*[Not(m) for m in ms])
    for i in range(n):
        first = And(ms[i], *[Not(m) for m in ms[:i]])
        mt, obj, is_sink = entries[i]
        v.check('fallback-is-first-matching-entry', Implies(first, responder is obj))
        v.check('fallback-params-groupdict-for-sink-empty-for-static',
                Implies(first, (params is mt.groups) if is_sink else (isinstance(params, dict) and params == {})))
        v.check('scan-stops-at-first-match', Implies(first, consulted == list(range(i + 1))))
    v.check('no-match-yields-404-default', Implies(none_matches, responder is cls._default_responder_path_not_found))
    v.check('no-match-params-empty', Implies(none_matches, isinstance(params, dict) and params == {}))
    v.check('no-match-scanned-everything', Implies(none_matches, consulted == list(range(n))))
    if responder is cls._default_responder_path_not_found:
        v.cover('404')
    elif n:
        v.cover('fallback-hit')


for _n in range(4):
    harness(PROP, APP + '._get_responder', name='get_responder[n=%d]' % _n, fix={'table-length': _n})(get_responder)


# --- the scan for a table of arbitrary length n (loop invariant) --------------------------------


@stubclass
class Table:
    """The combined table as a function index -> entry; `hit(i)`: entry i matches the request path,
    `sink(i)`: entry i is a sink.  `j` is an arbitrary index (universally quantified by being a free input)."""

    def __init__(self, v, path):
        import z3
        from pyvc.core import mk_bool

        self.v = v
        self.path = path
        self.n = v.int('n', 0)
        self.j = v.int('j', 0)
        hit = z3.Function('entry_matches_path', z3.IntSort(), z3.BoolSort())
        sink = z3.Function('entry_is_sink', z3.IntSort(), z3.BoolSort())
        self.hit = lambda i: mk_bool(hit(i.t if hasattr(i, 't') else i))
        self.sink = lambda i: mk_bool(sink(i.t if hasattr(i, 't') else i))
        self.path_ok = True

    def __pyvc_seq__(self):
        return self

    def length(self):
        return self.n

    def __getitem__(self, i):
        return (IMatcher(self, i), ITarget(self, i), self.sink(i))

    def none_before(self, i):
        """the arbitrary entry j, if before i, does not match"""
        return Implies(self.j < i, Not(self.hit(self.j)))


@stubclass
class ITarget:
    def __init__(self, table, i):
        self.table = table
        self.i = i


@stubclass
class IGroups:
    def __init__(self, i):
        self.i = i


@stubclass
class IMatch:
    def __init__(self, table, i):
        self.table = table
        self.i = i

    def __pyvc_truth__(self):
        return self.table.hit(self.i)

    def groupdict(self):
        self.table.v.check('groupdict-only-asked-of-a-sink-match', self.table.sink(self.i))
        return IGroups(self.i)


@stubclass
class IMatcher:
    def __init__(self, table, i):
        self.table = table
        self.i = i

    def match(self, path):
        if path is not self.table.path:
            self.table.path_ok = False
        return IMatch(self.table, self.i)


def _scan_invariant(reg, ex):
    from pyvc.interp import LoopSpec

    def inv(L):
        t = L['self']._fields['_sink_and_static_routes']
        p = L['params']
        return And(t.none_before(L['_i_for0']), isinstance(p, dict) and len(p) == 0)

    reg.loops[(APP + '._get_responder', 'for#0')] = LoopSpec(inv=inv)


@harness(PROP, APP + '._get_responder', setup=_scan_invariant)
def get_responder_any_length(v):
    """No route; a table of arbitrary length: the least matching index wins, else 404."""
    if v.concrete:
        return  # the table is a function symbol: counter-models are replayed by the n=0..3 harnesses
    asgi = v.choose(2, 'asgi-app?')
    cls = v.real(AAPP if asgi else APP)
    req = Req(v)
    search = RouterSearch(None if v.choose(2, 'route-result') == 0 else (None, None, None))
    t = Table(v, req.path)
    app = app_obj(v, asgi, _router_search=search, _sink_and_static_routes=t)
    out = v.call(app, req)
    v.check('no-exception', out.exc is None)
    if out.exc is not None:
        return
    responder, params, resource, uri_template = out.value
    v.check('no-route-resource-is-none', resource is None)
    v.check('no-route-template-is-none', uri_template is None)
    v.check('matchers-see-the-request-path', t.path_ok)
    if isinstance(responder, ITarget):
        k = responder.i
        v.check('fallback-is-first-matching-entry', And(0 <= k, k < t.n, t.hit(k), t.none_before(k)))
        if t.sink(k):
            v.check('fallback-params-groupdict-for-sink-empty-for-static', isinstance(params, IGroups) and params.i is k)
            v.cover('sink-hit')
        else:
            v.check('fallback-params-groupdict-for-sink-empty-for-static', isinstance(params, dict) and params == {})
            v.cover('static-hit')
    else:
        v.check('no-match-yields-404-default', responder is cls._default_responder_path_not_found)
        v.check('no-match-params-empty', isinstance(params, dict) and params == {})
        v.check('no-match-scanned-everything', Implies(t.j < t.n, Not(t.hit(t.j))))
        v.cover('404')


# ---------------------------------------------------------------------------
# LIFO tables: add_sink / add_static_route / _update_sink_and_static_routes
#
# Ghost view: `_sinks` and `_static_routes` are python lists of ARBITRARY length (z3 Seq of entry
# identities).  One registration step maps (S, T) to ([e] ++ S, T) resp. (S, [e] ++ T) and rebuilds
# the combined table as S' ++ T' (sink_before_static_route) or T' ++ S'.  By induction over the
# registration history, from the empty tables of __init__: each table is newest-first.


def _same_value(a, b):
    import re

    if a is b:
        return True
    if type(a) is type(b) and isinstance(a, (bool, int, str, re.Pattern)):
        return a == b
    if isinstance(a, tuple) and isinstance(b, tuple) and len(a) == len(b):
        return all(_same_value(x, y) for x, y in zip(a, b))
    return False


class World:
    """Identities of the entries created while the subject runs (python value <-> z3 Int)."""

    def __init__(self):
        self.vals = []

    def ident(self, x):
        import z3

        for k, y in enumerate(self.vals):
            if _same_value(x, y):
                return z3.IntVal(-(k + 1))
        self.vals.append(x)
        return z3.IntVal(-len(self.vals))


@stubclass
class GList:
    """A python list (or, frozen, a tuple) of opaque entries: arbitrary length, arbitrary content."""

    def __init__(self, world, seq, frozen=False):
        self.w = world
        self.seq = seq
        self.frozen = frozen

    @staticmethod
    def fresh(v, world, name):
        import z3

        n = v.int('len_' + name, 0)
        s = v.ctx.fresh_const(name, z3.SeqSort(z3.IntSort()))
        v.assume(_zb(z3.Length(s) == n.t))
        return GList(world, s)

    def insert(self, i, x):
        import z3

        assert not self.frozen
        n = z3.Length(self.seq)
        i = i.t if hasattr(i, 't') else z3.IntVal(i)
        pos = z3.If(i < 0, z3.If(n + i < 0, 0, n + i), z3.If(i > n, n, i))
        self.seq = z3.simplify(z3.Concat(z3.SubSeq(self.seq, 0, pos), z3.Unit(self.w.ident(x)), z3.SubSeq(self.seq, pos, n - pos)))

    def append(self, x):
        import z3

        assert not self.frozen
        self.seq = z3.simplify(z3.Concat(self.seq, z3.Unit(self.w.ident(x))))

    def __pyvc_add__(self, o):
        import z3

        if not isinstance(o, GList) or o.frozen != self.frozen:
            from pyvc.core import Unreached

            raise Unreached('list + non-list')
        return GList(self.w, z3.simplify(z3.Concat(self.seq, o.seq)), self.frozen)

    def __pyvc_len__(self):
        import z3
        from pyvc.core import mk_int

        return mk_int(z3.Length(self.seq))


def _zb(t):
    from pyvc.core import mk_bool

    return mk_bool(t)


def _tables_setup(reg, ex):
    import builtins
    import inspect

    from pyvc import models

    base_tuple = models.MODELS[id(builtins.tuple)]

    def m_tuple(I, x=()):
        if isinstance(x, GList):
            return GList(x.w, x.seq, frozen=True)
        return base_tuple(I, x)

    reg.add_model(builtins.tuple, m_tuple)
    reg.add_model(inspect.iscoroutinefunction, lambda I, f: f.is_coro if isinstance(f, Sink) else inspect.iscoroutinefunction(f))
    # callee contracts (falcon.util): opaque predicates / wrappers over the opaque sink
    reg.stubs['falcon.util.misc:is_python_func'] = lambda I, f: f.is_py
    reg.stubs['falcon.util.sync:_should_wrap_non_coroutines'] = lambda I: I.ctx.ghost['wrap_env']
    reg.stubs['falcon.util.sync:wrap_sync_to_async'] = lambda I, f, threadsafe=None: Wrapped(f)

    def static_init(I, self, prefix, directory, downloadable=False, fallback_filename=None):
        self._fields['init_args'] = (prefix, directory, downloadable, fallback_filename)

    reg.stubs['falcon.routing.static:StaticRoute.__init__'] = static_init


@stubclass
class Sink:
    def __init__(self, is_coro, is_py):
        self.is_coro = is_coro
        self.is_py = is_py


@stubclass
class Wrapped:
    def __init__(self, inner):
        self.inner = inner


def mk_sink(v):
    """An arbitrary sink callable: coroutine function or not; python function or native callable."""
    is_coro = bool(v.choose(2, 'sink-is-coroutine-function?'))
    is_py = bool(v.choose(2, 'sink-is-python-function?'))
    if not v.concrete:
        return Sink(is_coro, is_py), is_coro, is_py
    if is_coro:
        async def sink(req, resp, **kw):
            pass
    elif is_py:
        def sink(req, resp, **kw):
            pass
    else:
        sink = print  # a callable that is not a python function
        is_py = False
    return sink, is_coro, is_py


class Tables:
    """Builds an app with arbitrary tables and states the post-condition of one registration step."""

    def __init__(self, v, asgi):
        self.v = v
        self.asgi = asgi
        self.sbs = v.bool('sink_before_static_route')
        if v.concrete:
            nS, nT = v.int('len_S', 0), v.int('len_T', 0)
            self.S0 = [Tok('old-sink-entry%d' % i) for i in range(nS)]
            self.T0 = [Tok('old-static-entry%d' % i) for i in range(nT)]
            S, T = list(self.S0), list(self.T0)
            self.world = None
        else:
            self.world = World()
            S = GList.fresh(v, self.world, 'S')
            T = GList.fresh(v, self.world, 'T')
            self.S0, self.T0 = S.seq, T.seq
        self.stale = Tok('stale-combined-table')
        self.app = app_obj(v, asgi, _sinks=S, _static_routes=T, _sink_before_static_route=self.sbs, _sink_and_static_routes=self.stale)

    # sequences as the specification sees them (z3 Seq term | python list)
    def now(self, field):
        x = self.v.get(self.app, field)
        if self.v.concrete:
            return list(x) if isinstance(x, (list, tuple)) else x
        return x.seq if isinstance(x, GList) else x

    def is_kind(self, field, frozen):
        x = self.v.get(self.app, field)
        if self.v.concrete:
            return isinstance(x, tuple if frozen else list)
        return isinstance(x, GList) and x.frozen == frozen

    def unit(self, e):
        import z3

        return [e] if self.v.concrete else z3.Unit(self.world.ident(e))

    def cat(self, a, b):
        import z3

        return a + b if self.v.concrete else z3.Concat(a, b)

    def eq(self, a, b):
        if self.v.concrete:
            return isinstance(a, list) and len(a) == len(b) and all(_same_value(x, y) for x, y in zip(a, b))
        import z3

        if not z3.is_expr(a):
            return False
        return _zb(a == b)

    def combined(self, S, T):
        return Ite(self.sbs, True, False) and None  # placeholder, see check_combined

    def check_step(self, S1, T1):
        """S1/T1: the expected tables after the step (spec side)."""
        v = self.v
        v.check('sinks-table-newest-first', self.is_kind('_sinks', False) and self.eq(self.now('_sinks'), S1))
        v.check('static-table-newest-first', self.is_kind('_static_routes', False) and self.eq(self.now('_static_routes'), T1))
        if not self.is_kind('_sink_and_static_routes', True):
            v.check('combined-table-is-sinks-and-statics-in-configured-order', False)
            return
        C = self.now('_sink_and_static_routes')
        if self.sbs:  # forks
            v.check('combined-table-is-sinks-and-statics-in-configured-order', self.eq(C, self.cat(S1, T1)))
            v.cover('sinks-first')
        else:
            v.check('combined-table-is-sinks-and-statics-in-configured-order', self.eq(C, self.cat(T1, S1)))
            v.cover('statics-first')

    def check_untouched(self):
        v = self.v
        v.check('rejected-registration-leaves-tables-untouched',
                And(self.eq(self.now('_sinks'), self.S0), self.eq(self.now('_static_routes'), self.T0),
                    v.get(self.app, '_sink_and_static_routes') is self.stale))


SINK_PREFIXES = [None, r'/api/(?P<version>v\d+)/', 'compiled']


def add_sink(v):
    import os
    import re

    asgi = v.choose(2, 'asgi-app?')
    t = Tables(v, asgi)
    sink, is_coro, is_py = mk_sink(v)
    wrap_env = bool(v.choose(2, 'FALCON_ASGI_WRAP_NON_COROUTINES?')) if asgi else False
    pk = v.choose(3, 'prefix-kind')
    prefix = re.compile(r'/files/(?P<name>.+)') if pk == 2 else SINK_PREFIXES[pk]
    args = (sink,) if prefix is None else (sink, prefix)
    if v.concrete:
        saved = os.environ.pop('FALCON_ASGI_WRAP_NON_COROUTINES', None)
        if wrap_env:
            os.environ['FALCON_ASGI_WRAP_NON_COROUTINES'] = 'Y'
        try:
            out = v.call(t.app, *args, target=(AAPP if asgi else APP) + '.add_sink')
        finally:
            os.environ.pop('FALCON_ASGI_WRAP_NON_COROUTINES', None)
            if saved is not None:
                os.environ['FALCON_ASGI_WRAP_NON_COROUTINES'] = saved
    else:
        v.ctx.ghost['wrap_env'] = wrap_env
        out = v.call(t.app, *args, target=(AAPP if asgi else APP) + '.add_sink')

    CompatibilityError = v.real('falcon.errors:CompatibilityError')
    if asgi:
        rejected = (not is_coro) and is_py and not wrap_env
        wrapped = (not is_coro) and is_py and wrap_env
    else:
        rejected = is_coro
        wrapped = False
    v.check('sink-of-the-wrong-flavour-rejected', (out.exc is not None and out.exc.isa(CompatibilityError)) if rejected else out.exc is None)
    if out.exc is not None:
        t.check_untouched()
        v.cover('rejected')
        return
    # the entry that must now head the sinks table
    pattern = re.compile('/' if prefix is None else prefix) if pk != 2 else prefix
    head = t.now('_sinks')
    entry = _head(v, t, '_sinks')
    v.check('new-sink-entry-is-pattern-sink-true',
            isinstance(entry, tuple) and len(entry) == 3 and _same_value(entry[0], pattern) and entry[2] is True
            and (_is_wrapped(v, entry[1], sink) if wrapped else entry[1] is sink))
    if not isinstance(entry, tuple):
        return
    t.check_step(t.cat(t.unit(entry), t.S0), t.T0)
    v.cover('registered')


def _head(v, t, field):
    """The entry at index 0 of a table after the step (None when that is not a freshly created entry)."""
    x = v.get(t.app, field)
    if v.concrete:
        return x[0] if x else None
    import z3

    if not isinstance(x, GList):
        return None
    h = z3.simplify(x.seq[0])
    if z3.is_int_value(h) and h.as_long() < 0 and -h.as_long() <= len(t.world.vals):
        return t.world.vals[-h.as_long() - 1]
    # not syntactically at the head: the only created entry (the ordering clause then fails)
    return t.world.vals[0] if len(t.world.vals) == 1 else None


def _is_wrapped(v, got, sink):
    if v.concrete:
        import inspect

        return inspect.iscoroutinefunction(got) and getattr(got, '__wrapped__', None) is sink
    return isinstance(got, Wrapped) and got.inner is sink


for _a in (0, 1):
    harness(PROP, (AAPP if _a else APP) + '.add_sink', name='add_sink[asgi=%d]' % _a, setup=_tables_setup, fix={'asgi-app?': _a},
            inline=[APP + '.add_sink', APP + '._update_sink_and_static_routes'])(add_sink)


def add_static_route(v):
    asgi = v.choose(2, 'asgi-app?')
    t = Tables(v, asgi)
    downloadable = bool(v.choose(2, 'downloadable?'))
    prefix, directory = '/static/', '/var/tmp'
    out = v.call(t.app, prefix, directory, downloadable=downloadable)
    v.check('no-exception', out.exc is None)
    if out.exc is not None:
        return
    entry = _head(v, t, '_static_routes')
    SR = v.real('falcon.routing.static:StaticRouteAsync' if asgi else 'falcon.routing.static:StaticRoute')
    ok = isinstance(entry, tuple) and len(entry) == 3 and entry[0] is entry[1] and entry[2] is False
    if ok:
        sr = entry[0]
        if v.concrete:
            ok = type(sr) is SR and sr._prefix == prefix and sr._directory == directory and sr._downloadable == downloadable and sr._fallback_filename is None
        else:
            ok = getattr(sr, '_cls', None) is SR and sr._fields.get('init_args') == (prefix, directory, downloadable, None)
    v.check('new-static-entry-is-route-route-false', ok)
    if not isinstance(entry, tuple):
        return
    t.check_step(t.S0, t.cat(t.unit(entry), t.T0))
    v.cover('registered')


harness(PROP, APP + '.add_static_route', setup=_tables_setup, inline=[APP + '._update_sink_and_static_routes'])(add_static_route)


@harness(PROP, APP + '._update_sink_and_static_routes', setup=_tables_setup)
def update_tables(v):
    t = Tables(v, v.choose(2, 'asgi-app?'))
    out = v.call(t.app)
    v.check('no-exception', out.exc is None)
    if out.exc is None:
        t.check_step(t.S0, t.T0)


KILLS = [
    # the scan no longer stops at the first (most recent) match
    ('falcon/app.py', '                    responder = obj\n\n                    break\n', '                    responder = obj\n', '_get_responder#fallback-is-first-matching-entry'),
    # sinks / static routes consulted although a route matched
    ('falcon/app.py', "        if resource is not None:\n            try:\n                responder = method_map[method]",
     "        if resource is not None and not self._sink_and_static_routes:\n            try:\n                responder = method_map[method]",
     '_get_responder#route-masks-sinks-and-static-routes'),
    # a static route gets the sink treatment
    ('falcon/app.py', '                    if is_sink:\n                        params = m.groupdict()', '                    if True:\n                        params = m.groupdict()',
     '_get_responder#groupdict-only-asked-of-a-sink-match'),
    # WEBSOCKET handshakes dispatched by the HTTP method
    ('falcon/app.py', "        method = 'WEBSOCKET' if req.is_websocket else req.method\n", '        method = req.method\n', '_get_responder#route-lookup-is-by-request-method-or-WEBSOCKET'),
    # 404 and 400 defaults swapped
    ('falcon/app.py', '                responder = self.__class__._default_responder_path_not_found\n', '                responder = self.__class__._default_responder_bad_request\n',
     '_get_responder#no-match-yields-404-default'),
]
HARMLESS = []

ASSUMPTIONS = []
NOT_DECIDED = []
TRUSTED = []
