"""C02 -- dispatch order; 404 / 405 / OPTIONS are exact.

Contracts on
  falcon/app.py        App._get_responder, add_sink, add_static_route, _update_sink_and_static_routes
  falcon/asgi/app.py   App.add_sink
  falcon/routing/util.py   map_http_methods, set_default_responders
  falcon/responders.py     path_not_found[_async], bad_request[_async], create_method_not_allowed, create_default_options
  falcon/routing/static.py StaticRoute.match
"""
from __future__ import annotations

from pyvc.core import And, Iff, Implies, Ite, Len, Not, Or
from pyvc.harness import harness, stubclass

PROP = 'C02'
APP = 'falcon.app:App'
AAPP = 'falcon.asgi.app:App'


# ---------------------------------------------------------------------------
# opaque participants


class Tok:
    """An opaque object (a resource, a responder, a sink, a params dict ...) known only by identity."""

    __pyvc_symbolic__ = True

    def __init__(self, name):
        self.name = name

    def __repr__(self):
        return '<%s>' % self.name


@stubclass
class Req:
    """falcon.Request as far as _get_responder reads it."""

    def __init__(self, v):
        self.path = v.str('path')
        self.method = v.str('method')
        self.is_websocket = v.bool('is_websocket')


@stubclass
class RouterSearch:
    """The router's find(): opaque, returns what the harness decided."""

    def __init__(self, result):
        self.result = result
        self.calls = []

    def __call__(self, path, req=None):
        self.calls.append((path, req))
        return self.result


@stubclass
class MethodMap:
    """An arbitrary mapping: the looked-up key is either bound to `responder` or absent."""

    def __init__(self, v, has, responder):
        self.v = v
        self.has = has
        self.responder = responder
        self.asked = []

    def __pyvc_getitem__(self, k):
        self.asked.append(k)
        if self.has:
            return self.responder
        self.v.ctx.raise_py(KeyError, k)

    def __getitem__(self, k):
        self.asked.append(k)
        if self.has:
            return self.responder
        raise KeyError(k)


@stubclass
class MatchObj:
    """What a sink pattern's match() returns on success (re.Match): truthy, has groupdict()."""

    def __init__(self, owner):
        self.owner = owner

    def groupdict(self):
        o = self.owner
        o.v.check('groupdict-only-asked-of-a-sink-match', o.is_sink)
        return o.groups


@stubclass
class Matcher:
    """A sink prefix pattern or a static route, observed through match(path) only (a pure predicate of the path)."""

    def __init__(self, v, idx, is_sink, matches, log):
        self.v = v
        self.idx = idx
        self.is_sink = is_sink
        self.matches = matches  # symbolic bool: does this entry match the request path
        self.groups = Tok('groupdict%d' % idx)
        self.log = log

    def match(self, path):
        self.log.append((self.idx, path))
        if self.matches:  # forks
            return MatchObj(self) if self.is_sink else True
        return None if self.is_sink else False


def app_obj(v, asgi, **fields):
    return v.obj(AAPP if asgi else APP, **fields)


def same_str(a, b):
    return a == b


# ---------------------------------------------------------------------------
# _get_responder


def get_responder(v):
    asgi = v.choose(2, 'asgi-app?')
    cls = v.real(AAPP if asgi else APP)
    req = Req(v)
    RES, RESP, PARAMS = Tok('resource'), Tok('responder'), Tok('route-params')
    tmpl = v.str('uri_template')
    kind = v.choose(5, 'route-result')
    has = None
    mm = None
    if kind == 0:
        route = None
    elif kind in (1, 2):
        has = v.choose(2, 'method-in-map?')
        mm = MethodMap(v, has, RESP)
        route = (RES, mm, PARAMS, tmpl) if kind == 1 else (RES, mm, PARAMS)
    elif kind == 3:
        route = (None, None, None)  # legacy routers: "not found"
    else:
        route = (None, None, None, None)
    search = RouterSearch(route)

    n = v.choose(4, 'table-length')
    log = []
    entries = []
    ms = []
    for i in range(n):
        is_sink = bool(v.choose(2, 'entry%d-is-sink?' % i))
        m = v.bool('match%d' % i)
        ms.append(m)
        mt = Matcher(v, i, is_sink, m, log)
        entries.append((mt, Tok('sink%d' % i) if is_sink else mt, is_sink))
    app = app_obj(v, asgi, _router_search=search, _sink_and_static_routes=tuple(entries))

    out = v.call(app, req)
    v.check('no-exception', out.exc is None)
    if out.exc is not None:
        return
    responder, params, resource, uri_template = out.value
    expected_key = 'WEBSOCKET' if req.is_websocket else req.method  # forks in symbolic mode
    v.check('router-searched-once-with-request-path',
            len(search.calls) == 1 and search.calls[0][0] is req.path and search.calls[0][1] is req)

    if kind in (1, 2):
        # a route matched
        v.check('route-masks-sinks-and-static-routes', len(log) == 0)
        v.check('route-lookup-is-by-request-method-or-WEBSOCKET', len(mm.asked) == 1 and same_str(mm.asked[0], expected_key))
        if has:
            v.check('route-responder-is-method-map-entry', responder is RESP)
            v.cover('route-with-method')
        else:
            v.check('route-without-method-gets-bad-request-default', responder is cls._default_responder_bad_request)
            v.cover('route-without-method')
        v.check('route-fields-are-the-params', params is PARAMS)
        v.check('route-resource-returned', resource is RES)
        v.check('route-template-returned', (uri_template is tmpl) if kind == 1 else (uri_template is None))
        return

    # no route: ordered scan of the combined table
    v.check('no-route-resource-is-none', resource is None)
    v.check('no-route-template-is-none', uri_template is None)
    v.check('matchers-see-the-request-path', all(p is req.path for _, p in log))
    consulted = [i for i, _ in log]
    none_matches = And(*[Not(m) for m in ms])
    for i in range(n):
        first = And(ms[i], *[Not(m) for m in ms[:i]])
        mt, obj, is_sink = entries[i]
        v.check('fallback-is-first-matching-entry', Implies(first, responder is obj))
        v.check('fallback-params-groupdict-for-sink-empty-for-static',
                Implies(first, (params is mt.groups) if is_sink else (isinstance(params, dict) and params == {})))
        v.check('scan-stops-at-first-match', Implies(first, consulted == list(range(i + 1))))
    v.check('no-match-yields-404-default', Implies(none_matches, responder is cls._default_responder_path_not_found))
    v.check('no-match-params-empty', Implies(none_matches, isinstance(params, dict) and params == {}))
    v.check('no-match-scanned-everything', Implies(none_matches, consulted == list(range(n))))
    if responder is cls._default_responder_path_not_found:
        v.cover('404')
    elif n:
        v.cover('fallback-hit')


for _n in range(4):
    harness(PROP, APP + '._get_responder', name='get_responder[n=%d]' % _n, fix={'table-length': _n})(get_responder)


# --- the scan for a table of arbitrary length n (loop invariant) --------------------------------


@stubclass
class Table:
    """The combined table as a function index -> entry; `hit(i)`: entry i matches the request path,
    `sink(i)`: entry i is a sink.  `j` is an arbitrary index (universally quantified by being a free input)."""

    def __init__(self, v, path):
        import z3
        from pyvc.core import mk_bool

        self.v = v
        self.path = path
        self.n = v.int('n', 0)
        self.j = v.int('j', 0)
        hit = z3.Function('entry_matches_path', z3.IntSort(), z3.BoolSort())
        sink = z3.Function('entry_is_sink', z3.IntSort(), z3.BoolSort())
        self.hit = lambda i: mk_bool(hit(i.t if hasattr(i, 't') else i))
        self.sink = lambda i: mk_bool(sink(i.t if hasattr(i, 't') else i))
        self.path_ok = True

    def __pyvc_seq__(self):
        return self

    def length(self):
        return self.n

    def __getitem__(self, i):
        return (IMatcher(self, i), ITarget(self, i), self.sink(i))

    def none_before(self, i):
        """the arbitrary entry j, if before i, does not match"""
        return Implies(self.j < i, Not(self.hit(self.j)))


@stubclass
class ITarget:
    def __init__(self, table, i):
        self.table = table
        self.i = i


@stubclass
class IGroups:
    def __init__(self, i):
        self.i = i


@stubclass
class IMatch:
    def __init__(self, table, i):
        self.table = table
        self.i = i

    def __pyvc_truth__(self):
        return self.table.hit(self.i)

    def groupdict(self):
        self.table.v.check('groupdict-only-asked-of-a-sink-match', self.table.sink(self.i))
        return IGroups(self.i)


@stubclass
class IMatcher:
    def __init__(self, table, i):
        self.table = table
        self.i = i

    def match(self, path):
        if path is not self.table.path:
            self.table.path_ok = False
        return IMatch(self.table, self.i)


def _scan_invariant(reg, ex):
    from pyvc.interp import LoopSpec

    def inv(L):
        t = L['self']._fields['_sink_and_static_routes']
        p = L['params']
        return And(t.none_before(L['_i_for0']), isinstance(p, dict) and len(p) == 0)

    reg.loops[(APP + '._get_responder', 'for#0')] = LoopSpec(inv=inv)


@harness(PROP, APP + '._get_responder', setup=_scan_invariant)
def get_responder_any_length(v):
    """No route; a table of arbitrary length: the least matching index wins, else 404."""
    if v.concrete:
        return  # the table is a function symbol: counter-models are replayed by the n=0..3 harnesses
    asgi = v.choose(2, 'asgi-app?')
    cls = v.real(AAPP if asgi else APP)
    req = Req(v)
    search = RouterSearch(None if v.choose(2, 'route-result') == 0 else (None, None, None))
    t = Table(v, req.path)
    app = app_obj(v, asgi, _router_search=search, _sink_and_static_routes=t)
    out = v.call(app, req)
    v.check('no-exception', out.exc is None)
    if out.exc is not None:
        return
    responder, params, resource, uri_template = out.value
    v.check('no-route-resource-is-none', resource is None)
    v.check('no-route-template-is-none', uri_template is None)
    v.check('matchers-see-the-request-path', t.path_ok)
    if isinstance(responder, ITarget):
        k = responder.i
        v.check('fallback-is-first-matching-entry', And(0 <= k, k < t.n, t.hit(k), t.none_before(k)))
        if t.sink(k):
            v.check('fallback-params-groupdict-for-sink-empty-for-static', isinstance(params, IGroups) and params.i is k)
            v.cover('sink-hit')
        else:
            v.check('fallback-params-groupdict-for-sink-empty-for-static', isinstance(params, dict) and params == {})
            v.cover('static-hit')
    else:
        v.check('no-match-yields-404-default', responder is cls._default_responder_path_not_found)
        v.check('no-match-params-empty', isinstance(params, dict) and params == {})
        v.check('no-match-scanned-everything', Implies(t.j < t.n, Not(t.hit(t.j))))
        v.cover('404')


KILLS = [
    # the scan no longer stops at the first (most recent) match
    ('falcon/app.py', '                    responder = obj\n\n                    break\n', '                    responder = obj\n', '_get_responder#fallback-is-first-matching-entry'),
    # sinks / static routes consulted although a route matched
    ('falcon/app.py', "        if resource is not None:\n            try:\n                responder = method_map[method]",
     "        if resource is not None and not self._sink_and_static_routes:\n            try:\n                responder = method_map[method]",
     '_get_responder#route-masks-sinks-and-static-routes'),
    # a static route gets the sink treatment
    ('falcon/app.py', '                    if is_sink:\n                        params = m.groupdict()', '                    if True:\n                        params = m.groupdict()',
     '_get_responder#groupdict-only-asked-of-a-sink-match'),
    # WEBSOCKET handshakes dispatched by the HTTP method
    ('falcon/app.py', "        method = 'WEBSOCKET' if req.is_websocket else req.method\n", '        method = req.method\n', '_get_responder#route-lookup-is-by-request-method-or-WEBSOCKET'),
    # 404 and 400 defaults swapped
    ('falcon/app.py', '                responder = self.__class__._default_responder_path_not_found\n', '                responder = self.__class__._default_responder_bad_request\n',
     '_get_responder#no-match-yields-404-default'),
]
HARMLESS = []

ASSUMPTIONS = []
NOT_DECIDED = []
TRUSTED = []
